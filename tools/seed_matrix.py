#!/usr/bin/env python3
"""seed_matrix.py [ids...]: apply every seeded change in /verif/seeded to /repo in turn, run the quick check of the
property it breaks, undo it; write seeded/MATRIX.md and the detected_by field of each meta.json.
Never run together with anything else that uses /repo's working tree."""
import json, os, re, subprocess, sys, time
S = '/verif/seeded'
only = set(sys.argv[1:])
rows = []
assert not subprocess.run(['git', '-C', '/repo', 'status', '--short', '--untracked-files=no'], capture_output=True, text=True).stdout.strip(), '/repo not clean'
for d in sorted(os.listdir(S)):
    p = os.path.join(S, d)
    if not os.path.isdir(p) or (only and d not in only):
        continue
    meta = json.load(open(os.path.join(p, 'meta.json')))
    prop = meta.get('check_property') or meta['breaks_property']
    patch = os.path.join(p, 'patch.diff')
    if subprocess.run(['git', '-C', '/repo', 'apply', '--check', patch], capture_output=True).returncode != 0:
        rows.append((d, prop, 'does not apply to the current tree',
                     meta.get('status_on_current_tree', '') or meta.get('superseded_by', '')))
        continue
    subprocess.run(['git', '-C', '/repo', 'apply', patch], check=True)
    t = time.time()
    try:
        out = subprocess.run(['./check', prop, '--tier', 'quick'], cwd='/verif', capture_output=True, text=True, timeout=1800)
        rc, text = out.returncode, out.stdout
    except subprocess.TimeoutExpired:
        rc, text = -1, ''
    finally:
        subprocess.run(['git', '-C', '/repo', 'checkout', '--', '.'], check=True)
    viol = re.findall(r'^VIOLATION property=\S+ replay=\S*/([^/\s]+)\.json( no-failing-input-found)?', text, re.M)
    und = len(re.findall(r'^(UNDECIDED|DEGRADED)', text, re.M))
    ded = [v for v, s in viol if v.startswith('pymap.')]
    bnd = [v for v, s in viol if not v.startswith('pymap.')]
    verdict = 'DETECTED' if rc == 1 and viol else ('missed (exit 0)' if rc == 0 else f'exit {rc}')
    how = []
    if rc == 0 and meta.get('status_on_current_tree'):
        # a change that a later repair made harmless (its own demo passes with it): exit 0 is the right answer
        verdict = 'exit 0: harmless on the repaired tree'
        how.append(meta['status_on_current_tree'])
    if ded:
        how.append('deductive: ' + ', '.join(sorted({v.split('_', 1)[0].split('.')[-1] + '…' + v[-50:] for v in ded})[:2]))
    if bnd:
        how.append('bounded: ' + ', '.join(sorted(set(bnd))[:2]))
    if und:
        how.append(f'{und} obligation group(s) undecided/degraded on the changed code')
    rows.append((d, prop, verdict, '; '.join(how)))
    meta['detected_by'] = f'{verdict} by ./check {prop} --tier quick ({"; ".join(how)})'
    json.dump(meta, open(os.path.join(p, 'meta.json'), 'w'), indent=1)
    print(d, prop, verdict, '; '.join(how)[:160], f'{time.time() - t:.0f}s', flush=True)
if only:
    # a partial run: rebuild the table from every meta.json (detected_by of the rows not run now is what the last run wrote)
    done = {r[0]: r for r in rows}
    rows = []
    for d in sorted(os.listdir(S)):
        p = os.path.join(S, d)
        if not os.path.isdir(p):
            continue
        if d in done:
            rows.append(done[d])
            continue
        meta = json.load(open(os.path.join(p, 'meta.json')))
        prop = meta.get('check_property') or meta['breaks_property']
        if subprocess.run(['git', '-C', '/repo', 'apply', '--check', os.path.join(p, 'patch.diff')], capture_output=True).returncode != 0:
            rows.append((d, prop, 'does not apply to the current tree',
                         meta.get('status_on_current_tree', '') or meta.get('superseded_by', '')))
            continue
        m = re.match(r'(DETECTED|missed \(exit 0\)|exit 0: harmless on the repaired tree|exit -?\d+) by \./check \S+ --tier quick \((.*)\)$', meta.get('detected_by') or '', re.S)
        rows.append((d, prop, m.group(1) if m else 'not run', m.group(2) if m else ''))
if True:
    with open(os.path.join(S, 'MATRIX.md'), 'w') as f:
        f.write('# Seeded changes vs. checks (written by tools/seed_matrix.py)\n\n| seeded change | check | result | how |\n|---|---|---|---|\n')
        for r in rows:
            f.write('| ' + ' | '.join(str(x).replace('|', '/') for x in r) + ' |\n')
