#!/usr/bin/env python3
"""ingest_seed.py <prop> <m-dir> <slug> "<needs>" : copy a confirmed seeded change into /verif/seeded/<id>/"""
import json, os, shutil, sys, subprocess
prop, src, slug, needs = sys.argv[1:5]
sid = f'{prop}-{slug}'
dst = f'/verif/seeded/{sid}'
os.makedirs(dst, exist_ok=True)
for f in ('patch.diff', 'demo.py', 'demo_test.py', 'notes.md'):
    if os.path.exists(os.path.join(src, f)):
        shutil.copy(os.path.join(src, f), dst)
out = subprocess.run(['/verif/tools/confirm_seed.sh', src], capture_output=True, text=True).stdout.strip().splitlines()[-1]
meta = dict(id=sid, breaks_property=prop, needs_to_manifest=needs,
            confirmed=out, what_i_ran='tools/confirm_seed.sh: scratch worktree of /repo HEAD, git apply patch.diff, full suite, demo with and without the patch',
            detected_by=None)
json.dump(meta, open(os.path.join(dst, 'meta.json'), 'w'), indent=1)
print(sid, out)
