#!/bin/bash
# run every registered quick check on the current tree; print one line per property
cd /verif
tier=${1:-quick}
for p in $(.venv/bin/python -c "import json; print(' '.join(c['property_id'] for c in json.load(open('MANIFEST.json'))['checks']))"); do
  s=$(date +%s)
  out=$(./check $p --tier $tier 2>&1); rc=$?
  echo "$p exit=$rc $(( $(date +%s) - s ))s $(echo "$out" | grep -E 'SUMMARY' | cut -c1-200)"
  echo "$out" | grep -E "VIOLATION|UNDECIDED|DEGRADED|KNOWN-FINDING|CRASH|Traceback" | cut -c1-220 | head -5
done
