#!/bin/bash
# usage: confirm_seed.sh <seed dir containing patch.diff + demo.py> ; prints a one-line verdict
# Confirms in a scratch worktree of /repo HEAD: patch applies, suite still 300 passed, demo fails with the
# patch and passes without it.  The worktree is removed afterwards.
d=$1
wt=/tmp/wt_confirm_$$
git -C /repo worktree add -q --detach $wt HEAD || exit 2
cd $wt
demo=$d/demo.py; [ -f $demo ] || demo=$d/demo_test.py
clean_rc=$( /venv/bin/python $demo >/tmp/confirm_clean_$$.log 2>&1; echo $? )
if ! git apply $d/patch.diff 2>/tmp/confirm_apply_$$.log; then echo "SEED $d: patch does not apply: $(cat /tmp/confirm_apply_$$.log | head -2)"; cd /; git -C /repo worktree remove --force $wt; exit 1; fi
suite=$(/venv/bin/python -m pytest -q -p no:cacheprovider --timeout=900 --continue-on-collection-errors 2>&1 | tail -1)
mut_rc=$( /venv/bin/python $demo >/tmp/confirm_mut_$$.log 2>&1; echo $? )
git checkout -q -- .
cd /
git -C /repo worktree remove --force $wt
rm -f /tmp/confirm_*_$$.log
echo "SEED $d: suite_with_patch='$suite' demo_clean_rc=$clean_rc demo_patched_rc=$mut_rc"
