#!/bin/bash
# try_seed.sh <patch.diff> <PROP> [tier]: apply to /repo, run the check, undo.  Prints the verdict lines.
patch=$1; prop=$2; tier=${3:-quick}
cd /repo || exit 2
if ! git apply --check "$patch" 2>/dev/null; then echo "PATCH DOES NOT APPLY to current /repo: $patch"; exit 2; fi
git apply "$patch"
cd /verif && ./check $prop --tier $tier 2>&1 | grep -E "VIOLATION|UNDECIDED|DEGRADED|KNOWN|SUMMARY|CRASH" | cut -c1-260 | head -12
rc=${PIPESTATUS[0]}
git -C /repo checkout -- .
echo "exit=$rc; repo clean: $(git -C /repo status --short | wc -l) changes"
