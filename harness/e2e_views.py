"""Bounded end-to-end stand-in for C01 / C02 / C17-style view properties: two or three real sessions on one
dict-backend mailbox; every response stream is replayed on a client model (imapdrv.ClientView)."""
from __future__ import annotations

import itertools
import multiprocessing as mp
import re

from .imapdrv import World, ClientView, run

VICTIM_CMDS = [
    b'NOOP',
    b'CHECK',
    b'FETCH 1:* (FLAGS)',
    b'FETCH 2:3 (UID FLAGS)',
    b'UID FETCH 1:* (FLAGS)',
    b'UID FETCH 103:* (FLAGS)',
    b'STORE 2 +FLAGS (\\Seen)',
    b'STORE 1:* +FLAGS.SILENT (\\Answered)',
    b'UID STORE 102:104 -FLAGS (\\Seen)',
    b'UID STORE 101:* +FLAGS.SILENT (\\Draft)',
    b'SEARCH ALL',
    b'UID SEARCH UNDELETED',
    b'EXPUNGE',
    b'COPY 1 Sent',
    b'UID MOVE 104 Trash',
    b'COPY 3 Sent',
    b'MOVE * Sent',
    b'COPY 2:3 Sent',
]
VICTIM_QUICK = [0, 2, 4, 5, 6, 7, 9, 10, 12, 15, 16]

# what the other session does before a victim command (each is a list of raw commands)
MUTATIONS = {
    'none': [],
    'expunge-low': [b'UID STORE 101 +FLAGS.SILENT (\\Deleted)', b'UID EXPUNGE 101'],
    'expunge-mid': [b'UID STORE 103 +FLAGS.SILENT (\\Deleted)', b'UID EXPUNGE 103'],
    'append': [(b'APPEND INBOX {3}', [b'x\r\n\r\n'])],
    'flag': [b'UID STORE 102 +FLAGS.SILENT (\\Flagged)'],
    'expunge-low+append': [b'UID STORE 101 +FLAGS.SILENT (\\Deleted)', b'UID EXPUNGE 101',
                           (b'APPEND INBOX {3}', [b'y\r\n\r\n'])],
    'expunge-all': [b'UID STORE 1:* +FLAGS.SILENT (\\Deleted)', b'EXPUNGE'],
}
MUT_QUICK = ['none', 'expunge-low', 'expunge-mid', 'append', 'flag', 'expunge-low+append']

_SEARCH = re.compile(rb'^\* SEARCH((?: \d+)*)\r\n$')


async def _probe(client, view, errors, where):
    """the server's current numbering, asked with a non-UID FETCH; must coincide with the client's view"""
    r = await client.cmd(b'FETCH 1:* (UID)')
    held = len(view.uids)       # the probe is interpreted against the view the client held when sending it
    for u in r['untagged']:
        if b' EXPUNGE' in u:
            errors.append(f'{where}: EXPUNGE sent while answering a non-UID FETCH')
        view.apply(u, where + ' probe')
    errors.extend(view.errors)
    view.errors.clear()
    listed = {}
    for u in r['untagged']:
        m = re.match(rb'^\* (\d+) FETCH \(.*?\bUID (\d+)', u)
        if m:
            listed[int(m.group(1))] = int(m.group(2))
    if listed and (sorted(listed) != list(range(1, len(listed) + 1)) or len(listed) != held):
        errors.append(f'{where}: server lists {len(listed)} messages {listed}, client held {held}')
    if not listed and held:
        if r['tagged'] and b' OK' in r['tagged']:
            errors.append(f'{where}: server lists no messages, client held {held}')


async def scenario(victim_prog, mut_prog, check_convergence=True, examine=False, probe_each=True):
    """returns (errors, signature)"""
    errors = []
    w = await World().start()
    a = await w.client('a')
    b = await w.client('b')
    ra = await a.cmd(b'EXAMINE INBOX' if examine else b'SELECT INBOX')
    await b.cmd(b'SELECT INBOX')
    view = ClientView()
    for u in ra['untagged']:
        view.apply(u, 'select')
    await _probe(a, view, errors, 'after select')
    sig = []
    for step, (vc, mk) in enumerate(zip(victim_prog, mut_prog)):
        for m in MUTATIONS[mk]:
            if isinstance(m, tuple):
                await b.cmd(m[0], m[1])
            else:
                await b.cmd(m)
        r = await a.cmd(vc)
        where = f'step {step} [{mk}] {vc.decode()}'
        if not r['answered']:
            errors.append(f'{where}: no tagged response')
            break
        non_uid = not vc.upper().startswith(b'UID ') and vc.split()[0].upper() in (b'FETCH', b'STORE', b'SEARCH')
        count_before = len(view.uids)
        uids_before = list(view.uids)
        if vc.split()[0].upper() in (b'COPY', b'MOVE') and r['tagged'] and b' OK' in r['tagged'][:12]:
            # sequence numbers of COPY / MOVE mean what the CLIENT holds under them: the source uids of COPYUID must be those
            mcu = re.search(rb'\[COPYUID \d+ ([\d:,]+) [\d:,]+\]', b' '.join(r['all']))
            spec = vc.split()[1]
            want = set()
            for part in spec.split(b','):
                p_lo, _, p_hi = part.partition(b':')
                lo = count_before if p_lo == b'*' else int(p_lo)
                hi = lo if not p_hi else (count_before if p_hi == b'*' else int(p_hi))
                want |= {uids_before[i - 1] for i in range(min(lo, hi), max(lo, hi) + 1) if 1 <= i <= count_before}
            if mcu and None not in want:
                got = set()
                for part in mcu.group(1).split(b','):
                    p_lo, _, p_hi = part.partition(b':')
                    got |= set(range(int(p_lo), int(p_hi or p_lo) + 1))
                if not got <= want:
                    errors.append(f'{where}: {vc.decode()} copied uids {sorted(got)}; in the numbering the client holds '
                                  f'({uids_before}) the addressed messages are {sorted(want)}')
        for u in r['untagged']:
            if non_uid and re.match(rb'^\* \d+ EXPUNGE', u):
                errors.append(f'{where}: EXPUNGE sent while answering a non-UID {vc.split()[0].decode()}')
            ms = _SEARCH.match(u)
            if ms and not vc.upper().startswith(b'UID '):
                nums = [int(x) for x in ms.group(1).split()]
                if any(n < 1 or n > count_before for n in nums):
                    errors.append(f'{where}: SEARCH returned {nums} with {count_before} messages in the client view')
            view.apply(u, where)
        errors.extend(view.errors)
        view.errors.clear()
        sig.append((vc, mk, tuple(re.sub(rb'\d+', b'#', u[:24]) for u in r['untagged']), r['tagged'][:12]))
        if probe_each:
            await _probe(a, view, errors, where)
        if errors:
            break
    if check_convergence and not errors:
        # a last change by the other session (when the program carries one more mutation than commands), then
        # the quiescent point: NOOP, and the view (uids) must equal the real mailbox contents
        for m in (MUTATIONS[mut_prog[len(victim_prog)]] if len(mut_prog) > len(victim_prog) else []):
            if isinstance(m, tuple):
                await b.cmd(m[0], m[1])
            else:
                await b.cmd(m)
        r = await a.cmd(b'NOOP')
        for u in r['untagged']:
            view.apply(u, 'final noop')
        await _probe(a, view, errors, 'final')
        mbx = await w.mailbox('INBOX')
        real = sorted(mbx._messages)
        if [u for u in view.uids] != real:
            errors.append(f'final: client view {view.uids} != mailbox contents {real}')
    await w.close()
    for c in (a, b):
        exc = c.exception()
        if exc is not None:
            errors.append(f'connection {c.name} died: {exc!r}')
    return errors, tuple(sig)


def _worker(args):
    vp, mp_ = args[0], args[1]
    examine = len(args) > 2 and args[2]
    probe_each = not (len(args) > 3 and args[3])
    try:
        errs, sig = run(scenario(vp, mp_, examine=examine, probe_each=probe_each))
    except Exception as exc:    # noqa
        return args, [f'harness exception {exc!r}'], ()
    return args, errs, sig


def enumerate_scenarios(tier):
    if tier == 'quick':
        vcs = [VICTIM_CMDS[i] for i in VICTIM_QUICK]
        muts = MUT_QUICK
        n = 2
    else:
        vcs = VICTIM_CMDS
        muts = list(MUTATIONS)
        n = 2
    for vp in itertools.product(vcs, repeat=n):
        for mp_ in itertools.product(muts, repeat=n):
            yield vp, mp_
    # a read-only (EXAMINE) victim: its STORE / EXPUNGE / MOVE are refused, and a refused command must not
    # disturb what the following commands report
    ro = [VICTIM_CMDS[i] for i in (0, 2, 4, 6, 7, 10, 12, 14)]
    for vp in itertools.product(ro, repeat=2):
        for mp_ in itertools.product(['none', 'expunge-low', 'append', 'flag'], repeat=2):
            yield vp, mp_, True
    # no probing between commands (a probe is itself a successful command and would hide state left behind by
    # a refused one); one more mutation before the final NOOP
    for ex in (False, True):
        for vp in itertools.product(ro, repeat=2):
            for mp_ in itertools.product(['none', 'expunge-low', 'append'], repeat=3):
                yield vp, mp_, ex, True
    if tier != 'quick':
        small = [VICTIM_CMDS[i] for i in (0, 2, 4, 6, 7, 12)]
        for vp in itertools.product(small, repeat=3):
            for mp_ in itertools.product(['none', 'expunge-low', 'append', 'flag'], repeat=3):
                yield vp, mp_


def bounded_views(label_prefix):
    from pyvc.prop import BoundedResult

    def fn(tier, seed):
        res = BoundedResult()
        scen = list(enumerate_scenarios(tier))
        with mp.get_context('fork').Pool(16) as pool:
            for args, errs, sig in pool.imap_unordered(_worker, scen, chunksize=8):
                res.evaluations += 1
                res.distinct.add(sig)
                if errs:
                    res.fail(f'{label_prefix}/client_view_consistent',
                             dict(victim=[c.decode() for c in args[0]], other_session=list(args[1])), errs[:3])
                elif len(res.samples) < 2:
                    res.samples.append(dict(victim=[c.decode() for c in args[0]], other_session=list(args[1]),
                                            result='consistent'))
        return res
    return fn
