"""Bounded stand-in for C08 (maildir, both layouts): hostile mailbox names in every command that takes a mailbox
argument, two users provisioned.  A sys.audit hook records every filesystem path the process touches while the commands
of user alice are served; every recorded path that lies under the backend's base directory must lie strictly inside
alice's own mailbox directory, and a remove / rmdir / rename must never hit that directory itself.  In addition the
whole tree outside alice's directory (bob's store, the password files) is hashed before and after, and a marker message
in bob's INBOX must never appear in alice's responses."""
from __future__ import annotations

import hashlib
import itertools
import multiprocessing as mp
import os
import sys

from .imapdrv import MaildirWorld, run
from .e2e_names import mutf7_encode

PARTS = ['a', '', '.', '..', '\x00', 'x\ny', 'é', '*', ':', 'new', 'cur', 'bob', '...', '.a', 'a.b', '~']
_events = []
_active = {'on': False}
_installed = {'done': False}


def _hook(event, args):
    if not _active['on']:
        return
    if event in ('open', 'os.listdir', 'os.scandir', 'os.mkdir', 'os.rmdir', 'os.remove', 'os.rename', 'os.chmod',
                 'os.utime', 'os.truncate', 'os.link', 'os.symlink', 'shutil.rmtree', 'os.chdir', 'os.walk'):
        for a in args[:2] if event in ('os.rename', 'os.link', 'os.symlink') else args[:1]:
            if isinstance(a, (str, bytes)):
                _events.append((event, os.fsdecode(a)))


def install():
    if not _installed['done']:
        sys.addaudithook(_hook)
        _installed['done'] = True


def tree_hash(root, skip):
    h = {}
    for dp, dn, fn in os.walk(root):
        if os.path.abspath(dp).startswith(skip + os.sep) or os.path.abspath(dp) == skip:
            dn[:] = [] if os.path.abspath(dp) == skip else dn
            if os.path.abspath(dp) == skip:
                continue
        for f in fn:
            p = os.path.join(dp, f)
            if f.endswith('.lock'):
                continue
            try:
                with open(p, 'rb') as fh:
                    h[os.path.relpath(p, root)] = hashlib.sha1(fh.read()).hexdigest()
            except OSError:
                h[os.path.relpath(p, root)] = 'unreadable'
        for d in dn:
            h[os.path.relpath(os.path.join(dp, d), root) + '/'] = 'dir'
    return h


def enc(name):
    if isinstance(name, bytes):
        # a raw wire spelling (e.g. a non-canonical modified-UTF-7 form that hides a letter of the name)
        return b'{%d+}\r\n' % len(name) + name
    raw = mutf7_encode(name) if '\x00' not in name else name.encode('utf-8')
    return b'{%d+}\r\n' % len(raw) + raw


def commands(name):
    n = enc(name)
    return [b'CREATE ' + n, b'SELECT ' + n, b'EXAMINE ' + n, b'STATUS ' + n + b' (MESSAGES)', b'APPEND ' + n + b' {3+}\r\nx\r\n',
            b'SUBSCRIBE ' + n, b'UNSUBSCRIBE ' + n, b'COPY 1 ' + n, b'MOVE 1 ' + n, b'RENAME Existing ' + n, b'RENAME ' + n + b' other',
            b'DELETE ' + n, b'LIST ' + n + b' *', b'LIST "" ' + n, b'LSUB ' + n + b' %']


async def scenario(layout, name):
    install()
    errors = []
    w = await MaildirWorld(layout=layout).start()
    try:
        bobc = await w.client('b', user=b'bob', pw=b'bpass')
        await bobc.cmd(b'APPEND INBOX {20+}\r\nSubject: BOBSECRET\r\n\r\n')
        await bobc.cmd(b'CREATE Private')
        await bobc.cmd(b'LOGOUT')
        base = os.path.abspath(w.base)
        home = os.path.join(base, 'alice')
        a = await w.client('a', user=b'alice', pw=b'apass')
        await a.cmd(b'CREATE Existing')
        await a.cmd(b'APPEND INBOX {3+}\r\nm\r\n')
        await a.cmd(b'SELECT INBOX')
        outside_before = tree_hash(base, home)
        sig = []
        for cmd in commands(name):
            del _events[:]
            _active['on'] = True
            try:
                r = await a.cmd(cmd)
            finally:
                _active['on'] = False
            verb = cmd.split(b' ')[0].decode()
            cond = r['tagged'].split()[1] if r['tagged'] else None
            sig.append((verb, cond))
            where = f'{layout} {verb} {name!r} -> {cond}'
            if not r['answered'] and not r['closed']:
                errors.append(f'{where}: no tagged response')
            if any(b'BOBSECRET' in x for x in r['all']):
                errors.append(f'{where}: the response shows another user\'s message')
            for ev, p in list(_events):
                ap = os.path.normpath(os.path.join(base, p)) if not os.path.isabs(p) else os.path.normpath(p)
                rp = os.path.realpath(ap)
                for q in {ap, rp}:
                    if q == base or q.startswith(base + os.sep):
                        if not (q.startswith(home + os.sep) or (q == home and ev in ('os.listdir', 'os.scandir', 'open', 'os.walk'))):
                            if q == home:
                                errors.append(f'{where}: {ev} on the user\'s mailbox directory itself ({p})')
                            elif os.path.basename(q).startswith('pymap-etc-') and ev == 'open':
                                pass        # the password files are read when a session is (re-)opened
                            else:
                                errors.append(f'{where}: {ev} touched {p} -> {q}, outside {home}')
            if not os.path.isdir(home):
                errors.append(f'{where}: the user\'s mailbox directory itself was removed or replaced')
                break
            if tree_hash(base, home) != outside_before:
                errors.append(f'{where}: something outside the user\'s store changed')
                break
            if r['closed']:
                a = await w.client('a2', user=b'alice', pw=b'apass')
                await a.cmd(b'SELECT INBOX')
        await w.close()
    finally:
        w.cleanup()
    return errors, (layout, tuple(sig))


def _worker(args):
    layout, name = args
    try:
        errs, sig = run(scenario(layout, name))
    except Exception as exc:    # noqa
        import traceback
        return args, [f'harness exception {exc!r} {traceback.format_exc()[-500:]}'], ()
    return args, errs, sig


def names(tier):
    out = []
    n = 2 if tier == 'quick' else 3
    parts = PARTS if tier != 'quick' else PARTS[:12]
    for k in range(1, n + 1):
        for t in itertools.product(parts, repeat=k):
            out.append('/'.join(t))
    out += ['INBOX', 'inbox', 'INBOX/', 'INBOX//', 'inbox/', 'INBOX/.', 'a/', 'bob/', 'INBOX/..', '../bob', '../bob/cur', '..', '/', '//', '/etc', '/tmp/x', 'a/../../bob',
            '../pymap-etc-passwd', './', './/', 'Existing/..', 'a' * 300]
    # raw wire spellings: modified-UTF-7 shift sequences that spell ordinary ASCII letters (not canonical, but decodable):
    # layers that disagree on what such a name IS (INBOX or not, '.' / '..' / '/' or not) must not open a way out
    out += [b'&AGk-nbox', b'&AGkAbgBiAG8AeA-', b'I&AG4-box', b'&AEk-NBOX', b'&AEkATgBCAE8AWA-', b'inbo&AHg-', b'&AC4ALg-', b'&AC4-',
            b'&AC4ALg-/bob', b'a/&AC4ALg-/&AC4ALg-/bob', b'&AC8-etc', b'&AC4ALg-&AC8-bob', b'INBOX&AC8-x', b'&ATE-nbox']
    return list(dict.fromkeys(out))


def bounded_paths(label):
    from pyvc.prop import BoundedResult

    def fn(tier, seed):
        res = BoundedResult()
        items = [(layout, nm) for layout in ('++', 'fs') for nm in names(tier)]
        with mp.get_context('fork').Pool(16) as pool:
            for args, errs, sig in pool.imap_unordered(_worker, items, chunksize=2):
                res.evaluations += 1
                res.distinct.add(sig)
                if errs:
                    res.fail(f'{label}/paths_stay_inside_the_users_store', dict(layout=args[0], name=args[1]), errs[:3])
                elif len(res.samples) < 2:
                    res.samples.append(dict(layout=args[0], name=args[1], result='confined'))
        return res
    return fn


# ---- dict backend: one user's commands never change what another user observes

async def dict_scenario(name):
    from .imapdrv import World
    errors = []
    w = await World().start(extra_users=[('other', 'otherpass')])
    o = await w.client('o', user=b'other', pw=b'otherpass')
    await o.cmd(b'CREATE Private')
    await o.cmd(b'APPEND Private {20+}\r\nSubject: OTHERSECRET\r\n\r\n')

    async def other_view():
        out = {}
        r = await o.cmd(b'LIST "" *')
        out['list'] = sorted(r['untagged'])
        for box in (b'INBOX', b'Private'):
            r = await o.cmd(b'STATUS ' + box + b' (MESSAGES UIDNEXT UIDVALIDITY UNSEEN)')
            out[box] = r['untagged']
        r = await o.cmd(b'LSUB "" *')
        out['lsub'] = sorted(r['untagged'])
        return out
    before = await other_view()
    a = await w.client('a')
    await a.cmd(b'CREATE Existing')
    await a.cmd(b'SELECT INBOX')
    sig = []
    for cmd in commands(name):
        r = await a.cmd(cmd)
        sig.append((cmd.split(b' ')[0], r['tagged'].split()[1] if r['tagged'] else None))
        if any(b'OTHERSECRET' in x for x in r['all']):
            errors.append(f'dict {cmd[:30]!r} {name!r}: the response shows another user\'s message')
        if r['closed']:
            a = await w.client('a2')
            await a.cmd(b'SELECT INBOX')
    after = await other_view()
    if after != before:
        errors.append(f'dict {name!r}: what the other user observes changed')
    await w.close()
    return errors, ('dict', tuple(sig))


def _dict_worker(name):
    try:
        errs, sig = run(dict_scenario(name))
    except Exception as exc:    # noqa
        import traceback
        return name, [f'harness exception {exc!r} {traceback.format_exc()[-400:]}'], ()
    return name, errs, sig


def bounded_isolation_dict(label):
    from pyvc.prop import BoundedResult

    def fn(tier, seed):
        res = BoundedResult()
        with mp.get_context('fork').Pool(16) as pool:
            for name, errs, sig in pool.imap_unordered(_dict_worker, names(tier), chunksize=4):
                res.evaluations += 1
                res.distinct.add(sig)
                if errs:
                    res.fail(f'{label}/users_are_isolated', dict(backend='dict', name=name), errs[:3])
        return res
    return fn
