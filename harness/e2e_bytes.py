"""Bounded stand-in for C03: byte strings b are APPENDed to the real server (dict backend) and fetched back in every
form the property names: BODY[] / RFC822 == b, RFC822.SIZE == len(b), BODY[HEADER] + BODY[TEXT] == b,
BODY[]<o.n> == b[o:o+n], the same for the COPY, and the octet count announced for a leaf part in BODYSTRUCTURE
equals len(BODY[1])."""
from __future__ import annotations

import itertools
import multiprocessing as mp
import re

from .imapdrv import World, run

ALPHABET = [b'\r', b'\n', b' ', b'\t', b'a', b':', b'\x00', b'\x80']

SPECIALS = [
    b'', b'hello', b'A: b\n', b'A: b\r\n', b'A: b\r\n\r\n', b'A: b\r\n\r\nbody', b'A: b\r\n\r\nbody\r\n',
    b'\r\n', b'\n\n', b'\r\n\r\n', b' \r\nx', b'A: b\n \n\nbody\n', b'Subject: x\r\n\r\n\r\n',
    b'Content-Type: text/plain\r\n\r\nline1\r\nline2\r\n', b'From: a\r\nTo: b\r\n\r\n\x00\x80\xff body \r',
    b'Content-Type: multipart/mixed; boundary=B\r\n\r\n--B\r\nContent-Type: text/plain\r\n\r\npart one\r\n--B\r\n'
    b'Content-Type: text/html\r\n\r\n<p>two</p>\r\n--B--\r\n',
    b'Content-Type: multipart/mixed; boundary=B\r\n\r\n--B\r\n\r\nno headers\r\n--B--',
    b'Content-Type: message/rfc822\r\n\r\nSubject: inner\r\n\r\ninner body\r\n',
    b'Content-Type: multipart/mixed; boundary=B\r\n\r\npreamble only',
    b'X: ' + b'y' * 70000 + b'\r\n\r\nz',
]


def literal_payload(resp: bytes, key: bytes):
    """the literal that follows `key {n}\\r\\n` inside a FETCH response"""
    m = re.search(re.escape(key) + rb' \{(\d+)\}\r\n', resp)
    if m:
        n = int(m.group(1))
        return resp[m.end():m.end() + n]
    m = re.search(re.escape(key) + rb' "((?:[^"\\]|\\.)*)"', resp)
    if m:
        return re.sub(rb'\\(.)', rb'\1', m.group(1))
    m = re.search(re.escape(key) + rb' NIL', resp)
    if m:
        return None
    return b'<<missing>>'


def partials(n):
    out = {(0, 1), (0, n), (0, n + 5), (1, n), (1, n + 3), (n, 1), (n + 2, 4), (2, 1), (n // 2, n)}
    return sorted((o, l) for o, l in out if o >= 0 and l >= 1)      # <o.n>: n is a nz-number


async def check_message(client, seq, b, errors, where):
    r = await client.cmd(b'FETCH %d (BODY.PEEK[] RFC822.SIZE BODY.PEEK[HEADER] BODY.PEEK[TEXT])' % seq)
    resp = b''.join(u for u in r['untagged'] if b' FETCH ' in u[:20])
    if not r['answered'] or b' OK' not in r['tagged']:
        errors.append(f'{where}: FETCH answered {r["tagged"]!r}')
        return
    body = literal_payload(resp, b'BODY[]')
    if body != b:
        errors.append(f'{where}: BODY[] returned {body!r:.80} for {b!r:.80}')
    ms = re.search(rb'RFC822\.SIZE (\d+)', resp)
    if not ms or int(ms.group(1)) != len(b):
        errors.append(f'{where}: RFC822.SIZE {ms.group(1) if ms else None} for {len(b)} octets')
    for items in (b'RFC822.SIZE', b'FAST', b'(UID RFC822.SIZE)'):
        # the size asked for WITHOUT any content item (a backend may then skip loading the content)
        r2 = await client.cmd(b'FETCH %d ' % seq + items)
        ms = re.search(rb'RFC822\.SIZE (\d+)', b''.join(r2['untagged']))
        if not ms or int(ms.group(1)) != len(b):
            errors.append(f'{where}: FETCH {items.decode()} reports RFC822.SIZE {ms.group(1).decode() if ms else None} for {len(b)} octets')
            break
    hdr, txt = literal_payload(resp, b'BODY[HEADER]'), literal_payload(resp, b'BODY[TEXT]')
    if (hdr or b'') + (txt or b'') != b:
        errors.append(f'{where}: HEADER {hdr!r:.50} + TEXT {txt!r:.50} != {b!r:.60}')
    r = await client.cmd(b'FETCH %d (RFC822)' % seq)
    resp = b''.join(u for u in r['untagged'] if b' FETCH ' in u[:20])
    if literal_payload(resp, b'RFC822') != b:
        errors.append(f'{where}: RFC822 returned {literal_payload(resp, b"RFC822")!r:.80}')
    for o, n in partials(len(b)):
        r = await client.cmd(b'FETCH %d (BODY.PEEK[]<%d.%d>)' % (seq, o, n))
        resp = b''.join(u for u in r['untagged'] if b' FETCH ' in u[:20])
        got = literal_payload(resp, b'BODY[]<%d>' % o)
        if (got or b'') != b[o:o + n]:
            errors.append(f'{where}: BODY[]<{o}.{n}> returned {got!r:.60}, expected {b[o:o + n]!r:.60}')
            break
    # two partial ranges in ONE command whose offsets are different numbers with the same CPython hash (n and n + 2**61-1):
    # both items were asked for, both must come back, each with its own octets
    far = 2 ** 61 - 1
    for o, n in ((0, 5), (1, 3)):
        for first, second in (((o, n), (o + far, n)), ((o + far, n), (o, n))):
            r = await client.cmd(b'FETCH %d (BODY.PEEK[]<%d.%d> BODY.PEEK[]<%d.%d>)' % ((seq,) + first + second))
            resp = b''.join(u for u in r['untagged'] if b' FETCH ' in u[:20])
            for oo, nn in (first, second):
                got = literal_payload(resp, b'BODY[]<%d>' % oo)
                if got == b'<<missing>>' or (got or b'') != b[oo:oo + nn]:
                    errors.append(f'{where}: FETCH (BODY[]<{first[0]}.{first[1]}> BODY[]<{second[0]}.{second[1]}>): the item '
                                  f'BODY[]<{oo}> came back as {got!r:.40}, expected {b[oo:oo + nn]!r:.40}')
                    return


async def scenario(b, backend='dict'):
    errors = []
    if backend == 'dict':
        w = await World().start()
        c = await w.client('c')
    else:
        from .imapdrv import MaildirWorld
        w = await MaildirWorld(layout=backend).start(users=(('alice', 'apass'),))
        c = await w.client('c', user=b'alice', pw=b'apass')
    await c.cmd(b'CREATE Box')
    await c.cmd(b'CREATE Copy')
    r = await c.cmd(b'APPEND Box {%d}' % len(b), [b + b'\r\n'])
    if not r['answered']:
        errors.append(f'APPEND of {b!r:.60}: no tagged response')
    elif b' OK' not in r['tagged']:
        # a refused message is outside "accepted by APPEND"
        await w.close()
        return errors, ('refused', r['tagged'][:20])
    await c.cmd(b'SELECT Box')
    if backend != 'dict':
        # the maildir backend stores what mailbox.MaildirMessage / the email package re-serialise (known finding
        # C03-maildir-reserialises-messages): report that once, then check every other clause against the bytes it stored
        r = await c.cmd(b'FETCH 1 (BODY.PEEK[])')
        resp = b''.join(u for u in r['untagged'] if b' FETCH ' in u[:20])
        stored = literal_payload(resp, b'BODY[]')
        if stored != b:
            errors.append(('maildir_stores_the_appended_bytes',
                           f'APPEND of {b!r:.70} is stored and returned as {stored!r:.70} (re-serialised by the email package)'))
            if not isinstance(stored, bytes) or stored == b'<<missing>>':
                await w.close()
                w.cleanup()
                return errors, ('nostore', len(b))
            b = stored
    n_before = len(errors)
    await check_message(c, 1, b, errors, 'appended')
    if len(errors) == n_before:
        await c.cmd(b'COPY 1 Copy')
        await c.cmd(b'MOVE 1 Copy')
        await c.cmd(b'SELECT Copy')
        await check_message(c, 1, b, errors, 'copy')
        await check_message(c, 2, b, errors, 'moved')
        # a partial range over SEVERAL messages in one command: every one of them gets its own b[o:o+n]
        for o, n in ((0, 3), (1, 2), (2, 5)):
            r = await c.cmd(b'FETCH 1:2 (BODY.PEEK[]<%d.%d>)' % (o, n))
            for u in r['untagged']:
                if b' FETCH ' in u[:20]:
                    got = literal_payload(u, b'BODY[]<%d>' % o)
                    if (got or b'') != b[o:o + n]:
                        errors.append(f'FETCH 1:2 (BODY[]<{o}.{n}>): message {u.split()[1].decode()} got {got!r:.50}, expected {b[o:o + n]!r:.50}')
                        break
    if len(errors) == n_before:
        # octet count of a single-part message in BODYSTRUCTURE vs. the data BODY[1] returns
        r = await c.cmd(b'FETCH 1 (BODYSTRUCTURE BODY.PEEK[1])')
        resp = b''.join(u for u in r['untagged'] if b' FETCH ' in u[:20])
        part = literal_payload(resp, b'BODY[1]')
        m = re.search(rb'BODYSTRUCTURE \("[^"]*" "[^"]*" (?:NIL|\([^)]*\)) (?:NIL|"[^"]*") (?:NIL|"[^"]*") "[^"]*" (\d+)', resp)
        if m and part not in (None, b'<<missing>>') and int(m.group(1)) != len(part):
            if int(m.group(1)) == len(b):
                errors.append(('bodystructure_octets_equal_part_length',
                               f'BODYSTRUCTURE announces header+body octets ({len(b)}) of the single part, '
                               f'BODY[1] returns the {len(part)} body octets'))
            else:
                errors.append(('bodystructure_octets_equal_part_length',
                               f'BODYSTRUCTURE announces {int(m.group(1))} octets, BODY[1] returns {len(part)}'))
    await w.close()
    if hasattr(w, 'cleanup'):
        w.cleanup()
    if c.exception() is not None:
        errors.append(f'connection died: {c.exception()!r}')
    return errors, ('ok', len(b))


def _worker(b):
    backend = 'dict'
    if isinstance(b, tuple):
        backend, b = b
    try:
        errs, sig = run(scenario(b, backend))
    except Exception as exc:    # noqa
        import traceback
        return b, [f'harness exception {exc!r} {traceback.format_exc()[-300:]}'], ()
    return b, errs, sig


def inputs(tier, seed):
    import random
    for s in SPECIALS:
        yield s
    maxlen = 3 if tier == 'quick' else 4
    for n in range(1, maxlen + 1):
        for t in itertools.product(ALPHABET, repeat=n):
            yield b''.join(t)
    rnd = random.Random(seed)
    for _ in range(300 if tier == 'quick' else 3000):
        n = rnd.choice((5, 6, 7, 9, 17, 64, 300))
        yield b''.join(rnd.choice(ALPHABET) for _ in range(n))
    for _ in range(20 if tier == 'quick' else 200):
        hdr = b''.join(rnd.choice([b'A: b\r\n', b'B:\tc\n', b' folded\r\n', b'C: \x80\r\n']) for _ in range(rnd.randint(0, 4)))
        sep = rnd.choice([b'\r\n', b'\n', b''])
        body = b''.join(rnd.choice([b'line\r\n', b'\n', b'\r', b'x', b'\x00']) for _ in range(rnd.randint(0, 6)))
        yield hdr + sep + body


def bounded_bytes(label, backend='dict'):
    from pyvc.prop import BoundedResult

    def fn(tier, seed):
        res = BoundedResult()
        res.exhaustive = False
        res.note = 'exhaustive for all strings up to the stated length over the alphabet; longer ones seeded'
        items = list(dict.fromkeys(inputs(tier, seed)))
        if backend != 'dict':
            # the maildir backend (thread pool, real files): the special shapes, all words up to length 2 (thorough 3), 60 seeded
            short = [x for x in items if len(x) <= (2 if tier == 'quick' else 3)]
            longer = [x for x in items if len(x) > 4]
            items = [(backend, x) for x in list(dict.fromkeys(SPECIALS + short + longer[:60 if tier == 'quick' else 600]))]
        with mp.get_context('fork').Pool(16) as pool:
            for b, errs, sig in pool.imap_unordered(_worker, items, chunksize=16):
                if isinstance(b, tuple):
                    b = b[1]
                res.evaluations += 1
                res.distinct.add((sig, b[:12]))
                if errs:
                    for e in errs[:3]:
                        if isinstance(e, tuple):
                            res.fail(f'{label}/{e[0]}', repr(b[:120]), [e[1]])
                        else:
                            res.fail(f'{label}/bytes_returned_verbatim', repr(b[:120]), [e])
                elif len(res.samples) < 3:
                    res.samples.append(dict(message=repr(b[:60]), result='verbatim in every form'))
        return res
    return fn
