"""Bounded stand-in for C11: namespace command programs on the real server (dict backend) against a plain model of
RFC 3501 (a set of names with '/' hierarchy, a set of subscribed names, INBOX special), and LIST/LSUB patterns against
an independent glob matcher ('*' any characters, '%' any characters except the delimiter)."""
from __future__ import annotations

import itertools
import multiprocessing as mp
import re

from .imapdrv import World, run

DELIM = '/'


def glob_match(pattern: str, name: str) -> bool:
    """independent matcher: backtracking, no regex"""
    def rec(pi, ni):
        while pi < len(pattern):
            ch = pattern[pi]
            if ch == '*':
                return any(rec(pi + 1, k) for k in range(ni, len(name) + 1))
            if ch == '%':
                k = ni
                while True:
                    if rec(pi + 1, k):
                        return True
                    if k < len(name) and name[k] != DELIM:
                        k += 1
                    else:
                        return False
            if ni < len(name) and name[ni] == ch:
                pi += 1
                ni += 1
                continue
            return False
        return ni == len(name)
    return rec(0, 0)


def mutf7_encode(name: str) -> bytes:
    """RFC 3501 5.1.3, written independently of pymap: printable US-ASCII stands for itself except '&' -> '&-';
    everything else is modified BASE64 of its UTF-16BE form between '&' and '-'"""
    import base64
    out = bytearray()
    run = ''

    def flush():
        nonlocal run
        if run:
            b64 = base64.b64encode(run.encode('utf-16-be')).rstrip(b'=').replace(b'/', b',')
            out.extend(b'&' + b64 + b'-')
            run = ''
    for ch in name:
        if 0x20 <= ord(ch) <= 0x7e:
            flush()
            out.extend(b'&-' if ch == '&' else ch.encode('ascii'))
        else:
            run += ch
    flush()
    return bytes(out)


def mutf7_decode(raw: bytes) -> str:
    import base64
    out = ''
    i = 0
    while i < len(raw):
        c = raw[i:i + 1]
        if c == b'&':
            j = raw.index(b'-', i)
            if j == i + 1:
                out += '&'
            else:
                b64 = raw[i + 1:j].replace(b',', b'/')
                out += base64.b64decode(b64 + b'=' * (-len(b64) % 4)).decode('utf-16-be')
            i = j + 1
        else:
            out += c.decode('ascii')
            i += 1
    return out


def enc(name: str) -> bytes:
    """a mailbox argument as a non-synchronising literal of its modified UTF-7 form (safe for any characters)"""
    raw = mutf7_encode(name)
    return b'{%d+}\r\n' % len(raw) + raw


def parse_list(untagged, verb=b'LIST'):
    """-> [(name, set(attrs))]; names decoded from modified UTF-7 (independent decoder)"""
    out = []
    for u in untagged:
        m = re.match(rb'^\* ' + verb + rb' \(([^)]*)\) (?:"(.)"|NIL) (.*)\r\n$', u, re.S)
        if not m:
            continue
        rest = m.group(3)
        lit = re.match(rb'^\{(\d+)\}\r\n(.*)$', rest, re.S)
        if lit:
            raw = lit.group(2)[:int(lit.group(1))]
        elif rest.startswith(b'"'):
            raw = re.sub(rb'\\(.)', rb'\1', rest[1:-1])
        else:
            raw = rest
        try:
            out.append((mutf7_decode(raw), set(m.group(1).split())))
        except Exception:     # noqa
            out.append((repr(raw), set(m.group(1).split()) | {b'@undecodable'}))
    return out


def is_inbox(n: str) -> bool:
    """RFC 3501 5.1: INBOX is case-insensitive -- in US-ASCII, as every ABNF string; 'ınbox' (U+0131) is another name"""
    return n.isascii() and n.upper() == 'INBOX'


class Model:
    def __init__(self, names, subscribed=(), backend='dict'):
        self.names = set(names)          # existing, selectable; INBOX implicit
        self.subscribed = set(subscribed)
        self.backend = backend

    def parents_missing(self, n):
        parts = n.split(DELIM)
        return any(DELIM.join(parts[:i]) not in self.names and not is_inbox(DELIM.join(parts[:i]))
                   for i in range(1, len(parts)))

    def exists(self, n):
        return is_inbox(n) or n in self.names

    def create(self, n):
        if is_inbox(n) or n in self.names:
            return b'NO'
        if self.backend != 'dict' and (self.parents_missing(n) or n.upper().startswith('INBOX' + DELIM)):
            return b'NO?'          # RFC: superiors SHOULD be created; a backend that refuses instead is accepted
        self.names.add(n)
        return b'OK'

    def delete(self, n):
        if is_inbox(n) or n not in self.names:
            return b'NO'
        if self.backend == 'maildirfs' and any(m.startswith(n + DELIM) for m in self.names):
            return b'KNOWN-NO-INFERIORS'     # known finding C11-maildirfs-delete-with-inferiors (RFC 3501 6.3.4 permits the DELETE)
        self.names.discard(n)
        return b'OK'

    def rename(self, a, b):
        if not self.exists(a) and any(n.startswith(a + DELIM) for n in self.names) and not self.exists(b) \
                and not is_inbox(b):
            return b'NO?'          # a is only a hierarchy node (\Noselect): RFC does not say; either answer accepted
        if is_inbox(b) or not self.exists(a) or self.exists(b):
            return b'NO'
        if any(n.startswith(b + DELIM) for n in self.names):
            return b'NO?'          # the target is a hierarchy node of existing names: either answer accepted
        if self.backend != 'dict' and (self.parents_missing(b) or b.startswith(a + DELIM)):
            return b'NO?'
        if is_inbox(a):
            if self.backend != 'dict':
                return b'KNOWN-NO'
            self.names.add(b)
            return b'OK'
        moved = {n for n in self.names if n == a or n.startswith(a + DELIM)}
        if any((b + n[len(a):]) in self.names - moved for n in moved):
            return b'NO?'          # an inferior's target exists: RFC does not say; either answer accepted
        self.names -= moved
        self.names |= {b + n[len(a):] for n in moved}
        return b'OK'

    def listing(self, ref, pat):
        full = ref + pat
        # RFC 3501 5.1: the name INBOX is case-insensitive, so a pattern matches it if it matches any spelling of it
        return {n for n in self.names | {'INBOX'} if glob_match(full, n) or
                (n == 'INBOX' and glob_match(''.join(ch.upper() if ch.isascii() else ch for ch in full), 'INBOX'))}


NAMES = ['a', 'a/b', 'a/b/c', 'ab', 'B', 'inbox', 'ınbox', 'Inbox/x', 'a*b', 'a%b', 'q"uote', 'new\nline', 'nl\n', 'é', 'a/é', 'Sent']
PATTERNS = [('', '*'), ('', '%'), ('', 'a*'), ('', 'a%'), ('', 'a/%'), ('', '%/%'), ('a/', '%'), ('a', '%'), ('', 'a/b'),
            ('', '*b'), ('', 'INBOX'), ('', 'inbox'), ('', 'I%'), ('a/', '*'), ('', '%b'), ('', 'ab%'), ('', 'a%b'),
            ('', '*e'), ('', '%\n%'), ('', 'é'), ('', 'S*t'), ('', 'Sent%'), ('', '%Sent'), ('', ''), ('a', ''),
            ('', 'nl'), ('', 'n%'), ('', '*l'), ('', 'new\nlin'),
            ('', 'inbox*'), ('', 'ınbox'), ('', 'InBo%'), ('', '%x'), ('in', 'bo%'), ('', 'i*'), ('', '*X'), ('', 'inbox/%')]


def ops(tier):
    o = []
    names = NAMES if tier != 'quick' else NAMES[:14]
    for n in names:
        o += [('create', n), ('delete', n), ('subscribe', n), ('unsubscribe', n), ('status', n), ('append', n)]
    for a, b in [('a', 'z'), ('a', 'ab'), ('a/b', 'a/z'), ('INBOX', 'old'), ('a', 'INBOX'), ('nope', 'x'), ('a', 'a/b2'),
                 ('Sent', 'a'), ('a', 'a'), ('ab', 'a'), ('a', 'inbox'), ('a/b', 'B/b')]:
        o.append(('rename', a, b))
    return o


async def check_lists(c, model, errors, where):
    for ref, pat in PATTERNS:
        r = await c.cmd(b'LIST ' + enc(ref) + b' ' + enc(pat))
        if not r['answered'] or b' OK' not in r['tagged']:
            errors.append(f'{where}: LIST {ref!r} {pat!r} answered {r["tagged"]!r}')
            continue
        got = parse_list(r['untagged'])
        if pat == '':
            continue
        sel = {n for n, a in got if b'\\Noselect' not in a}
        for n, a in got:
            if b'@undecodable' in a:
                errors.append(f'{where}: LIST returned a name that is not valid modified UTF-7: {n}')
        want = model.listing(ref, pat)
        if sel != want:
            errors.append(f'{where}: LIST {ref!r} {pat!r} returned {sorted(sel)}, existing names matching are {sorted(want)}')
        for n, a in got:
            if b'\\Noselect' in a and not any(x.upper().startswith(n.upper() + DELIM) for x in model.names):
                errors.append(f'{where}: LIST {ref!r} {pat!r} returned \\Noselect {n!r} which has no inferiors')
        r = await c.cmd(b'LSUB ' + enc(ref) + b' ' + enc(pat))
        gots = {n for n, a in parse_list(r['untagged'], b'LSUB') if b'\\Noselect' not in a}
        wants = {n for n in model.subscribed if not is_inbox(n) and model.exists(n) and glob_match(ref + pat, n)}
        if gots - {'INBOX'} != wants - {'INBOX'}:
            errors.append(f'{where}: LSUB {ref!r} {pat!r} returned {sorted(gots)}, subscribed names matching are {sorted(wants)}')


async def dump_via(world, obs=None):
    """{name: (uidvalidity, messages, uidnext)} observed through the protocol by a second connection of the same user"""
    out = {}
    r = await obs.cmd(b'LIST "" *')
    names = [n for n, a in parse_list(r['untagged']) if b'\\Noselect' not in a]
    for n in names:
        r = await obs.cmd(b'STATUS ' + enc(n) + b' (MESSAGES UIDVALIDITY UIDNEXT)')
        m = re.search(rb'MESSAGES (\d+).*UIDVALIDITY (\d+).*UIDNEXT (\d+)|UIDVALIDITY (\d+)', b' '.join(r['untagged']), re.S)
        vals = {}
        for key in (b'MESSAGES', b'UIDVALIDITY', b'UIDNEXT'):
            mm = re.search(key + rb' (\d+)', b' '.join(r['untagged']))
            vals[key] = int(mm.group(1)) if mm else None
        out[n] = (vals[b'UIDVALIDITY'], vals[b'MESSAGES'], vals[b'UIDNEXT'])
    return out


async def make_world(backend):
    if backend == 'dict':
        w = await World().start()
        return w, (b'testuser', b'testpass')
    from .imapdrv import MaildirWorld
    w = await MaildirWorld(layout='++' if backend == 'maildir++' else 'fs').start()
    return w, (b'alice', b'apass')


async def scenario(prog, deep_lists, backend='dict'):
    errors = []
    w, (user, pw) = await make_world(backend)
    c = await w.client('c', user=user, pw=pw)
    o = await w.client('o', user=user, pw=pw)
    async def dump(w_):     # noqa: E306
        return await dump_via(w_, o)
    start = await dump(w)
    model = Model([n for n in start if n != 'INBOX'], backend=backend)
    sig = []
    for step, op in enumerate(prog):
        before = await dump(w)
        k = op[0]
        if k == 'create':
            r = await c.cmd(b'CREATE ' + enc(op[1]))
            want = model.create(op[1])
        elif k == 'delete':
            r = await c.cmd(b'DELETE ' + enc(op[1]))
            want = model.delete(op[1])
        elif k == 'rename':
            r = await c.cmd(b'RENAME ' + enc(op[1]) + b' ' + enc(op[2]))
            want = model.rename(op[1], op[2])
        elif k in ('subscribe', 'unsubscribe'):
            r = await c.cmd(k.upper().encode() + b' ' + enc(op[1]))
            want = b'OK'
            (model.subscribed.add if k == 'subscribe' else model.subscribed.discard)(op[1])
        elif k == 'append':
            r = await c.cmd(b'APPEND ' + enc(op[1]) + b' {3+}\r\nm\r\n')
            want = b'OK' if model.exists(op[1]) else b'NO'
            if backend == 'dict' and op[1] == 'Trash':
                want = b'NO'
        else:
            r = await c.cmd(b'STATUS ' + enc(op[1]) + b' (MESSAGES UIDVALIDITY)')
            want = b'OK' if model.exists(op[1]) else b'NO'
        where = f'step {step} {op}'
        if not r['answered']:
            errors.append(f'{where}: no tagged response; closed={r["closed"]} {r["all"][-1:]}')
            break
        got = r['tagged'].split()[1]
        sig.append((k, got))
        after = await dump(w)
        if want == b'NO?':
            model.names = {n for n in after if n != 'INBOX'}
            if got not in (b'OK', b'NO'):
                errors.append(f'{where}: answered {got}')
        elif want == b'KNOWN-NO-INFERIORS':
            if got == b'NO':
                errors.append(('delete_with_inferiors_refused_on_maildir_fs',
                               f'{where}: DELETE of a mailbox that has inferior names is refused on the fs layout (RFC 3501 6.3.4 permits it: '
                               f'the messages go, the name stays as \\Noselect)'))
            elif got == b'OK':
                model.names = {n for n in after if n != 'INBOX'}
            else:
                errors.append(f'{where}: answered {got}')
        elif want == b'KNOWN-NO':
            if got == b'NO':
                errors.append(('rename_inbox_unsupported_on_maildir', f'{where}: RENAME of INBOX is refused on the maildir backend (NotSupportedError)'))
            elif got == b'OK':
                model.names = {n for n in after if n != 'INBOX'}
        elif got != want:
            errors.append(f'{where}: answered {got.decode()}, the model says {want.decode()}')
        if k == 'status' and got == b'OK' and op[1] in after:
            # what this connection is told about a mailbox is what any other connection of the user is told (no stale object
            # from an earlier mailbox of that name)
            vals = {}
            for key in (b'MESSAGES', b'UIDVALIDITY'):
                mm = re.search(key + rb' (\d+)', b' '.join(r['untagged']))
                vals[key] = int(mm.group(1)) if mm else None
            if (vals[b'UIDVALIDITY'], vals[b'MESSAGES']) != after[op[1]][:2]:
                errors.append(f'{where}: this connection is told UIDVALIDITY {vals[b"UIDVALIDITY"]} MESSAGES {vals[b"MESSAGES"]}, another '
                              f'connection of the same user {after[op[1]][:2]}')
        if got != b'OK' and after != before:
            errors.append(f'{where}: answered {got.decode()} but the mailboxes changed')
        if k == 'rename' and got == b'OK':
            # a mailbox that exists before and after under the same name, and is neither the source hierarchy nor INBOX, is
            # the SAME mailbox: a RENAME never replaces an existing mailbox by another one (UIDVALIDITY, messages, UIDNEXT)
            a_, b_ = op[1], op[2]
            for n in before:
                if n in after and n != 'INBOX' and not (n == a_ or n.startswith(a_ + DELIM)) and after[n] != before[n]:
                    errors.append(f'{where}: the existing mailbox {n!r} was replaced by another one: {before[n]} -> {after[n]} '
                                  f'(its messages and UIDVALIDITY are gone)')
        if got == b'OK' and want == b'OK':
            if set(after) - {'INBOX'} != model.names:
                errors.append(f'{where}: mailboxes are {sorted(after)}, model has {sorted(model.names)}')
            if k == 'rename':
                a, b = op[1], op[2]
                for n in list(before):
                    if n == a or n.startswith(a + DELIM):
                        tn = b + n[len(a):]
                        if is_inbox(n):
                            if after.get(tn) != before[n] or after['INBOX'][1] != 0:
                                errors.append(f'{where}: INBOX contents did not move to {tn} leaving INBOX empty: {after.get(tn)} / {after["INBOX"]}')
                        elif after.get(tn) != before[n]:
                            errors.append(f'{where}: {n} -> {tn} lost its messages / UIDVALIDITY / UIDNEXT: {before[n]} -> {after.get(tn)}')
        if [e for e in errors if not isinstance(e, tuple)]:
            break
        if deep_lists:
            await check_lists(c, model, errors, where)
            if errors:
                break
    if not [e for e in errors if not isinstance(e, tuple)]:
        await check_lists(c, model, errors, 'final')
    await w.close()
    if hasattr(w, 'cleanup'):
        w.cleanup()
    if c.exception() is not None:
        errors.append(f'connection died: {c.exception()!r}')
    return errors, (backend,) + tuple(sig)


def _worker(args):
    prog, deep = args[0], args[1]
    backend = args[2] if len(args) > 2 else 'dict'
    try:
        errs, sig = run(scenario(prog, deep, backend))
    except Exception as exc:    # noqa
        import traceback
        return args, [f'harness exception {exc!r} {traceback.format_exc()[-500:]}'], ()
    return args, errs, sig


def bounded_names(label, backend='dict'):
    from pyvc.prop import BoundedResult

    def fn(tier, seed):
        import random
        res = BoundedResult()
        res.exhaustive = False
        o = ops(tier)
        items = [((x,), True) for x in o]
        # renames of a mailbox with inferiors, incl. inferior paths that repeat the old name and sibling prefixes
        for tree in (['a', 'a/a', 'a/ab', 'ab'], ['a', 'a/b', 'a/b/a', 'a/b/c'], ['a/b', 'a/b/c', 'a/bc'],
                     ['Sent/Sent', 'Sent/x'], ['a', 'a/é', 'a/a*b'], ['z/kid', 'a', 'a/kid'], ['B/b/c', 'a/b', 'a/b/c']):
            for ren in (('a', 'z'), ('a/b', 'a/z'), ('a', 'B/a'), ('Sent', 'S2'), ('INBOX', 'old'), ('a/b', 'b')):
                items.append((tuple(('create', n) for n in tree) + (('rename',) + ren,), True))
        # the life cycle of a subscription: only SUBSCRIBE / UNSUBSCRIBE change the subscribed set (RFC 3501 6.3.6: the
        # server does not drop a subscription by itself), whatever happens to the mailbox of that name meanwhile
        for n in ('a', 'a/b', 'B', 'a*b', 'é', 'Sent'):
            pre = (('create', 'a'),) if n == 'a/b' else ()
            items.append((pre + (('create', n), ('subscribe', n), ('delete', n), ('create', n)), True))
            items.append((pre + (('subscribe', n), ('create', n), ('delete', n), ('create', n), ('unsubscribe', n)), True))
            items.append((pre + (('create', n), ('subscribe', n), ('rename', n, 'z'), ('rename', 'z', n)), True))
            items.append((pre + (('create', n), ('subscribe', n), ('rename', n, 'z'), ('create', n)), True))
            items.append((pre + (('create', n), ('subscribe', n), ('append', n), ('status', n), ('unsubscribe', n),
                                 ('subscribe', n)), True))
        # the life cycle of a name on one connection: what the connection learnt about an earlier mailbox of that name
        # (STATUS, APPEND) says nothing about the name once that mailbox was deleted or renamed away
        for n in ('a', 'B', 'é', 'a/b'):
            pre = (('create', 'a'),) if n == 'a/b' else ()
            items.append((pre + (('create', n), ('status', n), ('delete', n), ('status', n), ('append', n)), False))
            items.append((pre + (('create', n), ('append', n), ('status', n), ('rename', n, 'z'), ('status', n), ('append', n),
                                 ('create', n), ('status', n), ('status', 'z')), False))
            items.append((pre + (('create', n), ('append', n), ('delete', n), ('create', n), ('status', n), ('append', n),
                                 ('status', n)), False))
        rnd = random.Random(seed)
        creates = [x for x in o if x[0] == 'create']
        for _ in range(700 if tier == 'quick' else 8000):
            n = rnd.choice((2, 3, 4))
            prog = tuple([rnd.choice(creates) for _ in range(rnd.choice((1, 2, 3)))] + [rnd.choice(o) for _ in range(n)])
            items.append((prog, rnd.random() < 0.2))
        if backend != 'dict':
            items = [(p, d, backend) for p, d in items[: (250 if tier == 'quick' else 2500)]]
        with mp.get_context('fork').Pool(16) as pool:
            for args, errs, sig in pool.imap_unordered(_worker, items, chunksize=8):
                res.evaluations += 1
                res.distinct.add(sig)
                if errs and isinstance(errs[0], tuple):
                    res.fail(f'{label}/{errs[0][0]}', dict(backend=backend, program=[list(x) for x in args[0]]), [errs[0][1]])
                    errs = [e for e in errs if not isinstance(e, tuple)]
                if errs:
                    lab = 'list_returns_exactly_the_matching_names' if ('LIST' in errs[0] or 'LSUB' in errs[0]) \
                        else 'namespace_commands_follow_the_model'
                    res.fail(f'{label}/{lab}', dict(backend=backend, program=[list(x) for x in args[0]]), errs[:3])
                elif len(res.samples) < 2:
                    res.samples.append(dict(program=[list(x) for x in args[0]], result='agrees'))
        return res
    return fn
