"""Bounded stand-in (fault enumeration) for C15: maildir state survives restart and crashes without UID damage.

One run of a short command history against the real MaildirBackend (real directories, the backend's own thread pool)
with every filesystem mutation traced: os.rename / replace / remove / unlink / mkdir / rmdir / utime / link, os.open with
O_CREAT and open() for writing, restricted to the store.  BEFORE each such call (and again right after a file has been
created) the whole store is copied: that copy is exactly what a process killed at that point leaves behind (data still in
user-space buffers is not in it, as after a kill).  Every copy is then "restarted": a new backend + server on it, which
must serve -- without any NO / BAD / BYE / exception -- every message whose APPEND / COPY / MOVE had been acknowledged
before that point, with the same content (modulo the line-ending rewrite of the maildir backend, see DESIGN.md), the
acknowledged flags, and the same UID when UIDVALIDITY is unchanged; no UID may now belong to a different message than the
one it was acknowledged for; a new APPEND gets a UID above every UID ever acknowledged; acknowledged mailbox creations
and subscriptions are there.  The command in flight at the crash point may or may not have happened.

Configurations: layouts ++ and fs; store on the filesystem of the system temporary directory and on another filesystem
(/dev/shm) when there is one."""
from __future__ import annotations

import builtins
import multiprocessing as mp
import os
import re
import shutil
import tempfile
import threading

from .imapdrv import MaildirWorld, run

_ORIG = {}
_state = threading.local()


class Tracer:
    """copies the store before every mutating filesystem call inside it"""

    NAMES = ('rename', 'replace', 'remove', 'unlink', 'mkdir', 'rmdir', 'utime', 'link')

    def __init__(self, base, snapdir):
        self.base = os.path.realpath(base)
        self.snapdir = snapdir
        self.k = 0
        self.points = []            # (k, op, relative path, acks so far)
        self.acks = 0
        self.lock = threading.Lock()
        self.enabled = False

    def inside(self, path):
        try:
            p = os.path.realpath(os.fspath(path)) if not isinstance(path, int) else None
        except Exception:   # noqa
            return False
        return p is not None and (p == self.base or p.startswith(self.base + os.sep))

    def point(self, op, path, phase='before'):
        if not self.enabled or getattr(_state, 'busy', False) or not self.inside(path):
            return
        with self.lock:
            _state.busy = True
            try:
                self.k += 1
                dst = os.path.join(self.snapdir, str(self.k))
                shutil.copytree(self.base, dst, symlinks=True)
                rel = os.path.relpath(os.path.realpath(os.fspath(path)), self.base)
                self.points.append((self.k, f'{op}:{phase}', rel, self.acks))
            finally:
                _state.busy = False

    def install(self):
        tr = self
        for name in self.NAMES:
            orig = getattr(os, name)
            _ORIG[name] = orig

            def make(name, orig):
                def wrapper(*a, **kw):
                    tr.point(name, a[0] if a else kw.get('src', kw.get('path')))
                    r = orig(*a, **kw)
                    if name in ('rename', 'replace', 'link'):
                        # once more right after a file has been put in place: what it contains NOW (not what a later
                        # flush adds) is what a kill leaves behind
                        tr.point(name, a[1] if len(a) > 1 else kw.get('dst'), 'after')
                    return r
                return wrapper
            setattr(os, name, make(name, orig))
        _ORIG['os.open'] = os.open
        _ORIG['open'] = builtins.open

        def os_open(path, flags, *a, **kw):
            creating = bool(flags & (os.O_CREAT | os.O_TRUNC | os.O_WRONLY | os.O_RDWR))
            if creating:
                tr.point('os.open', path)
            fd = _ORIG['os.open'](path, flags, *a, **kw)
            if creating and flags & os.O_CREAT:
                tr.point('os.open', path, 'after')
            return fd

        def b_open(file, mode='r', *a, **kw):
            writing = isinstance(file, (str, bytes, os.PathLike)) and any(c in mode for c in 'wxa+')
            if writing:
                tr.point('open', file)
            f = _ORIG['open'](file, mode, *a, **kw)
            if writing and any(c in mode for c in 'wx'):
                tr.point('open', file, 'after')
            return f
        os.open = os_open
        builtins.open = b_open
        import io
        _ORIG['io.open'] = io.open
        io.open = b_open

    def remove(self):
        for name in self.NAMES:
            setattr(os, name, _ORIG[name])
        os.open = _ORIG['os.open']
        builtins.open = _ORIG['open']
        import io
        io.open = _ORIG['io.open']


def norm(b: bytes) -> bytes:
    return b.replace(b'\r\n', b'\n')


MSGS = [b'Subject: m%d\r\nX-Id: %d\r\n\r\nbody of message %d\r\n' % (i, i, i) for i in range(8)]

# a history is a list of commands; placeholders: ('append', box, flags, i) ('select', box) ('store', uid, op, flags)
# ('copy', uid, dest) ('move', uid, dest) ('expunge',) ('create', box) ('rename', a, b) ('subscribe', box) ('check',)
# ('status', box) ('close',)
HISTORIES = [
    [('append', 'INBOX', b'', 0), ('append', 'INBOX', b'\\Seen', 1), ('select', 'INBOX'), ('store', 1, b'+FLAGS', b'\\Flagged'), ('check',)],
    [('create', 'Box'), ('subscribe', 'Box'), ('append', 'Box', b'\\Flagged kw', 0), ('status', 'Box')],
    [('append', 'INBOX', b'', 0), ('create', 'Dest'), ('select', 'INBOX'), ('copy', 1, 'Dest'), ('status', 'Dest'), ('append', 'Dest', b'', 1)],
    [('append', 'INBOX', b'\\Seen', 0), ('append', 'INBOX', b'', 1), ('create', 'Dest'), ('select', 'INBOX'), ('move', 1, 'Dest'), ('append', 'INBOX', b'', 2)],
    [('append', 'INBOX', b'', 0), ('append', 'INBOX', b'', 1), ('select', 'INBOX'), ('store', 1, b'+FLAGS', b'\\Deleted'), ('expunge',), ('append', 'INBOX', b'', 2)],
    [('create', 'A'), ('append', 'A', b'\\Answered', 0), ('rename', 'A', 'B'), ('status', 'B'), ('append', 'B', b'', 1), ('subscribe', 'B')],
    [('append', 'INBOX', b'', 0), ('select', 'INBOX'), ('store', 1, b'FLAGS', b'\\Seen \\Draft kw'), ('store', 1, b'-FLAGS', b'\\Seen'), ('close',), ('append', 'INBOX', b'', 1)],
    [('create', 'P'), ('create', 'P/Q'), ('append', 'P/Q', b'', 0), ('subscribe', 'P/Q'), ('select', 'P/Q'), ('copy', 1, 'INBOX'), ('move', 1, 'P')],
]
HISTORIES.append([('append', 'INBOX', b'', 0), ('append', 'INBOX', b'\\Seen', 1), ('select', 'INBOX'), ('move', 1, 'INBOX'), ('copy', 2, 'INBOX'), ('status', 'INBOX')])
# names that share a string prefix without being hierarchy relatives: what is done to one is not done to the other
HISTORIES.append([('create', 'Work'), ('create', 'Workshop'), ('append', 'Workshop', b'\\Seen', 0), ('subscribe', 'Workshop'), ('rename', 'Work', 'Job'),
                  ('status', 'Job'), ('status', 'Workshop'), ('append', 'Workshop', b'', 1)])
THOROUGH_EXTRA = [
    [('append', 'INBOX', b'', i) for i in range(4)] + [('select', 'INBOX'), ('store', 2, b'+FLAGS', b'\\Deleted'), ('expunge',), ('copy', 1, 'INBOX'), ('move', 3, 'INBOX')],
    [('create', 'X'), ('append', 'X', b'', 0), ('rename', 'X', 'Y'), ('create', 'X'), ('append', 'X', b'', 1), ('status', 'X'), ('status', 'Y')],
    [('append', 'INBOX', b'\\Deleted', 0), ('append', 'INBOX', b'', 1), ('select', 'INBOX'), ('expunge',), ('check',), ('append', 'INBOX', b'', 2), ('store', 2, b'+FLAGS', b'\\Seen')],
]


class Model:
    def __init__(self):
        self.boxes = {'INBOX': dict(v=None, msgs={}, ever={})}
        self.subscribed = set()
        self.selected = None

    def copy(self):
        import copy as _c
        return _c.deepcopy(self)


def wire(cmd):
    k = cmd[0]
    if k == 'append':
        m = MSGS[cmd[3]]
        return b'APPEND "%s" (%s) {%d+}\r\n' % (cmd[1].encode(), cmd[2], len(m)) + m
    if k == 'select':
        return b'SELECT "%s"' % cmd[1].encode()
    if k == 'store':
        return b'UID STORE %d %s (%s)' % (cmd[1], cmd[2], cmd[3])
    if k == 'copy':
        return b'UID COPY %d "%s"' % (cmd[1], cmd[2].encode())
    if k == 'move':
        return b'UID MOVE %d "%s"' % (cmd[1], cmd[2].encode())
    if k == 'expunge':
        return b'EXPUNGE'
    if k == 'create':
        return b'CREATE "%s"' % cmd[1].encode()
    if k == 'rename':
        return b'RENAME "%s" "%s"' % (cmd[1].encode(), cmd[2].encode())
    if k == 'subscribe':
        return b'SUBSCRIBE "%s"' % cmd[1].encode()
    if k == 'check':
        return b'CHECK'
    if k == 'close':
        return b'CLOSE'
    if k == 'status':
        return b'STATUS "%s" (UIDVALIDITY UIDNEXT MESSAGES)' % cmd[1].encode()
    raise ValueError(k)


def flags_of(b: bytes):
    # system flags only: the maildir backend offers no keywords (PERMANENTFLAGS lists none), \\Recent is per session
    return frozenset(x for x in b.split() if x.startswith(b'\\') and x.lower() != b'\\recent')


def apply_ack(model: Model, cmd, r):
    """update the model with an acknowledged (tagged OK) command"""
    k = cmd[0]
    tagged = r['tagged']
    if k == 'append':
        m = re.search(rb'APPENDUID (\d+) (\d+)', tagged)
        box = model.boxes[cmd[1]]
        if m:
            v, u = int(m.group(1)), int(m.group(2))
            box['v'] = v
            box['msgs'][u] = (MSGS[cmd[3]], flags_of(cmd[2]))
            box['ever'][(v, u)] = MSGS[cmd[3]]
    elif k == 'select':
        model.selected = cmd[1]
        for u in r['untagged']:
            m = re.search(rb'UIDVALIDITY (\d+)', u)
            if m:
                model.boxes[cmd[1]]['v'] = int(m.group(1))
    elif k == 'close':
        model.selected = None
    elif k == 'status':
        for u in r['untagged']:
            m = re.search(rb'UIDVALIDITY (\d+)', u)
            if m:
                box = model.boxes[cmd[1]]
                if box['v'] != int(m.group(1)):
                    box['v'] = int(m.group(1))
    elif k == 'store':
        box = model.boxes[model.selected]
        if cmd[1] in box['msgs']:
            c, f = box['msgs'][cmd[1]]
            new = flags_of(cmd[3])
            f = (f | new) if cmd[2].startswith(b'+') else (f - new) if cmd[2].startswith(b'-') else new
            box['msgs'][cmd[1]] = (c, f)
    elif k in ('copy', 'move'):
        m = re.search(rb'COPYUID (\d+) (\d+) (\d+)', b''.join(r['all']))      # MOVE reports it in an untagged OK
        src = model.boxes[model.selected]
        if m and cmd[1] in src['msgs']:
            v, du = int(m.group(1)), int(m.group(3))
            dst = model.boxes[cmd[2]]
            dst['v'] = v
            c, f = src['msgs'][cmd[1]]
            dst['msgs'][du] = (c, f)
            dst['ever'][(v, du)] = c
            if k == 'move':
                del src['msgs'][cmd[1]]
    elif k == 'expunge':
        box = model.boxes[model.selected]
        for u in [u for u, (c, f) in box['msgs'].items() if b'\\Deleted' in f]:
            del box['msgs'][u]
    elif k == 'create':
        model.boxes.setdefault(cmd[1], dict(v=None, msgs={}, ever={}))
    elif k == 'rename':
        old = model.boxes.pop(cmd[1])
        model.boxes[cmd[2]] = dict(v=None, msgs=old['msgs'], ever={})      # UIDVALIDITY may change: learnt by STATUS
        if cmd[1] == 'INBOX':
            model.boxes['INBOX'] = dict(v=None, msgs={}, ever={})
    elif k == 'subscribe':
        model.subscribed.add(cmd[1])


async def record(history, layout, fsroot):
    """run the history once with tracing; returns (points, models per ack count, snapdir, in-flight command per point)"""
    base = tempfile.mkdtemp(prefix='pymap-c15-', dir=fsroot)
    snapdir = tempfile.mkdtemp(prefix='pymap-c15-snaps-', dir=fsroot)
    w = await MaildirWorld(layout=layout, base=base).start(users=(('alice', 'apass'),))
    c = await w.client('c', user=b'alice', pw=b'apass')
    # make sure INBOX exists on disk before tracing starts
    await c.cmd(b'STATUS INBOX (MESSAGES)')
    tr = Tracer(os.path.join(base), snapdir)
    tr.install()
    model = Model()
    models = {0: model.copy()}
    errors = []
    sent = []
    try:
        tr.enabled = True
        for cmd in history:
            r = await c.cmd(wire(cmd))
            sent.append(cmd)
            if r['tagged'] is None or r['tagged'].split()[1] != b'OK':
                errors.append(f'history command {cmd!r} was answered {r["tagged"]!r} ({c.exception()!r}) on a healthy store')
                break
            apply_ack(model, cmd, r)
            tr.acks += 1
            models[tr.acks] = model.copy()
        tr.enabled = False
    finally:
        tr.remove()
    await w.close()
    return tr.points, models, base, snapdir, errors


async def restart_check(snap, layout, model: Model, inflight, where):
    """new backend on the crashed store; returns list of errors"""
    errors = []
    # a lock file left behind by the killed process blocks its mailbox until FileLock's expiration (600 s) has passed,
    # then it is removed by the next locker: the restart checked here happens after that period (commands issued
    # earlier are answered NO [TIMEOUT]; the statement sets no time bound)
    import time
    old = time.time() - 3600
    for root, dirs, files in os.walk(snap):
        for f in files:
            if f.endswith('.lock'):
                os.utime(os.path.join(root, f), (old, old))
    try:
        w = await MaildirWorld(layout=layout, base=snap).start(users=(('alice', 'apass'),))
    except Exception as exc:    # noqa
        return [f'{where}: the backend does not start on the crashed store: {exc!r}']
    try:
        c = await w.client('r', user=b'alice', pw=b'apass')

        async def ok(line, may_refuse=False):
            r = await c.cmd(line)
            if may_refuse and r['tagged'] is not None and r['tagged'].split()[1] == b'NO' and c.exception() is None:
                return None         # a mailbox whose creation / rename was never acknowledged may be refused cleanly
            if r['tagged'] is None or r['tagged'].split()[1] != b'OK':
                exc = c.exception()
                errors.append(f'{where}: after the restart {line[:50]!r} is answered {r["tagged"]!r}'
                              + (f' ({exc!r:.160})' if exc else '') + ' -- a control file or mailbox is not readable any more')
                return None
            return r
        r = await ok(b'LIST "" *')
        if r is None:
            return errors
        names = set()
        for u in r['untagged']:
            m = re.match(rb'^\* LIST \([^)]*\) (?:"."|NIL) "?([^"\r]*)"?\r\n$', u)
            if m:
                names.add(m.group(1).decode())
        r = await ok(b'LSUB "" *')
        subs = set()
        if r:
            for u in r['untagged']:
                m = re.match(rb'^\* LSUB \([^)]*\) (?:"."|NIL) "?([^"\r]*)"?\r\n$', u)
                if m:
                    subs.add(m.group(1).decode())
        k = inflight[0] if inflight else None
        # served state of every mailbox
        served = {}
        for name in sorted(names):
            unacked = name not in model.boxes
            r = await ok(b'STATUS "%s" (UIDVALIDITY UIDNEXT)' % name.encode(), may_refuse=unacked)
            if r is None:
                continue
            m = re.search(rb'UIDVALIDITY (\d+)', b''.join(r['untagged']))
            v = int(m.group(1)) if m else None
            m = re.search(rb'UIDNEXT (\d+)', b''.join(r['untagged']))
            uidnext = int(m.group(1)) if m else None
            if await ok(b'EXAMINE "%s"' % name.encode()) is None:
                continue
            r = await ok(b'UID FETCH 1:* (UID FLAGS BODY.PEEK[])')
            if r is None:
                continue
            msgs = {}
            for u in r['untagged']:
                mu = re.search(rb'UID (\d+)', u)
                mf = re.search(rb'FLAGS \(([^)]*)\)', u)
                mb = re.search(rb'BODY\[\] \{(\d+)\}\r\n', u)
                if mu and mf and mb:
                    n = int(mb.group(1))
                    msgs[int(mu.group(1))] = (u[mb.end():mb.end() + n], flags_of(mf.group(1)))
            served[name] = dict(v=v, msgs=msgs, uidnext=uidnext)
            await ok(b'CLOSE')
        # acknowledged state must be there
        for name, box in model.boxes.items():
            alt = [name]
            if k == 'rename' and inflight[1] == name:
                alt.append(inflight[2])         # the rename in flight may have happened
            here = [served[n] for n in alt if n in served]
            if not here:
                if name == 'INBOX' or box['msgs'] or True:
                    errors.append(f'{where}: mailbox {name!r} (acknowledged) is not listed after the restart (listed: {sorted(names)})')
                continue
            for u, (content, flags) in box['msgs'].items():
                places = list(here)
                if k == 'move' and model.selected == name and inflight[1] == u and inflight[2] in served:
                    places.append(served[inflight[2]])      # a move in flight: source or destination
                if k == 'expunge' and model.selected == name and b'\\Deleted' in flags:
                    continue                                 # an expunge in flight may have removed it
                found = [(s, su) for s in places for su, (sc, sf) in s['msgs'].items() if norm(sc) == norm(content)]
                if not found:
                    errors.append(f'{where}: message uid {u} of {name!r} ({content[:24]!r}), acknowledged before the crash point, is not '
                                  f'served after the restart (served there: {[sorted(s["msgs"]) for s in places]})')
                    continue
                s, su = found[0]
                sf = s['msgs'][su][1]
                inflight_store = (k == 'store' and model.selected == name and inflight[1] == u)
                if sf != flags and not inflight_store:
                    errors.append(f'{where}: message uid {u} of {name!r} has flags {sorted(sf)} after the restart, acknowledged: {sorted(flags)}')
                inflight_move = (k == 'move' and model.selected == name and inflight[1] == u)     # it may already carry its new uid
                if box['v'] is not None and s['v'] == box['v'] and s is here[0] and su != u and not inflight_move and not any(
                        x == u and norm(s['msgs'][x][0]) == norm(content) for x in s['msgs']):
                    errors.append(f'{where}: message {content[:24]!r} of {name!r} was acknowledged as uid {u}; with unchanged UIDVALIDITY '
                                  f'{box["v"]} it is uid {su} after the restart')
            # no uid now denotes a different message than the one it was acknowledged for
            for s in here[:1]:
                for su, (sc, sf) in s['msgs'].items():
                    was = box['ever'].get((s['v'], su))
                    if was is not None and norm(was) != norm(sc):
                        errors.append(f'{where}: uid {su} of {name!r} (UIDVALIDITY {s["v"]}) was acknowledged for {was[:24]!r} and now '
                                      f'denotes {sc[:24]!r}')
        for name in model.subscribed:
            if name not in subs and not (k == 'rename' and inflight[1] == name):
                errors.append(f'{where}: the acknowledged subscription of {name!r} is gone after the restart (LSUB: {sorted(subs)})')
        # a new message gets a uid above everything ever acknowledged
        for name, box in model.boxes.items():
            if name not in served or served[name]['v'] is None:
                continue
            r = await ok(b'APPEND "%s" {%d+}\r\n' % (name.encode(), len(MSGS[7])) + MSGS[7])
            if r is None:
                continue
            m = re.search(rb'APPENDUID (\d+) (\d+)', r['tagged'])
            if m:
                v, u = int(m.group(1)), int(m.group(2))
                top = max([uu for (vv, uu) in box['ever'] if vv == v] + [0])
                if u <= top:
                    errors.append(f'{where}: after the restart a new message in {name!r} gets uid {u} although uid {top} had been '
                                  f'acknowledged under the same UIDVALIDITY {v}')
        # the recovered store stays consistent when it is used: what was served is still served under the same uid
        for name, sv in served.items():
            if not sv['msgs']:
                continue
            if await ok(b'EXAMINE "%s"' % name.encode(), may_refuse=name not in model.boxes) is None:
                continue
            r = await ok(b'UID FETCH 1:* (UID BODY.PEEK[])')
            if r is None:
                continue
            now = {}
            for u in r['untagged']:
                mu = re.search(rb'UID (\d+)', u)
                mb = re.search(rb'BODY\[\] \{(\d+)\}\r\n', u)
                if mu and mb:
                    now.setdefault(int(mu.group(1)), []).append(u[mb.end():mb.end() + int(mb.group(1))])
            for su, (sc, sf) in sv['msgs'].items():
                if su not in now or not any(norm(x) == norm(sc) for x in now[su]):
                    errors.append(f'{where}: after one more APPEND uid {su} of {name!r} no longer denotes {sc[:24]!r} (now: '
                                  f'{[x[:24] for x in now.get(su, [])]}): the recovery handed the same uid out twice')
            await ok(b'CLOSE')
        # ... and when its messages are moved around: every message of every other mailbox is moved into INBOX, then all of
        # INBOX into the first other mailbox.  Each time the target must hold each message exactly once, the ones it held
        # under their old uids, the arrivals under uids above everything it ever held (a record left behind by a MOVE that
        # the kill interrupted must not come back to life when the file returns)
        if not errors:
            async def contents(name):
                if await ok(b'EXAMINE "%s"' % name.encode(), may_refuse=True) is None:
                    return None
                r = await ok(b'UID FETCH 1:* (UID BODY.PEEK[])')
                out = {}
                for u in (r['untagged'] if r else ()):
                    mu = re.search(rb'UID (\d+)', u)
                    mb = re.search(rb'BODY\[\] \{(\d+)\}\r\n', u)
                    if mu and mb:
                        out[int(mu.group(1))] = norm(u[mb.end():mb.end() + int(mb.group(1))])
                await ok(b'CLOSE')
                return out

            async def move_all(src, dst):
                before_src, before_dst = await contents(src), await contents(dst)
                if not before_src or before_dst is None:
                    return
                if await ok(b'SELECT "%s"' % src.encode(), may_refuse=True) is None:
                    return
                r = await ok(b'MOVE 1:* "%s"' % dst.encode(), may_refuse=True)
                await ok(b'CLOSE')
                if r is None:
                    return
                after = await contents(dst)
                if after is None:
                    return
                want = sorted(list(before_dst.values()) + list(before_src.values()))
                if sorted(after.values()) != want:
                    errors.append(f'{where}: after the restart, MOVE 1:* from {src!r} to {dst!r}: {dst!r} holds '
                                  f'{sorted((u, c[:12]) for u, c in after.items())}, expected its {len(before_dst)} messages plus the '
                                  f'{len(before_src)} moved in, each once (a stale UID record came back to life)')
                    return
                for u, c in before_dst.items():
                    if after.get(u) != c:
                        errors.append(f'{where}: after the restart, MOVE into {dst!r} changed what uid {u} denotes')
                        return
                new = [u for u in after if u not in before_dst]
                if new and before_dst and min(new) <= max(before_dst):
                    errors.append(f'{where}: after the restart, messages moved into {dst!r} got uids {sorted(new)} not above its '
                                  f'uids {sorted(before_dst)}')
            others = sorted(n for n in served if n != 'INBOX' and served[n]['v'] is not None)
            if 'INBOX' in served:
                for n in others:
                    await move_all(n, 'INBOX')
                if others:
                    await move_all('INBOX', others[0])
    finally:
        await w.close()
    return errors


def run_history(args):
    """worker: record one history, check every crash point; returns (args, n points, errors, ops)"""
    hid, history, layout, fsroot = args
    try:
        points, models, base, snapdir, errors = run(record(history, layout, fsroot))
    except Exception as exc:    # noqa
        import traceback
        return args, 0, [f'harness exception while recording: {exc!r} {traceback.format_exc()[-500:]}'], []
    out = list(errors)
    ops = []
    try:
        for (k, op, rel, acks) in points:
            snap = os.path.join(snapdir, str(k))
            inflight = history[acks] if acks < len(history) else None
            where = f'history {hid} layout {layout} store on {fsroot}: killed at filesystem operation {k} ({op} {rel}) during {inflight!r} ' \
                    f'after {acks} acknowledged commands'
            try:
                errs = run(restart_check(snap, layout, models[acks], inflight, where))
            except Exception as exc:    # noqa
                import traceback
                errs = [f'{where}: harness exception {exc!r} {traceback.format_exc()[-400:]}']
            ops.append((op, rel))
            out += errs[:2]
        # and the clean stop (no crash): everything acknowledged
        where = f'history {hid} layout {layout} store on {fsroot}: clean stop after all {len(history)} commands'
        out += run(restart_check(base, layout, models[max(models)], None, where))[:2]
    finally:
        shutil.rmtree(snapdir, ignore_errors=True)
        shutil.rmtree(base, ignore_errors=True)
    return args, len(points), out, ops


def bounded_crash(label):
    from pyvc.prop import BoundedResult

    def fn(tier, seed):
        res = BoundedResult()
        roots = [tempfile.gettempdir()]
        other = '/dev/shm'
        if os.path.isdir(other) and os.access(other, os.W_OK) and os.stat(other).st_dev != os.stat(roots[0]).st_dev:
            roots.append(other)
        else:
            res.note = 'no second filesystem available: the "store on a different filesystem than the temporary directory" configuration was not run'
        hs = HISTORIES + (THOROUGH_EXTRA if tier != 'quick' else [])
        items = []
        for hid, h in enumerate(hs):
            for layout in ('++', 'fs'):
                for root in roots:
                    if tier == 'quick' and root != roots[0] and hid % 2:
                        continue
                    items.append((hid, h, layout, root))
        total_points = 0
        with mp.get_context('fork').Pool(16) as pool:
            for args, n, errs, ops in pool.imap_unordered(run_history, items):
                total_points += n
                res.evaluations += n + 1
                for op in ops:
                    res.distinct.add((args[0], args[2], op))
                for e in errs:
                    kind = ('control_files_stay_readable' if 'not readable' in e or 'does not start' in e or 'healthy store' in e else
                            'no_uid_is_reassigned' if 'now denotes' in e or 'gets uid' in e or 'it is uid' in e or 'no longer denotes' in e else
                            'acknowledged_subscriptions_and_mailboxes_persist' if 'subscription' in e or 'not listed' in e else
                            'acknowledged_messages_survive')
                    res.fail(f'{label}/{kind}', dict(history=[repr(c) for c in args[1]], layout=args[2], store=args[3]), [e])
                if not errs and len(res.samples) < 2:
                    res.samples.append(dict(history=[repr(c) for c in args[1]], layout=args[2], store=args[3], crash_points=n,
                                            result='every crash point restarts with all acknowledged effects'))
        res.exhaustive = True
        res.note = (res.note + '; ' if res.note else '') + f'{total_points} crash points (every traced filesystem operation of every history) restarted'
        return res
    return fn
