"""Bounded stand-in for the reporting clauses of C04 on the REAL server (dict and maildir): programs of APPEND / COPY /
MOVE / EXPUNGE (UID and sequence-number forms, every sequence-set shape incl. non-ascending, overlapping and `*`) issued
by two sessions of one user on two mailboxes.  An independent observer connection dumps every mailbox (UID -> content
token) before and after every command; the oracle checks, from the statement of C04 only:

  new_uids_exceed_every_earlier_uid   a UID that appears exceeds every UID ever seen in that mailbox (also expunged ones)
  a_uid_never_denotes_two_messages    the content behind (mailbox, UIDVALIDITY, UID) never changes
  an_expunged_uid_never_comes_back    a UID that was seen and then seen missing does not exist again later
  uidnext_is_truthful                 STATUS UIDNEXT > every existing UID, and <= the next UID actually assigned
  appenduid_is_what_uid_fetch_finds   [APPENDUID v u]: v is the mailbox's UIDVALIDITY, UID FETCH u finds the appended message
  copyuid_pairs_source_to_destination [COPYUID v S D]: S and D expand to equally many UIDs; for the i-th pair the
                                      destination message is the copy of the source message; all D are new
"""
from __future__ import annotations

import hashlib
import multiprocessing as mp
import random
import re

from .imapdrv import World, run
from .e2e_bytes import literal_payload

BOXES = [b'Box', b'Other']
SEQ_SHAPES = ['1', '2', '2:3', '3,1', '2:3,2', '*', '3:1', '1:*', '4,2,3', '2,1,2', '*:1', '3,2:3,1']


def expand(spec: bytes):
    out = []
    for part in spec.split(b','):
        if b':' in part:
            a, b = (int(x) for x in part.split(b':'))
            out += list(range(a, b + 1)) if a <= b else list(range(a, b - 1, -1))
        else:
            out.append(int(part))
    return out


def token_of(body):
    if body is None or body == b'<<missing>>':
        return None
    m = re.search(rb'X-Token: (\w+)', body)
    return m.group(1).decode() if m else 'sha:' + hashlib.sha1(body).hexdigest()[:12]


async def dump(o, errors, where):
    """{box: dict(validity, uidnext, msgs={uid: token})} through the protocol (EXAMINE: changes nothing)"""
    out = {}
    for box in BOXES:
        r = await o.cmd(b'STATUS ' + box + b' (UIDNEXT UIDVALIDITY MESSAGES)')
        st = b' '.join(r['untagged'])
        vals = {k: int(m.group(1)) for k in (b'UIDNEXT', b'UIDVALIDITY', b'MESSAGES')
                for m in [re.search(k + rb' (\d+)', st)] if m}
        r = await o.cmd(b'EXAMINE ' + box)
        if not r['answered'] or b' OK' not in r['tagged']:
            errors.append(f'{where}: observer EXAMINE {box!r} answered {r["tagged"]!r}')
            continue
        r = await o.cmd(b'UID FETCH 1:* (UID BODY.PEEK[])')
        msgs = {}
        for u in r['untagged']:
            if b' FETCH ' not in u[:24]:
                continue
            m = re.search(rb'UID (\d+)', u)
            if m:
                msgs[int(m.group(1))] = token_of(literal_payload(u, b'BODY[]'))
        await o.cmd(b'UNSELECT')
        out[box] = dict(validity=vals.get(b'UIDVALIDITY'), uidnext=vals.get(b'UIDNEXT'), msgs=msgs)
    return out


class Oracle:
    def __init__(self):
        self.high = {}      # (box, validity) -> highest uid ever seen
        self.ever = {}      # (box, validity, uid) -> token
        self.reported_next = {}   # (box, validity) -> last UIDNEXT reported and not yet consumed
        self.gone = set()         # (box, validity, uid) that were seen and then seen missing

    def observe(self, d, errors, where, fail):
        for box, info in d.items():
            key = (box, info['validity'])
            old_high = self.high.get(key, 0)
            for k in [k for k in self.ever if k[:2] == key and k[2] not in info['msgs']]:
                self.gone.add(k)
            for uid, tok in sorted(info['msgs'].items()):
                k = key + (uid,)
                if k in self.gone:
                    fail('an_expunged_uid_never_comes_back',
                         f'{where}: {box!r} UID {uid} had disappeared (expunged / moved away) and exists again')
                if k in self.ever:
                    if self.ever[k] != tok:
                        fail('a_uid_never_denotes_two_messages',
                             f'{where}: {box!r} UID {uid} was {self.ever[k]} and is now {tok}')
                else:
                    if uid <= old_high:
                        fail('new_uids_exceed_every_earlier_uid',
                             f'{where}: {box!r} got a new message with UID {uid}, but UID {old_high} had already been assigned')
                    rn = self.reported_next.get(key)
                    if rn is not None and uid < rn:
                        fail('uidnext_is_truthful',
                             f'{where}: {box!r} reported UIDNEXT {rn} and then assigned UID {uid}')
                    self.ever[k] = tok
                self.high[key] = max(self.high.get(key, 0), uid)
            if info['uidnext'] is not None:
                if info['msgs'] and info['uidnext'] <= max(info['msgs']):
                    fail('uidnext_is_truthful', f'{where}: {box!r} reports UIDNEXT {info["uidnext"]} with UID {max(info["msgs"])} present')
                self.reported_next[key] = info['uidnext']


async def scenario(prog, backend):
    errors = []

    def fail(label, text):
        errors.append((label, text))
    if backend == 'dict':
        w = await World().start()
        user, pw = b'testuser', b'testpass'
    else:
        from .imapdrv import MaildirWorld
        w = await MaildirWorld(layout='++' if backend == 'maildir++' else 'fs').start(users=(('alice', 'apass'),))
        user, pw = b'alice', b'apass'
    a = await w.client('a', user=user, pw=pw)
    b = await w.client('b', user=user, pw=pw)
    o = await w.client('o', user=user, pw=pw)
    clients = {'a': a, 'b': b}
    selected = {'a': BOXES[0], 'b': BOXES[0]}
    ntok = [0]

    async def append(c, box):
        ntok[0] += 1
        tok = 'tok%dx' % ntok[0]
        msg = b'X-Token: ' + tok.encode() + b'\nSubject: s\n\nbody ' + tok.encode() + b'\n'
        r = await c.cmd(b'APPEND ' + box + b' {%d}' % len(msg), [msg + b'\r\n'])
        return r, tok
    for box in BOXES:
        await a.cmd(b'CREATE ' + box)
    for i in range(4):
        await append(a, BOXES[0])
    await append(a, BOXES[1])
    await a.cmd(b'SELECT ' + BOXES[0])
    await b.cmd(b'SELECT ' + BOXES[0])
    orc = Oracle()
    before = await dump(o, errors, 'start')
    orc.observe(before, errors, 'start', fail)
    sig = []
    for step, op in enumerate(prog):
        where = f'step {step} {op}'
        kind, who = op[0], op[1]
        c = clients[who]
        src = selected[who]
        if kind == 'drop':
            # a delivery agent puts a file into new/ of the maildir (no ':2,' info suffix), behind the server's back
            import os
            ntok[0] += 1
            tok = 'tok%dx' % ntok[0]
            sub = '' if op[2] == b'INBOX' else (('.' if backend == 'maildir++' else '') + op[2].decode())
            path = os.path.join(w.base, 'alice', sub, 'new', '1600000000.M%dP1.elsewhere' % ntok[0])
            with open(path, 'wb') as f:
                f.write(b'X-Token: ' + tok.encode() + b'\nSubject: s\n\nbody ' + tok.encode() + b'\n')
            after = await dump(o, errors, where)
            orc.observe(after, errors, where, fail)
            if tok not in after[op[2]]["msgs"].values():
                fail('harness', f'{where}: the dropped file is not listed: {after[op[2]]}')
            before = after
            sig.append(('drop',))
            continue
        if kind == 'check':
            # housekeeping (CHECK) and polling are not mailbox changes: every message keeps its UID
            await c.cmd(b'CHECK')
            await c.cmd(b'NOOP')
            after = await dump(o, errors, where)
            orc.observe(after, errors, where, fail)
            for bx in after:
                if bx in before and after[bx]['msgs'] != before[bx]['msgs']:
                    fail('housekeeping_keeps_every_uid', f'{where}: CHECK changed {bx!r}: {before[bx]["msgs"]} -> {after[bx]["msgs"]}')
            before = after
            sig.append(('check',))
            continue
        if kind in ('select', 'examine'):
            r = await c.cmd((b'SELECT ' if kind == 'select' else b'EXAMINE ') + op[2])
            selected[who] = op[2]
            sig.append(('select',))
            continue
        if kind == 'append':
            r, tok = await append(c, op[2])
            after = await dump(o, errors, where)
            orc.observe(after, errors, where, fail)
            m = re.search(rb'\[APPENDUID (\d+) (\d+)\]', r['tagged'] or b'')
            if r['answered'] and b' OK' in r['tagged']:
                if not m:
                    fail('appenduid_is_what_uid_fetch_finds', f'{where}: OK without APPENDUID: {r["tagged"]!r}')
                else:
                    v, u = int(m.group(1)), int(m.group(2))
                    if v != after[op[2]]['validity'] or after[op[2]]['msgs'].get(u) != tok:
                        fail('appenduid_is_what_uid_fetch_finds',
                             f'{where}: APPENDUID {v} {u}, but UID {u} of {op[2]!r} (UIDVALIDITY {after[op[2]]["validity"]}) '
                             f'is {after[op[2]]["msgs"].get(u)}, the appended message is {tok}')
            sig.append(('append', bool(m)))
        elif kind in ('copy', 'move'):
            uidform, spec, dest = op[2], op[3], op[4]
            if uidform:
                # uid sets are written relative to the uids the source mailbox holds now
                uids = sorted(before[src]['msgs'])
                def tr(mm):     # noqa: E306
                    i = int(mm.group(0))
                    return str(uids[i - 1] if 0 < i <= len(uids) else (max(uids) if uids else 0) + 50 + i).encode()
                spec_b = re.sub(rb'\d+', tr, spec.encode())
            else:
                spec_b = spec.encode()
            verb = (b'UID ' if uidform else b'') + kind.upper().encode()
            r = await c.cmd(verb + b' ' + spec_b + b' ' + dest)
            after = await dump(o, errors, where)
            orc.observe(after, errors, where, fail)
            text = b' '.join(r['all'])
            m = re.search(rb'\[COPYUID (\d+) ([\d:,]+) ([\d:,]+)\]', text)
            new_in_dest = set(after[dest]['msgs']) - set(before[dest]['msgs'])
            if m:
                v, S, D = int(m.group(1)), expand(m.group(2)), expand(m.group(3))
                if v != after[dest]['validity']:
                    fail('copyuid_pairs_source_to_destination', f'{where}: COPYUID validity {v}, {dest!r} has {after[dest]["validity"]}')
                if len(S) != len(D):
                    fail('copyuid_pairs_source_to_destination', f'{where}: COPYUID lists {len(S)} source and {len(D)} destination UIDs: {m.group(0)!r}')
                for s, d in zip(S, D):
                    want = before[src]['msgs'].get(s)
                    got = after[dest]['msgs'].get(d)
                    if want is None or got != want or d not in new_in_dest:
                        fail('copyuid_pairs_source_to_destination',
                             f'{where}: {m.group(0)!r} pairs source UID {s} ({want}) with destination UID {d}, which is '
                             f'{got}{"" if d in new_in_dest else " and is not a new message"}')
                        break
                if set(D) != new_in_dest:
                    fail('copyuid_pairs_source_to_destination',
                         f'{where}: {m.group(0)!r} announces {sorted(set(D))}, the new messages of {dest!r} are {sorted(new_in_dest)}')
            elif new_in_dest and r['answered'] and b' OK' in r['tagged']:
                fail('copyuid_pairs_source_to_destination', f'{where}: {sorted(new_in_dest)} appeared in {dest!r} without a COPYUID')
            sig.append((kind, uidform, len(new_in_dest), bool(m)))
        elif kind == 'expunge':
            await c.cmd(b'STORE ' + op[2].encode() + b' +FLAGS.SILENT (\\Deleted)')
            await c.cmd(b'EXPUNGE')
            after = await dump(o, errors, where)
            orc.observe(after, errors, where, fail)
            sig.append(('expunge', len(before[src]['msgs']) - len(after[src]['msgs'])))
        else:
            await c.cmd(b'NOOP')
            after = before
        before = after
        if errors:
            break
    await w.close()
    if hasattr(w, 'cleanup'):
        w.cleanup()
    for c in (a, b, o):
        if c.exception() is not None:
            errors.append(('connection_survives', f'connection died: {c.exception()!r}'))
    return errors, (backend,) + tuple(sig)


def programs(tier, seed):
    progs = []
    # directed: every sequence-set shape, both forms, copy and move, to the other and to the same mailbox
    for kind in ('copy', 'move'):
        for uidform in (False, True):
            for spec in SEQ_SHAPES:
                for dest in BOXES:
                    progs.append(((kind, 'a', uidform, spec, dest),))
    # uid continuity after expunging the highest uid, interleaved sessions
    for tail in ([('append', 'a', BOXES[0])], [('copy', 'b', False, '1', BOXES[0])], [('move', 'b', True, '1', BOXES[0])],
                 [('select', 'b', BOXES[1]), ('copy', 'b', False, '1', BOXES[0])]):
        progs.append((('expunge', 'a', '*'),) + tuple(tail))
        progs.append((('expunge', 'a', '3:4'), ('noop', 'b')) + tuple(tail) + (('append', 'b', BOXES[0]),))
        progs.append((('move', 'a', False, '*', BOXES[1]),) + tuple(tail))
    # there and back again: a message moved away and moved (or copied) back must come back under a NEW uid only
    for uidform in (False, True):
        for back in ('move', 'copy'):
            progs.append((('move', 'a', uidform, '1', BOXES[1]), ('select', 'a', BOXES[1]), (back, 'a', uidform, '2', BOXES[0]),
                          ('select', 'a', BOXES[0]), ('noop', 'b')))
            progs.append((('move', 'a', uidform, '2:3', BOXES[1]), ('select', 'b', BOXES[1]), (back, 'b', False, '1:*', BOXES[0]),
                          ('move', 'a', False, '1:*', BOXES[1])))
    rnd = random.Random(seed)
    ops = []
    for who in 'ab':
        ops += [('append', who, bx) for bx in BOXES] + [('noop', who)] + [('select', who, bx) for bx in BOXES]
        ops += [('expunge', who, s) for s in ('1', '*', '2:3')]
        for kind in ('copy', 'move'):
            for uidform in (False, True):
                ops += [(kind, who, uidform, s, d) for s in ('1', '3,1', '2:3,2', '*', '1:*') for d in BOXES]
    for _ in range(250 if tier == 'quick' else 4000):
        progs.append(tuple(rnd.choice(ops) for _ in range(rnd.choice((2, 3, 4, 5)))))
    return progs


def _worker(args):
    prog, backend = args
    try:
        errs, sig = run(scenario(prog, backend))
    except Exception as exc:    # noqa
        import traceback
        return args, [('harness', f'harness exception {exc!r} {traceback.format_exc()[-600:]}')], ()
    return args, errs, sig


def bounded_uids(label, backend='dict'):
    from pyvc.prop import BoundedResult

    def fn(tier, seed):
        res = BoundedResult()
        res.exhaustive = False
        progs = programs(tier, seed)
        if backend != 'dict':
            progs = progs[: (140 if tier == 'quick' else 1200)]
            # external deliveries and housekeeping (maildir only)
            for sel in ('select', 'examine'):
                for bx in BOXES:
                    progs.insert(0, ((sel, 'a', bx), ('drop', 'a', bx), ('noop', 'a'), ('check', 'a'), ('noop', 'b'), ('append', 'b', bx),
                                     ('check', 'b'), ('drop', 'a', bx), ('check', 'a')))
        items = [(p, backend) for p in progs]
        with mp.get_context('fork').Pool(16) as pool:
            for args, errs, sig in pool.imap_unordered(_worker, items, chunksize=4):
                res.evaluations += 1
                res.distinct.add(sig)
                seen = set()
                for lab, text in errs:
                    if lab in seen:
                        continue
                    seen.add(lab)
                    res.fail(f'{label}/{lab}', dict(backend=backend, program=[list(map(
                        lambda x: x.decode() if isinstance(x, bytes) else x, op)) for op in args[0]]), [text])
                if not errs and len(res.samples) < 2:
                    res.samples.append(dict(program=repr(args[0]), result='agrees'))
        return res
    return fn


# ---- UIDVALIDITY of a name that is created again
async def regenerate(backend, how, n):
    """the same name is made anew n times (RENAME INBOX away / DELETE + CREATE); every generation starts its UIDs afresh,
    so it must get a UIDVALIDITY that no earlier generation of that name had"""
    errors = []
    if backend == 'dict':
        w = await World().start()
        cred = {}
    else:
        from .imapdrv import MaildirWorld
        w = await MaildirWorld(layout='++' if backend == 'maildir++' else 'fs').start(users=(('alice', 'apass'),))
        cred = dict(user=b'alice', pw=b'apass')
    c = await w.client('c', **cred)
    name = b'INBOX' if how == 'rename-inbox' else b'Again'
    if how != 'rename-inbox':
        await c.cmd(b'CREATE ' + name)
    seen = {}
    for i in range(n):
        body = b'X-Token: gen%dx\n\nbody\n' % i
        r = await c.cmd(b'APPEND ' + name + b' {%d}' % len(body), [body + b'\r\n'])
        m = re.search(rb'\[APPENDUID (\d+) (\d+)\]', r['tagged'] or b'')
        if not m:
            errors.append(('uidvalidity_never_repeats_for_a_name', f'generation {i}: APPEND answered {r["tagged"]!r}'))
            break
        key = (int(m.group(1)), int(m.group(2)))
        if key in seen:
            errors.append(('uidvalidity_never_repeats_for_a_name',
                           f'{name.decode()} made anew by {how}: generation {i} answers [APPENDUID {key[0]} {key[1]}] for its first '
                           f'message, exactly what generation {seen[key]} answered for a different message'))
            break
        seen[key] = i
        if how == 'rename-inbox':
            r = await c.cmd(b'RENAME INBOX Old%d' % i)
        else:
            await c.cmd(b'DELETE ' + name)
            r = await c.cmd(b'CREATE ' + name)
        if b' OK' not in (r['tagged'] or b''):
            if backend != 'dict' and how == 'rename-inbox':
                break       # known finding of C11: maildir cannot rename INBOX
            errors.append(('uidvalidity_never_repeats_for_a_name', f'generation {i}: {r["tagged"]!r}'))
            break
    await w.close()
    if hasattr(w, 'cleanup'):
        w.cleanup()
    return errors, (backend, how, len(seen))


def _regen_worker(args):
    try:
        return args, *run(regenerate(*args))
    except Exception as exc:    # noqa
        import traceback
        return args, [('harness', f'harness exception {exc!r} {traceback.format_exc()[-600:]}')], ()


def bounded_uidvalidity(label):
    from pyvc.prop import BoundedResult

    def fn(tier, seed):
        res = BoundedResult()
        res.exhaustive = False
        big = 3000 if tier == 'quick' else 20000
        items = [('dict', 'rename-inbox', big), ('dict', 'delete-create', big),
                 ('maildir++', 'delete-create', 250 if tier == 'quick' else 2500),
                 ('maildirfs', 'delete-create', 250 if tier == 'quick' else 2500)]
        with mp.get_context('fork').Pool(4) as pool:
            for args, errs, sig in pool.imap_unordered(_regen_worker, items):
                res.evaluations += sig[2] if sig else 1
                res.distinct.add(sig)
                for lab, text in errs[:1]:
                    res.fail(f'{label}/{lab}', dict(backend=args[0], how=args[1], generations=args[2]), [text])
                if not errs:
                    res.samples.append(dict(backend=args[0], how=args[1], generations=sig[2], result='all distinct'))
        return res
    return fn
