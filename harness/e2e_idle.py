"""Bounded stand-in for C16: one or two idling sessions and a session issuing bursts of APPEND / STORE / EXPUNGE on the
real server (dict backend), including changes that land while the idler is in the middle of writing a previous
notification (its transport's drain() is held), for every placement of the hold within the burst.

Oracle: without any further mailbox activity or client input, within a bounded number of event-loop turns after the
last change (and after the transport is released), the idler's client model holds exactly the mailbox's messages (count
and, for flag changes, flags); the pushed responses obey the sequence-number rules (client model); DONE ends IDLE with
the tagged OK, anything else with BAD."""
from __future__ import annotations

import asyncio
import itertools
import multiprocessing as mp
import re

from .imapdrv import World, ClientView, run

CHANGES = {
    'append': [(b'APPEND INBOX {3}', [b'x\r\n\r\n'])],
    'expunge1': [b'UID STORE 101 +FLAGS.SILENT (\\Deleted)', b'UID EXPUNGE 101'],
    'expunge3': [b'UID STORE 103 +FLAGS.SILENT (\\Deleted)', b'UID EXPUNGE 103'],
    'flag': [b'UID STORE 102 +FLAGS.SILENT (\\Flagged)'],
    'append2': [(b'APPEND INBOX {3}', [b'y\r\n\r\n']), (b'APPEND INBOX {3}', [b'z\r\n\r\n'])],
}


async def settle(turns=400):
    for _ in range(turns):
        await asyncio.sleep(0)


async def scenario(burst, hold_at, idlers, examine, end, b_selects=True, done_while_held=False, prelude=(), gap=()):
    """burst: tuple of change keys; hold_at: index in the burst before which the first idler's transport is blocked
    (None = never), released after the burst; end: b'DONE' or another line"""
    errors = []
    w = await World().start()
    b = await w.client('b')
    if b_selects:
        await b.cmd(b'SELECT INBOX')
    ids = []
    for i in range(idlers):
        c = await w.client(f'i{i}')
        r = await c.cmd(b'EXAMINE INBOX' if examine else b'SELECT INBOX')
        v = ClientView()
        for u in r['untagged']:
            v.apply(u, 'select')
        r = await c.cmd(b'FETCH 1:* (UID FLAGS)')
        for u in r['untagged']:
            v.apply(u, 'listing')
        for line in prelude:
            # commands right before IDLE, some of them refused (NO): whatever they leave behind must not delay a push
            r = await c.cmd(line)
            for u in r['untagged']:
                v.apply(u, 'prelude')
        ids.append((c, v))
    for ch in gap:
        # the mailbox changes between the idler's last command and its IDLE: nothing has told the client yet
        for cmd in CHANGES[ch]:
            if isinstance(cmd, tuple):
                await b.cmd(cmd[0], cmd[1])
            else:
                await b.cmd(cmd)
    tags = []
    for c, v in ids:
        tag = c.new_tag()
        c.reader.feed_data(tag + b' IDLE\r\n')
        tags.append(tag)
    await settle(50)
    for c, v in ids:
        got = c.take()
        if not any(x.startswith(b'+') for x in got):
            errors.append(f'{c.name}: IDLE was not answered with a continuation request: {got}')
        for u in got:
            if u.startswith(b'* '):
                v.apply(u, f'{c.name} push at the start of IDLE')      # what the gap left behind arrives right away
    hold = asyncio.Event()
    race = hold_at if isinstance(hold_at, tuple) else None        # ('race', order, turns): DONE and a change close together
    if race is not None:
        hold_at = None
        _, order, turns = race
        async def change():
            for cmd in CHANGES[burst[0]]:
                if isinstance(cmd, tuple):
                    await b.cmd(cmd[0], cmd[1])
                else:
                    await b.cmd(cmd)
        if order == 'done-first':
            for (c, v), tag in zip(ids, tags):
                c.reader.feed_data(end + b'\r\n')
            for _ in range(turns):
                await asyncio.sleep(0)
            await change()
        else:
            t = asyncio.ensure_future(change())
            for _ in range(turns):
                await asyncio.sleep(0)
            for (c, v), tag in zip(ids, tags):
                c.reader.feed_data(end + b'\r\n')
            await t
        done_while_held = True
        burst = ()
    for k, ch in enumerate(burst):
        if hold_at is not None and k == hold_at:
            ids[0][0].writer.hold = hold            # from now on the idler's drain() blocks: it is mid-write
        for cmd in CHANGES[ch]:
            if isinstance(cmd, tuple):
                await b.cmd(cmd[0], cmd[1])
            else:
                await b.cmd(cmd)
        await settle(30)
    if done_while_held:
        # the client ends IDLE while the server is still blocked writing an earlier notification
        for (c, v), tag in zip(ids, tags):
            c.reader.feed_data(end + b'\r\n')
        await settle(50)
    hold.set()
    ids[0][0].writer.hold = None
    await settle(600)          # no further mailbox activity, no client input
    mbx = await w.mailbox('INBOX')
    real = sorted(mbx._messages)
    early = {}
    for c, v in ids:
        early[c.name] = c.take()
        for u in early[c.name]:
            v.apply(u, f'{c.name} idle push')
        if v.errors:
            errors.append(f'{c.name}: {v.errors[:2]}')
        if len(v.uids) != len(real) and not done_while_held:
            errors.append(f'{c.name}: after the burst {list(burst)} (transport held before change {hold_at}) the idling '
                          f'client holds {len(v.uids)} messages, the mailbox has {len(real)} -- nothing more arrives '
                          f'without further stimulus')
    # end of IDLE
    if not done_while_held:
        for (c, v), tag in zip(ids, tags):
            c.reader.feed_data(end + b'\r\n')
    await settle(300)
    for (c, v), tag in zip(ids, tags):
        got = c.take()
        tagged = [x for x in early[c.name] + got if x.startswith(tag + b' ')]
        want = b'OK' if end.upper() == b'DONE' else b'BAD'        # ABNF literals are case-insensitive
        if not tagged or tagged[0].split()[1] != want:
            errors.append(f'{c.name}: IDLE ended by {end!r} answered {tagged or got}, expected tagged {want.decode()}')
        for u in got:
            v.apply(u, 'after done')
    if end.upper() == b'DONE':
        # whatever happened during IDLE: afterwards an ordinary NOOP must leave the client with the server's numbering
        for c, v in ids:
            r = await c.cmd(b'NOOP')
            for u in r['untagged']:
                v.apply(u, 'noop after idle')
            r = await c.cmd(b'FETCH 1:* (UID)')
            held = len(v.uids)
            listed = [u for u in r['untagged'] if re.match(rb'^\* \d+ FETCH', u)]
            for u in r['untagged']:
                v.apply(u, 'probe after idle')
            if v.errors:
                errors.append(f'{c.name}: after IDLE: {v.errors[:2]}')
            elif len(listed) != held:
                errors.append(f'{c.name}: after IDLE + NOOP the client holds {held} messages but the server numbers {len(listed)} '
                              f'(a batch of updates was committed but never sent)')
    await w.close()
    return errors, (tuple(burst), hold_at, idlers, examine, end, tuple(gap))


def _worker(args):
    try:
        errs, sig = run(scenario(*args))
    except Exception as exc:    # noqa
        import traceback
        return args, [f'harness exception {exc!r} {traceback.format_exc()[-500:]}'], ()
    return args, errs, sig


def bounded_idle(label):
    from pyvc.prop import BoundedResult

    def fn(tier, seed):
        res = BoundedResult()
        keys = list(CHANGES)
        items = []
        n = 2 if tier == 'quick' else 3
        for ln in range(1, n + 1):
            for burst in itertools.product(keys, repeat=ln):
                for hold_at in [None] + list(range(0, ln)):
                    for examine in (False, True):
                        items.append((burst, hold_at, 1, examine, b'DONE'))
                if ln <= 2:
                    items.append((burst, None, 2, False, b'DONE'))
                    items.append((burst, 1 if ln > 1 else 0, 2, True, b'DONE'))
        for end in (b'done', b'DONE ', b'NOOP', b'x DONE', b''):
            items.append((('append',), None, 1, False, end))
        # the changing session has nothing selected (deliveries only), idlers read-only or read-write
        for burst in (('append',), ('append', 'append'), ('append2',), ('append2', 'append')):
            for examine in (False, True):
                for n_id in (1, 2):
                    items.append((burst, None, n_id, examine, b'DONE', False))
                    items.append((burst, 0, n_id, examine, b'DONE', False))
        # a refused or failing non-UID command right before IDLE
        for prelude in ((b'STORE 1 +FLAGS (\\Seen)',), (b'COPY 1 Nowhere',), (b'FETCH 1 (BODY.PEEK[1.2.3]<5.1>)',),
                        (b'SEARCH CHARSET x-nope SUBJECT x',), (b'STORE 9 +FLAGS (\\Seen)', b'STORE 1 FLAGS (\\Bogus')):
            for ch in keys:
                for examine in (False, True):
                    items.append(((ch,), None, 1, examine, b'DONE', True, False, prelude))
        # DONE and a change arrive within a few event-loop turns of each other, in both orders
        for ch in keys:
            for order in ('done-first', 'change-first'):
                for turns in range(0, 12):
                    items.append(((ch,), ('race', order, turns), 1, False, b'DONE', True, True))
        # the mailbox changed in the gap before IDLE (the idler has not been told), then changes again during IDLE
        for g in keys:
            for ln in (0, 1, 2) if tier != 'quick' else (0, 1):
                for burst in itertools.product(keys, repeat=ln):
                    for examine in (False, True):
                        items.append((burst, None, 1, examine, b'DONE', True, False, (), (g,)))
                    if ln:
                        items.append((burst, 0, 1, False, b'DONE', True, False, (), (g,)))
        # DONE arrives while the server is blocked writing an earlier notification and more changes are pending
        for ln in (1, 2):
            for burst in itertools.product(keys, repeat=ln):
                for hold_at in range(0, ln):
                    items.append((burst, hold_at, 1, False, b'DONE', True, True))
        with mp.get_context('fork').Pool(16) as pool:
            for args, errs, sig in pool.imap_unordered(_worker, items, chunksize=4):
                res.evaluations += 1
                res.distinct.add(sig)
                if errs:
                    kind = 'done_ends_idle' if 'IDLE ended' in errs[0] else 'every_change_is_pushed_without_further_stimulus'
                    res.fail(f'{label}/{kind}', dict(burst=list(args[0]), transport_held_before_change=args[1],
                                                     idlers=args[2], examine=args[3], end=args[4].decode(),
                                                     changer_has_inbox_selected=(args[5] if len(args) > 5 else True),
                                                     done_sent_while_held=(args[6] if len(args) > 6 else False),
                                                     commands_before_idle=[x.decode() for x in (args[7] if len(args) > 7 else ())],
                                                     changes_between_last_command_and_idle=list(args[8] if len(args) > 8 else ())),
                             errs[:3])
                elif len(res.samples) < 2:
                    res.samples.append(dict(burst=list(args[0]), held_before=args[1], result='delivered'))
        return res
    return fn


def bounded_idle_races(label):
    """the part of the IDLE exploration that matters for C01: a change and DONE close together (both orders, 0..11 loop
    turns apart) and DONE while the transport is blocked; afterwards NOOP + FETCH 1:* must be labelled in the numbering
    the client's model holds (a batch that was committed server-side but never sent breaks exactly that)"""
    from pyvc.prop import BoundedResult

    def fn(tier, seed):
        res = BoundedResult()
        keys = list(CHANGES)
        items = []
        for ch in keys:
            for order in ('done-first', 'change-first'):
                for turns in range(0, 12 if tier == 'quick' else 24):
                    items.append(((ch,), ('race', order, turns), 1, False, b'DONE', True, True))
        for ln in (1, 2):
            for burst in itertools.product(keys, repeat=ln):
                for hold_at in range(0, ln):
                    items.append((burst, hold_at, 1, False, b'DONE', True, True))
        with mp.get_context('fork').Pool(16) as pool:
            for args, errs, sig in pool.imap_unordered(_worker, items, chunksize=4):
                res.evaluations += 1
                res.distinct.add(sig)
                if errs:
                    res.fail(f'{label}/client_view_consistent_after_idle',
                             dict(burst=list(args[0]), transport_held_before_change_or_race=args[1], end=args[4].decode()), errs[:3])
                elif len(res.samples) < 2:
                    res.samples.append(dict(burst=list(args[0]), race=args[1], result='consistent'))
        return res
    return fn
