"""Bounded stand-in for C14: MOVE / COPY / multi-message APPEND / EXPUNGE on the real server with a fault injected in
turn at every storage call of the command: the n-th call of MailboxData.append / copy / move / delete raises
(before or after doing its work), or the connection is dropped (EOF / cancellation of the connection task) while the
command runs, with a second session polling the mailbox.

Oracle: every message that existed before is, at the end, in exactly the mailboxes the model says for the part of the
command that completed -- in particular a moved message is in the source or the destination and, after OK, in exactly
one; a multi-message APPEND that did not answer OK left none of its messages; a command answered NO/BAD left the
contents unchanged.  Messages are tracked by content (each has a unique body)."""
from __future__ import annotations

import asyncio
import itertools
import multiprocessing as mp

from pymap.backend.dict.mailbox import MailboxData

from .imapdrv import World, run


class Injected(RuntimeError):
    pass


class FaultPlan:
    """raise in the n-th call (1-based) of `method`; when='before' the call does nothing, 'after' it completes first"""

    def __init__(self, method=None, n=0, when='before'):
        self.method, self.n, self.when = method, n, when
        self.count = 0
        self.orig = {}

    def install(self):
        plan = self
        for name in ('append', 'copy', 'move', 'delete'):
            orig = getattr(MailboxData, name)
            self.orig[name] = orig

            def make(name, orig):
                async def wrapper(self_, *a, **kw):
                    if name == plan.method:
                        plan.count += 1
                        if plan.count == plan.n:
                            if plan.when == 'before':
                                raise Injected(f'{name} call {plan.n}')
                            r = await orig(self_, *a, **kw)
                            raise Injected(f'{name} call {plan.n} (after its work)')
                    return await orig(self_, *a, **kw)
                return wrapper
            setattr(MailboxData, name, make(name, orig))

    def remove(self):
        for name, orig in self.orig.items():
            setattr(MailboxData, name, orig)


async def contents(world):
    """{mailbox: sorted list of message bodies}"""
    mset = world.config.set_cache['testuser'][0]
    out = {}
    for name in ['INBOX'] + sorted(mset._set):
        mbx = await mset.get_mailbox(name)
        out[name] = sorted(bytes(m._content) for m in mbx._messages.values())
    return out


BODIES = [b'Subject: new%d\r\n\r\nappended message %d\r\n' % (i, i) for i in range(3)]

COMMANDS = {
    'move2': (b'MOVE 1:2 Dest', None),
    'uidmove': (b'UID MOVE 103:104 Dest', None),
    'move-self': (b'MOVE 1 INBOX', None),
    'copy2': (b'COPY 1:2 Dest', None),
    'append3': ('append', 3),
    'append2': ('append', 2),
    'expunge': (b'EXPUNGE', None),
    'move-ro': (b'MOVE 1:2 Trash', None),
    'move-missing': (b'MOVE 1 Nowhere', None),
    'copy-ro': (b'COPY 1 Trash', None),
}


def append_wire(n):
    parts = []
    line = b'APPEND INBOX'
    lits = []
    for i in range(n):
        line += b' {%d}' % len(BODIES[i]) if i == 0 else b''
    # MULTIAPPEND: "APPEND box {n}" <lit> " {m}" <lit> ... CRLF
    first = b'APPEND INBOX {%d}' % len(BODIES[0])
    chunks = []
    for i in range(n):
        nxt = (b' {%d}\r\n' % len(BODIES[i + 1])) if i + 1 < n else b'\r\n'
        chunks.append(BODIES[i] + nxt)
    return first, chunks


async def scenario(cmd_key, plan: FaultPlan, drop=None):
    errors = []
    w = await World().start()
    c = await w.client('c')
    o = await w.client('o')
    await c.cmd(b'CREATE Dest')
    await c.cmd(b'SELECT INBOX')
    await o.cmd(b'SELECT INBOX')
    await c.cmd(b'STORE 3 +FLAGS.SILENT (\\Deleted)')
    before = await contents(w)
    everything = sorted(sum(before.values(), []))
    spec = COMMANDS[cmd_key]
    plan.install()
    try:
        if spec[0] == 'append':
            first, chunks = append_wire(spec[1])
            if drop is not None:
                task = asyncio.ensure_future(c.cmd(first, chunks))
                for _ in range(drop):
                    await asyncio.sleep(0)
                c.reader.feed_eof()
                r = await task
            else:
                r = await c.cmd(first, chunks)
        else:
            if drop is not None:
                task = asyncio.ensure_future(c.cmd(spec[0]))
                for _ in range(drop):
                    await asyncio.sleep(0)
                if drop % 2:
                    c.task.cancel()
                else:
                    c.reader.feed_eof()
                r = await task
            else:
                r = await c.cmd(spec[0])
    finally:
        plan.remove()
    await o.cmd(b'NOOP')
    after = await contents(w)
    cond = r['tagged'].split()[1] if r['tagged'] else None
    sig = (cmd_key, plan.method, plan.n, plan.when, drop, cond)
    where = f'{cmd_key} fault={plan.method}#{plan.n}/{plan.when} drop={drop} -> {cond}'
    # conservation: nothing that existed is lost, nothing is duplicated beyond what COPY / MOVE-to-self explain
    now_all = sum(after.values(), [])
    for body in set(everything):
        if body not in now_all and not (cmd_key == 'expunge' and b'\\Deleted' and body in before['INBOX']):
            errors.append(f'{where}: a message that existed is in no mailbox any more: {body[:40]!r}')
    if cmd_key.startswith(('move', 'uidmove')):
        for body in set(everything):
            places = [n for n, bl in after.items() if body in bl]
            was = [n for n, bl in before.items() if body in bl]
            if len(places) > len(was) and cmd_key != 'move-self':
                errors.append(f'{where}: a moved message is in {places} (was in {was})')
    if spec[0] == 'append' and cond != b'OK':
        left = [b for b in BODIES if b in after['INBOX']]
        if left:
            errors.append(f'{where}: APPEND did not complete with OK but {len(left)} of its messages are in the mailbox')
    if spec[0] == 'append' and cond == b'OK':
        if [b for b in BODIES[:spec[1]] if b in after['INBOX']] != BODIES[:spec[1]]:
            errors.append(f'{where}: APPEND answered OK but not all messages are stored')
    if cond in (b'NO', b'BAD') and after != before:
        errors.append(f'{where}: answered {cond.decode()} but the contents changed: {diff(before, after)}')
    await w.close()
    return errors, sig


def diff(a, b):
    out = {}
    for k in set(a) | set(b):
        if a.get(k) != b.get(k):
            out[k] = (len(a.get(k, [])), len(b.get(k, [])))
    return out


def _worker(args):
    cmd_key, method, n, when, drop = args
    try:
        errs, sig = run(scenario(cmd_key, FaultPlan(method, n, when), drop))
    except Exception as exc:    # noqa
        import traceback
        return args, [f'harness exception {exc!r} {traceback.format_exc()[-500:]}'], ()
    return args, errs, sig


def bounded_faults(label):
    from pyvc.prop import BoundedResult

    def fn(tier, seed):
        res = BoundedResult()
        items = []
        for k in COMMANDS:
            items.append((k, None, 0, 'before', None))
            for method in ('append', 'copy', 'move', 'delete'):
                for n in (1, 2, 3):
                    for when in ('before', 'after'):
                        if when == 'after' and method == 'append':
                            continue    # a storage call that raises is assumed to have had no effect of its own
                        items.append((k, method, n, when, None))
            for drop in range(0, 8 if tier == 'quick' else 16):
                items.append((k, None, 0, 'before', drop))
        with mp.get_context('fork').Pool(16) as pool:
            for args, errs, sig in pool.imap_unordered(_worker, items, chunksize=4):
                res.evaluations += 1
                res.distinct.add(sig)
                if errs:
                    kind = 'multi_append_is_all_or_nothing' if 'APPEND' in errs[0] else (
                        'no_or_bad_leaves_contents_unchanged' if 'answered' in errs[0] else 'no_message_lost_or_duplicated')
                    res.fail(f'{label}/{kind}', dict(command=args[0], fault=dict(method=args[1], call=args[2], when=args[3]),
                                                     drop_after_loop_turns=args[4]), errs[:3])
                elif len(res.samples) < 2:
                    res.samples.append(dict(command=args[0], fault=args[1], result='conserved'))
        return res
    return fn
