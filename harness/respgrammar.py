"""An independent, strict parser of the IMAP4rev1 server-to-client byte stream (RFC 3501 section 9 `response`, plus
the extensions the server advertises: LITERAL+, ID, BINARY, UIDPLUS, MOVE, CHILDREN, APPENDLIMIT, IDLE, OBJECTID,
MULTIAPPEND).  It shares no code with pymap.  It works on the raw bytes a connection wrote, not on lines: a literal
whose announced length is wrong makes the remainder fail to parse.

parse_stream(data, tags) -> (list of parsed responses, list of error strings).  What is enforced is what property C07
states: every response is a complete tagged / untagged / continuation response ending in CRLF; literals are
{n}CRLF followed by n bytes (~{n} only for BINARY[...] items); quoted strings contain no CR, LF, NUL and no
unescaped quote / backslash (only \\" and \\\\ escapes); lists are balanced; atoms contain no atom-specials; numbers are
digit strings; resp-text contains no CR / LF / NUL.  8-bit bytes in quoted strings / text are counted (field `eightbit`)
but are not errors (the property statement does not list them)."""
from __future__ import annotations

import re

ATOM_SPECIALS = set(b'(){ %*"\\]') | set(range(0, 0x20)) | {0x7f}
ATOM_CHAR = bytes(c for c in range(1, 0x7f) if c not in ATOM_SPECIALS)
ASTRING_CHAR = ATOM_CHAR + b']'
TAG_CHAR = bytes(c for c in ASTRING_CHAR if c != ord('+'))
_DATETIME = re.compile(rb'^(?: \d|\d\d)-(?:Jan|Feb|Mar|Apr|May|Jun|Jul|Aug|Sep|Oct|Nov|Dec)-\d{4} \d\d:\d\d:\d\d [+-]\d{4}$')


class Bad(Exception):
    pass


class Quoted(bytes):
    pass


class Literal(bytes):
    binary = False


class AtomT(bytes):
    pass


NIL = AtomT(b'NIL')


class P:
    def __init__(self, data: bytes, pos=0):
        self.d = data
        self.i = pos
        self.eightbit = 0

    def peek(self, n=1):
        return self.d[self.i:self.i + n]

    def eat(self, lit: bytes, ci=False):
        got = self.d[self.i:self.i + len(lit)]
        if got == lit or (ci and got.upper() == lit.upper()):
            self.i += len(lit)
            return True
        return False

    def need(self, lit: bytes, what=None):
        if not self.eat(lit):
            raise Bad(f'expected {lit!r}{" (" + what + ")" if what else ""} at offset {self.i}, found {self.d[self.i:self.i + 24]!r}')

    def sp(self):
        self.need(b' ', 'single space')

    def crlf(self):
        self.need(b'\r\n', 'CRLF at end of response')

    def run(self, allowed: bytes, what):
        j = self.i
        while j < len(self.d) and self.d[j] in allowed:
            j += 1
        if j == self.i:
            raise Bad(f'expected {what} at offset {self.i}, found {self.d[self.i:self.i + 24]!r}')
        out = self.d[self.i:j]
        self.i = j
        return out

    def atom(self):
        return AtomT(self.run(ATOM_CHAR, 'atom'))

    def number(self):
        return int(self.run(b'0123456789', 'number'))

    def quoted(self):
        self.need(b'"')
        out = bytearray()
        while True:
            if self.i >= len(self.d):
                raise Bad('unterminated quoted string')
            c = self.d[self.i]
            if c == 0x22:
                self.i += 1
                return Quoted(out)
            if c in (0x0d, 0x0a, 0x00):
                raise Bad(f'quoted string contains {bytes([c])!r} at offset {self.i}: {self.d[max(0, self.i - 20):self.i + 5]!r}')
            if c == 0x5c:
                nxt = self.d[self.i + 1:self.i + 2]
                if nxt not in (b'"', b'\\'):
                    raise Bad(f'quoted string: backslash escapes {nxt!r} at offset {self.i}')
                out += nxt
                self.i += 2
                continue
            if c >= 0x80:
                self.eightbit += 1
            out.append(c)
            self.i += 1

    def literal(self, allow_binary=False):
        binary = False
        if self.peek() == b'~':
            if not allow_binary:
                raise Bad(f'literal8 (~{{n}}) outside a BINARY item at offset {self.i}')
            self.i += 1
            binary = True
        self.need(b'{')
        n = self.number()
        self.need(b'}')
        self.need(b'\r\n', 'CRLF after the literal length')
        if self.i + n > len(self.d):
            raise Bad(f'literal announces {n} bytes but only {len(self.d) - self.i} follow')
        out = Literal(self.d[self.i:self.i + n])
        out.binary = binary
        self.i += n
        return out

    def string(self, allow_binary=False):
        c = self.peek()
        if c == b'"':
            return self.quoted()
        if c == b'{' or c == b'~':
            return self.literal(allow_binary)
        raise Bad(f'expected string at offset {self.i}, found {self.d[self.i:self.i + 24]!r}')

    def nstring(self, allow_binary=False):
        if self.peek(3).upper() == b'NIL' and self.d[self.i + 3:self.i + 4] in (b' ', b')', b'\r'):
            self.i += 3
            return None
        return self.string(allow_binary)

    def astring(self):
        c = self.peek()
        if c in (b'"', b'{'):
            return self.string()
        return AtomT(self.run(ASTRING_CHAR, 'astring'))

    def plist(self, item):
        """"(" [item *(SP item)] ")" """
        self.need(b'(')
        out = []
        if self.eat(b')'):
            return out
        while True:
            out.append(item())
            if self.eat(b')'):
                return out
            self.sp()

    def text(self):
        """1*TEXT-CHAR up to CRLF"""
        j = self.i
        while j < len(self.d) and self.d[j] not in (0x0d, 0x0a):
            if self.d[j] == 0:
                raise Bad(f'NUL in response text at offset {j}')
            if self.d[j] >= 0x80:
                self.eightbit += 1
            j += 1
        out = self.d[self.i:j]
        self.i = j
        return out


def flag(p: P, perm=False):
    if p.eat(b'\\'):
        if perm and p.eat(b'*'):
            return b'\\*'
        return b'\\' + p.atom()
    return p.atom()


def uid_set(p: P):
    s = p.run(b'0123456789:,', 'uid-set')
    if not re.match(rb'^\d+(:\d+)?(,\d+(:\d+)?)*$', s):
        raise Bad(f'malformed uid-set {s!r}')
    return s


def objectid(p: P):
    p.need(b'(')
    v = p.run(b'abcdefghijklmnopqrstuvwxyzABCDEFGHIJKLMNOPQRSTUVWXYZ0123456789_-', 'objectid')
    if len(v) > 255:
        raise Bad('objectid longer than 255')
    p.need(b')')
    return v


def resp_text(p: P):
    code = None
    mark = p.i
    try:
        return _resp_text_with_code(p)
    except Bad:
        # a text that merely begins with "[" also derives from resp-text (text = 1*TEXT-CHAR): no code then
        p.i = mark
        return None, p.text()


def _resp_text_with_code(p: P):
    code = None
    if p.eat(b'['):
        name = p.atom().upper()
        code = [name]
        if name in (b'UIDNEXT', b'UIDVALIDITY', b'UNSEEN'):
            p.sp()
            code.append(p.number())
        elif name == b'PERMANENTFLAGS':
            p.sp()
            code.append(p.plist(lambda: flag(p, perm=True)))
        elif name == b'CAPABILITY':
            caps = []
            while p.eat(b' '):
                caps.append(p.atom())
            if not caps:
                raise Bad('empty CAPABILITY code')
            code.append(caps)
        elif name == b'APPENDUID':
            p.sp(); code.append(p.number()); p.sp(); code.append(uid_set(p))
        elif name == b'COPYUID':
            p.sp(); code.append(p.number()); p.sp(); code.append(uid_set(p)); p.sp(); code.append(uid_set(p))
        elif name == b'MAILBOXID':
            p.sp(); code.append(objectid(p))
        elif name == b'BADCHARSET':
            if p.eat(b' '):
                code.append(p.plist(p.astring))
        elif p.eat(b' '):
            j = p.i
            while j < len(p.d) and p.d[j] not in b']\r\n\x00':
                j += 1
            if j == p.i:
                raise Bad('empty response code argument')
            code.append(p.d[p.i:j])
            p.i = j
        p.need(b']', 'end of response code')
        if p.peek(2) == b'\r\n':
            # RFC 3501 wants SP text after a code; RFC 9051 made the text optional.  Accepted (not in C07's list).
            return code, b''
        p.sp()
    t = p.text()
    return code, t


def address(p: P):
    p.need(b'(')
    out = [p.nstring()]
    for _ in range(3):
        p.sp()
        out.append(p.nstring())
    p.need(b')')
    return out


def addr_list(p: P):
    if p.peek(3).upper() == b'NIL':
        p.i += 3
        return None
    p.need(b'(')
    out = [address(p)]
    while not p.eat(b')'):
        if p.peek() == b' ':          # RFC 3501 has no space between addresses; many servers send one. both accepted
            p.i += 1
        out.append(address(p))
    return out


def envelope(p: P):
    p.need(b'(')
    out = [p.nstring()]
    p.sp(); out.append(p.nstring())
    for _ in range(6):
        p.sp(); out.append(addr_list(p))
    p.sp(); out.append(p.nstring())
    p.sp(); out.append(p.nstring())
    p.need(b')', 'end of envelope')
    return out


def body_param(p: P):
    if p.peek(3).upper() == b'NIL':
        p.i += 3
        return None
    items = p.plist(p.string)
    if not items or len(items) % 2:
        raise Bad(f'body parameter list with {len(items)} strings (must be a non-empty list of pairs)')
    return items


def body_dsp(p: P):
    if p.peek(3).upper() == b'NIL':
        p.i += 3
        return None
    p.need(b'(')
    t = p.string()
    p.sp()
    prm = body_param(p)
    p.need(b')')
    return [t, prm]


def body_lang(p: P):
    if p.peek() == b'(':
        items = p.plist(p.string)
        if not items:
            raise Bad('empty body language list')
        return items
    return p.nstring()


def body_extension(p: P, depth=0):
    if depth > 50:
        raise Bad('body extension nesting too deep')
    if p.peek() == b'(':
        items = p.plist(lambda: body_extension(p, depth + 1))
        if not items:
            raise Bad('empty body extension list')
        return items
    if p.peek() in b'0123456789' and p.peek():
        return p.number()
    return p.nstring()


def body_ext_tail(p: P):
    """[SP dsp [SP lang [SP loc *(SP ext)]]] after md5 / param"""
    out = []
    if p.peek() == b' ':
        p.sp(); out.append(body_dsp(p))
        if p.peek() == b' ':
            p.sp(); out.append(body_lang(p))
            if p.peek() == b' ':
                p.sp(); out.append(p.nstring())
                while p.peek() == b' ':
                    p.sp(); out.append(body_extension(p))
    return out


def body(p: P, depth=0):
    if depth > 200:
        raise Bad('body nesting too deep')
    p.need(b'(')
    if p.peek() == b'(':
        parts = []
        while p.peek() == b'(':
            parts.append(body(p, depth + 1))
        p.sp()
        subtype = p.string()
        ext = []
        if p.peek() == b' ':
            p.sp(); ext.append(body_param(p))
            ext += body_ext_tail(p)
        p.need(b')', 'end of multipart body')
        return dict(multipart=parts, subtype=subtype, ext=ext)
    mtype = p.string()
    p.sp(); subtype = p.string()
    p.sp(); prm = body_param(p)
    p.sp(); cid = p.nstring()
    p.sp(); desc = p.nstring()
    p.sp(); enc = p.string()
    p.sp(); octets = p.number()
    out = dict(type=mtype, subtype=subtype, param=prm, id=cid, desc=desc, enc=enc, octets=octets)
    if mtype.upper() == b'MESSAGE' and subtype.upper() == b'RFC822':
        p.sp(); out['envelope'] = envelope(p)
        p.sp(); out['body'] = body(p, depth + 1)
        p.sp(); out['lines'] = p.number()
    elif mtype.upper() == b'TEXT':
        p.sp(); out['lines'] = p.number()
    if p.peek() == b' ':
        p.sp(); out['md5'] = p.nstring()
        out['ext'] = body_ext_tail(p)
    p.need(b')', 'end of body')
    return out


def section(p: P, binary=False):
    """after BODY / BINARY / BINARY.SIZE: "[" spec "]" ["<" n ">"]"""
    p.need(b'[')
    spec = []
    if p.peek() in b'123456789' and p.peek():
        spec.append(p.number())
        while p.peek() == b'.' and p.d[p.i + 1:p.i + 2].isdigit():
            p.i += 1
            spec.append(p.number())
        if not binary and p.eat(b'.'):
            spec.append(section_text(p, part=True))
    elif p.peek() != b']':
        if binary:
            raise Bad('BINARY section must be a part number path')
        spec.append(section_text(p, part=False))
    p.need(b']', 'end of section')
    origin = None
    if p.eat(b'<'):
        origin = p.number()
        p.need(b'>')
    return spec, origin


def section_text(p: P, part):
    name = p.run(b'ABCDEFGHIJKLMNOPQRSTUVWXYZabcdefghijklmnopqrstuvwxyz.', 'section text').upper()
    if name in (b'HEADER', b'TEXT') or (part and name == b'MIME'):
        return name
    if name in (b'HEADER.FIELDS', b'HEADER.FIELDS.NOT'):
        p.sp()
        names = p.plist(p.astring)
        if not names:
            raise Bad('empty header list in section')
        return (name, names)
    raise Bad(f'unknown section text {name!r}')


def msg_att(p: P):
    name = p.run(b'ABCDEFGHIJKLMNOPQRSTUVWXYZabcdefghijklmnopqrstuvwxyz0123456789.', 'fetch attribute name').upper()
    if name == b'FLAGS':
        p.sp(); return name, p.plist(lambda: flag(p))
    if name in (b'UID', b'RFC822.SIZE', b'MODSEQ'):
        p.sp(); return name, p.number()
    if name == b'INTERNALDATE':
        p.sp()
        v = p.quoted()
        if not _DATETIME.match(v):
            raise Bad(f'INTERNALDATE {v!r} is not a date-time')
        return name, v
    if name in (b'RFC822', b'RFC822.HEADER', b'RFC822.TEXT'):
        p.sp(); return name, p.nstring()
    if name == b'ENVELOPE':
        p.sp(); return name, envelope(p)
    if name == b'BODYSTRUCTURE':
        p.sp(); return name, body(p)
    if name == b'BODY':
        if p.peek() == b'[':
            sec = section(p)
            p.sp(); return (name, sec), p.nstring()
        p.sp(); return name, body(p)
    if name == b'BINARY':
        sec = section(p, binary=True)
        p.sp(); return (name, sec), p.nstring(allow_binary=True)
    if name == b'BINARY.SIZE':
        sec = section(p, binary=True)
        p.sp(); return (name, sec), p.number()
    if name == b'EMAILID':
        p.sp(); return name, objectid(p)
    if name == b'THREADID':
        p.sp()
        if p.peek(3).upper() == b'NIL':
            p.i += 3
            return name, None
        return name, objectid(p)
    raise Bad(f'unknown fetch attribute {name!r}')


def response(p: P, tags):
    start = p.i
    if p.eat(b'+'):
        if p.peek(2) == b'\r\n':
            raise Bad('continuation request without the space')
        p.sp()
        if p.peek(2) != b'\r\n':
            resp_text(p)
        p.crlf()
        return dict(kind='continuation', raw=p.d[start:p.i])
    if p.eat(b'*'):
        p.sp()
        if p.peek() in b'0123456789' and p.peek():
            n = p.number()
            p.sp()
            word = p.atom().upper()
            if word in (b'EXISTS', b'RECENT', b'EXPUNGE'):
                if word == b'EXPUNGE' and n == 0:
                    raise Bad('EXPUNGE 0')
                p.crlf()
                return dict(kind=word.decode().lower(), n=n, raw=p.d[start:p.i])
            if word == b'FETCH':
                if n == 0:
                    raise Bad('FETCH 0')
                p.sp()
                atts = p.plist(lambda: msg_att(p))
                if not atts:
                    raise Bad('FETCH with no attributes')
                p.crlf()
                return dict(kind='fetch', n=n, atts=atts, raw=p.d[start:p.i])
            raise Bad(f'unknown numeric response {word!r}')
        word = p.atom().upper()
        if word in (b'OK', b'NO', b'BAD', b'BYE', b'PREAUTH'):
            p.sp()
            code, t = resp_text(p)
            p.crlf()
            return dict(kind='cond', cond=word, code=code, text=t, raw=p.d[start:p.i])
        if word == b'CAPABILITY':
            caps = []
            while p.eat(b' '):
                caps.append(p.atom())
            if b'IMAP4REV1' not in [c.upper() for c in caps]:
                raise Bad('CAPABILITY without IMAP4rev1')
            p.crlf()
            return dict(kind='capability', caps=caps, raw=p.d[start:p.i])
        if word == b'FLAGS':
            p.sp()
            fl = p.plist(lambda: flag(p))
            p.crlf()
            return dict(kind='flags', flags=fl, raw=p.d[start:p.i])
        if word in (b'LIST', b'LSUB'):
            p.sp()
            fl = p.plist(lambda: flag(p))
            if any(not f.startswith(b'\\') for f in fl):
                raise Bad(f'mailbox list flags must start with a backslash: {fl}')
            p.sp()
            if p.peek(3).upper() == b'NIL':
                p.i += 3
                delim = None
            else:
                delim = p.quoted()
                if len(delim) != 1:
                    raise Bad(f'hierarchy delimiter {delim!r} is not one character')
            p.sp()
            mbx = p.astring()
            p.crlf()
            return dict(kind=word.decode().lower(), flags=fl, delim=delim, mailbox=mbx, raw=p.d[start:p.i])
        if word == b'SEARCH':
            nums = []
            while p.eat(b' '):
                v = p.number()
                if v == 0:
                    raise Bad('SEARCH result 0')
                nums.append(v)
            p.crlf()
            return dict(kind='search', nums=nums, raw=p.d[start:p.i])
        if word == b'STATUS':
            p.sp()
            mbx = p.astring()
            p.sp()

            def item():
                k = p.atom().upper()
                p.sp()
                if k == b'MAILBOXID':
                    return k, objectid(p)
                return k, p.number()
            items = p.plist(item)
            p.crlf()
            return dict(kind='status', mailbox=mbx, items=items, raw=p.d[start:p.i])
        if word == b'ID':
            p.sp()
            if p.peek(3).upper() == b'NIL':
                p.i += 3
                params = None
            else:
                toks = p.plist(p.nstring)
                if len(toks) % 2 or any(toks[i] is None for i in range(0, len(toks), 2)):
                    raise Bad('ID parameter list is not string/nstring pairs')
                params = toks
            p.crlf()
            return dict(kind='id', params=params, raw=p.d[start:p.i])
        raise Bad(f'unknown untagged response {word!r}')
    tag = p.run(TAG_CHAR, 'tag')
    if tags is not None and tag not in tags:
        raise Bad(f'tagged response with a tag no command used: {tag!r}')
    p.sp()
    word = p.atom().upper()
    if word not in (b'OK', b'NO', b'BAD'):
        raise Bad(f'tagged response with condition {word!r}')
    p.sp()
    code, t = resp_text(p)
    p.crlf()
    return dict(kind='tagged', tag=tag, cond=word, code=code, text=t, raw=p.d[start:p.i])


def parse_stream(data: bytes, tags=None):
    p = P(bytes(data))
    out, errors = [], []
    while p.i < len(p.d):
        start = p.i
        try:
            out.append(response(p, tags))
        except Bad as exc:
            errors.append(f'{exc} | response starting {p.d[start:start + 80]!r}')
            break
        except (IndexError, ValueError) as exc:
            errors.append(f'parser fell off the data ({exc!r}) | response starting {p.d[start:start + 80]!r}')
            break
    return out, errors, p.eightbit
