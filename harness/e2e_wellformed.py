"""Bounded stand-in for C07: client-chosen hostile data (mailbox names, keywords, ID parameters, header field names in
FETCH sections, message headers, MIME parameters and nesting shapes, junk commands/tags/charsets) is stored on / sent to
the real server, then echoed back through every response form; the COMPLETE byte stream each connection wrote is parsed
by the independent strict response parser (harness/respgrammar.py).

Additionally, for BODY[]/RFC822 of an appended message the literal returned must be exactly the appended bytes (so a
literal whose announced length is short/long cannot hide behind a lucky re-synchronisation)."""
from __future__ import annotations

import multiprocessing as mp

from .imapdrv import World, run
from .respgrammar import parse_stream, Literal

H = [b'a"b', b'a\\b', b'a\rb', b'a\nb', b'a\x00b', b'\xe9', 'café'.encode(), b'a b', b'(', b')', b'a(b)c', b'{5}',
     b'{5}\r\nxx', b'%', b'*', b']', b'[', b'x' * 70, b'=?utf-8?q?a_b?=', b'=?utf-8?b?w6k=?=', b'&', b'&AOk-', b'~', b'NIL',
     b'nil', b'\\Seen', b'"', b'\\', b'\r', b'\n', b'\r\n', b'a\r\n b', b'a\r\nb', b'\t', b'a\tb', b'\x7f', b'\x01', b' ',
     b' a ', b'a\\"b', b'"a"', b'\\\\', b'a\r', b'\xff\xfe', ' '.encode(), '\U0001f600'.encode(), b'a/b', b'/', b'.',
     b'x' * 63, b'x' * 64, b'x' * 1100, b'0', b'123', b'a]b', b'+', b'a+b', b'INBOX', b'inbox/a"b']


def lit(b: bytes) -> bytes:
    return b'{%d+}\r\n' % len(b) + b


FETCH_ALL = (b'FETCH 1:* (FLAGS UID INTERNALDATE RFC822.SIZE ENVELOPE BODYSTRUCTURE BODY EMAILID THREADID)',
             b'FETCH 1:* (BODY.PEEK[HEADER] BODY.PEEK[TEXT] BODY.PEEK[] RFC822.HEADER RFC822.TEXT RFC822)',
             b'FETCH 1:* (BODY.PEEK[1] BODY.PEEK[1.MIME] BODY.PEEK[2] BODY.PEEK[1.1] BODY.PEEK[1.HEADER] BODY.PEEK[1.TEXT] '
             b'BODY.PEEK[2.MIME] BODY.PEEK[1.1.MIME])',
             b'FETCH 1:* (BINARY.PEEK[1] BINARY.SIZE[1] BINARY.PEEK[2] BINARY.SIZE[2] BINARY.PEEK[] BINARY.PEEK[1.1])',
             b'FETCH 1:* (BODY.PEEK[HEADER.FIELDS (Subject From To Content-Type X-H)] BODY.PEEK[HEADER.FIELDS.NOT (Subject)] '
             b'BODY.PEEK[]<0.10> BODY.PEEK[TEXT]<3.100> BODY.PEEK[HEADER]<1000.5>)',
             b'UID FETCH 1:* (BODY[])',
             b'SEARCH ALL', b'SEARCH SUBJECT a', b'UID SEARCH TEXT b')


def msg_header(field: bytes, h: bytes) -> bytes:
    return b'From: a@b.c\r\n' + field + b': ' + h + b'\r\nX-After: 1\r\n\r\nbody line\r\n'


HEADER_FIELDS = [b'Subject', b'From', b'To', b'Cc', b'Bcc', b'Sender', b'Reply-To', b'Message-Id', b'In-Reply-To', b'Date',
                 b'Content-Type', b'Content-Disposition', b'Content-Language', b'Content-Location', b'Content-Id',
                 b'Content-Description', b'Content-MD5', b'Content-Transfer-Encoding', b'X-H']


def structured(h: bytes):
    """MIME parameter / address forms built around a hostile value"""
    q = b'"' + h.replace(b'\\', b'\\\\').replace(b'"', b'\\"') + b'"'
    return [
        b'Content-Type: text/plain; name=' + q + b'\r\n\r\nx\r\n',
        b'Content-Type: text/plain; name=' + h + b'\r\n\r\nx\r\n',
        b'Content-Type: text/plain; ' + h + b'=1\r\n\r\nx\r\n',
        b'Content-Type: text/' + h + b'\r\n\r\nx\r\n',
        b'Content-Type: ' + h + b'/plain\r\n\r\nx\r\n',
        b'Content-Type: application/x; a*0=' + q + b'; a*1=' + q + b'\r\n\r\nx\r\n',
        b'Content-Type: text/plain; name*=utf-8\'\'' + h + b'\r\n\r\nx\r\n',
        b'Content-Disposition: attachment; filename=' + q + b'\r\n\r\nx\r\n',
        b'Content-Disposition: ' + h + b'; filename=a\r\n\r\nx\r\n',
        b'Content-Language: en, ' + h + b'\r\n\r\nx\r\n',
        b'From: ' + q + b' <a@b.c>\r\n\r\nx\r\n',
        b'From: ' + h + b' <a@b.c>\r\n\r\nx\r\n',
        b'To: <' + h + b'@b.c>, g: ' + q + b' <x@y>;\r\n\r\nx\r\n',
        b'To: a@' + h + b'\r\n\r\nx\r\n',
        b'Content-Type: multipart/mixed; boundary=' + q + b'\r\n\r\n--' + h + b'\r\n\r\np1\r\n--' + h + b'--\r\n',
    ]


def shapes():
    def mp_(boundary, parts, sub=b'mixed', extra=b''):
        out = b'Content-Type: multipart/' + sub + b'; boundary="' + boundary + b'"\r\n' + extra + b'\r\n'
        for p in parts:
            out += b'--' + boundary + b'\r\n' + p + b'\r\n'
        return out + b'--' + boundary + b'--\r\n'
    leaf = b'Content-Type: text/plain\r\n\r\nleaf\r\n'
    yield mp_(b'b0', [])
    yield mp_(b'b0', [leaf])
    yield mp_(b'b0', [leaf] * 12)
    yield b'Content-Type: multipart/mixed\r\n\r\nno boundary\r\n'
    yield b'Content-Type: multipart/mixed; boundary=""\r\n\r\n--\r\n\r\nx\r\n----\r\n'
    yield b'Content-Type: multipart/mixed; boundary="b0"\r\n\r\nnever opened\r\n'
    yield b'Content-Type: multipart/mixed; boundary="b0"\r\n\r\n--b0\r\n\r\nnever closed\r\n'
    nested = leaf
    for d in range(12):
        nested = mp_(b'b%d' % d, [nested])
    yield nested
    rfc = b'Content-Type: message/rfc822\r\n\r\n' + mp_(b'in', [leaf, leaf])
    yield rfc
    yield mp_(b'o', [rfc, b'Content-Type: message/rfc822\r\n\r\n' + rfc])
    yield b'Content-Type: message/rfc822\r\n\r\n'
    yield b'Content-Type: message/rfc822\r\n\r\nnot a message'
    yield b'Content-Type: message/rfc822\r\nContent-Transfer-Encoding: base64\r\n\r\nRnJvbTogYQ0KDQp4\r\n'
    yield b'Content-Type: text/plain\r\nContent-Transfer-Encoding: base64\r\n\r\n!!!not base64!!!\r\n'
    yield b'Content-Type: text/plain\r\nContent-Transfer-Encoding: quoted-printable\r\n\r\n=ZZ=\r\n'
    yield mp_(b'b', [leaf], sub=b'alternative', extra=b'Content-Disposition: inline; x="y"\r\nContent-Language: (en) de\r\n'
                                                       b'Content-Location: http://x/"q"\r\n')
    # parameters whose decoded value is not ASCII (RFC 2231, RFC 2047, raw 8-bit), incl. the multipart boundary
    for prm in (b"boundary*=utf-8''%E2%9C%93", b'boundary="=?utf-8?b?4pyT?="', b'boundary="\xe9"', b'boundary=\xe2\x9c\x93',
                b"boundary*0*=utf-8''%E2; boundary*1*=%9C%93"):
        yield b'Content-Type: multipart/mixed; ' + prm + b'\r\n\r\n--\xe2\x9c\x93\r\n\r\np\r\n--\xe2\x9c\x93--\r\n'
    for prm in (b"name*=utf-8''%E2%9C%93", b'name="=?utf-8?b?4pyT?="', b"charset*=utf-8''%E2%9C%93", b'charset="\xe9"', b"name*=bogus'x'%ZZ"):
        yield b'Content-Type: text/plain; ' + prm + b'\r\nContent-Disposition: attachment; file' + prm + b'\r\n\r\nx\r\n'
    yield b''
    yield b'\r\n'
    yield b'no header at all'
    yield b'Subject: only header'
    yield b': empty name\r\n\r\nx'
    yield b'Subject\r\n\r\nx'
    yield b'Subject: a\r\n continued\r\n\tmore\r\n\r\nx'
    yield b'\xff\xfe\x00binary\x00'
    yield b'Subject: x\n\nbare LF message\n'
    yield b'Subject: x\r\rbare CR\r'
    yield b'Content-Type: text/plain; charset="' + b'x' * 300 + b'"\r\n\r\nx'
    yield b'Content-Type: text/plain;' + b''.join(b' p%d=v%d;' % (i, i) for i in range(40)) + b'\r\n\r\nx'


def scenarios(tier):
    for h in H:
        yield ('mailbox', h)
        yield ('keyword', h)
        yield ('id', h)
        yield ('section', h)
        yield ('junk', h)
        for f in HEADER_FIELDS:
            yield ('header', f, h)
        for k, m in enumerate(structured(h)):
            yield ('message', f'structured{k}', m)
    for k, m in enumerate(shapes()):
        yield ('message', f'shape{k}', m)
    for backend in ('dict', '++', 'fs'):
        yield ('expunged', backend)
    if tier != 'quick':
        # seeded hostile strings: bytes drawn from the special characters, lengths 1..40, in every position kind
        import random
        rnd = random.Random(20260926)
        alpha = [b'"', b'\\', b'\r', b'\n', b'\x00', b'\xe9', b'\xc3\xa9', b' ', b'(', b')', b'{', b'}', b'%', b'*', b'[', b']', b'&', b'-',
                 b'a', b'B', b'1', b'=?', b'?=', b';', b'=', b'<', b'>', b'@', b',', b':', b'/', b'\t', b'~', b'+', b'\x7f']
        for _ in range(400):
            h = b''.join(rnd.choice(alpha) for _ in range(rnd.choice((1, 2, 3, 5, 8, 20, 40))))
            yield (rnd.choice(('mailbox', 'keyword', 'id', 'section', 'junk')), h)
            yield ('header', rnd.choice(HEADER_FIELDS), h)
            yield ('message', 'seeded-structured', rnd.choice(structured(h)))
        for _ in range(200):
            a, b = (b''.join(rnd.choice(alpha) for _ in range(rnd.choice((2, 5, 12)))) for _ in range(2))
            yield ('message', 'two-headers', b'Subject: ' + a + b'\r\nFrom: ' + b + b'\r\nContent-Type: text/plain; name="' + a.replace(b'"', b'') + b'"\r\n\r\n' + b + b'\r\n')


def exception_site(exc):
    """ExcClass in <innermost pymap frame file>:<function> (or the innermost frame at all)"""
    import traceback
    frames = traceback.extract_tb(exc.__traceback__)
    pick = None
    for fr in frames:
        if '/pymap/' in fr.filename:
            pick = fr
    pick = pick or (frames[-1] if frames else None)
    where = f'{pick.filename.split("/pymap/")[-1] if "/pymap/" in pick.filename else pick.filename.split("/")[-1]}:{pick.name}' if pick else '?'
    return f'{type(exc).__name__} in {where}'


async def scenario(sc):
    kind = sc[0]
    w = await World().start()
    conns = []
    state = dict(c=await w.client('c'), reselect=None, n=0)
    conns.append(state['c'])
    appended = []

    async def do(line, literals=(), tag=None):
        c = state['c']
        r = await c.cmd(line, literals, tag=tag)
        if line.upper().startswith((b'SELECT ', b'EXAMINE ')) and r['tagged'] and b' OK' in r['tagged'][:12]:
            state['reselect'] = line
        if r['closed'] and not line.upper().startswith(b'LOGOUT'):
            # the server ended the connection: go on with a new one so later commands are still exercised
            state['n'] += 1
            state['c'] = await w.client('c%d' % state['n'])
            conns.append(state['c'])
            if state['reselect']:
                await state['c'].cmd(state['reselect'])
        return r
    if kind == 'mailbox':
        h = sc[1]
        await do(b'CREATE ' + lit(h))
        await do(b'CREATE ' + lit(h + b'/sub'))
        await do(b'SUBSCRIBE ' + lit(h))
        await do(b'LIST "" *')
        await do(b'LIST "" %')
        await do(b'LIST ' + lit(h) + b' *')
        await do(b'LIST "" ' + lit(h))
        await do(b'LSUB "" *')
        await do(b'STATUS ' + lit(h) + b' (MESSAGES RECENT UIDNEXT UIDVALIDITY UNSEEN)')
        await do(b'APPEND ' + lit(h) + b' {1+}\r\nx')
        await do(b'SELECT ' + lit(h))
        await do(b'COPY 1 ' + lit(h))
        await do(b'RENAME ' + lit(h) + b' ' + lit(b'r' + h))
        await do(b'LIST "" *')
        await do(b'DELETE ' + lit(b'r' + h))
        await do(b'EXAMINE ' + lit(h + b'/missing'))
        if b'"' not in h and b'\\' not in h and b'\r' not in h and b'\n' not in h and b'\x00' not in h:
            await do(b'CREATE "q' + h + b'"')
            await do(b'LIST "" "q*"')
    elif kind == 'keyword':
        h = sc[1]
        await do(b'SELECT INBOX')
        await do(b'STORE 1 +FLAGS (' + h + b')')
        await do(b'STORE 1 +FLAGS ' + h)
        await do(b'STORE 2 FLAGS (\\' + h + b')')
        await do(b'APPEND INBOX (' + h + b') {1+}\r\nx')
        await do(b'FETCH 1:* FLAGS')
        await do(b'SEARCH KEYWORD ' + h)
        await do(b'CLOSE')
        await do(b'SELECT INBOX')
    elif kind == 'id':
        h = sc[1]
        await do(b'ID ("name" ' + lit(h) + b')')
        await do(b'ID (' + lit(h) + b' "v")')
        await do(b'ID ("name" ' + lit(h) + b' ' + lit(h) + b' NIL)')
        await do(b'ID NIL')
    elif kind == 'section':
        h = sc[1]
        await do(b'SELECT INBOX')
        await do(b'FETCH 1 BODY.PEEK[HEADER.FIELDS (' + lit(h) + b')]')
        await do(b'FETCH 1 BODY.PEEK[HEADER.FIELDS.NOT (' + lit(h) + b' Subject)]')
        await do(b'FETCH 1 (BODY.PEEK[HEADER.FIELDS (To ' + lit(h) + b')]<0.5> UID)')
        if b'"' not in h and b'\\' not in h and b'\r' not in h and b'\n' not in h and b'\x00' not in h:
            await do(b'FETCH 1 BODY.PEEK[HEADER.FIELDS ("' + h + b'")]')
        await do(b'FETCH 1 BODY.PEEK[1.HEADER.FIELDS (' + lit(h) + b')]')
    elif kind == 'junk':
        h = sc[1]
        await do(b'SELECT INBOX')
        await do(h)
        await do(h + b' arg')
        await do(b'SEARCH CHARSET ' + lit(h) + b' ALL')
        await do(b'SEARCH CHARSET ' + h + b' ALL')
        await do(b'FETCH 1 ' + h)
        await do(b'STATUS INBOX (' + h + b')')
        await do(b'NOOP ' + h)
        await do(b'LOGIN ' + lit(h) + b' x')
        await do(b'UID ' + h)
        await do(b'NOOP', tag=(h.split(b' ')[0].split(b'\r')[0].split(b'\n')[0] or b't'))
    elif kind == 'header':
        f, h = sc[1], sc[2]
        m = msg_header(f, h)
        appended.append(m)
        await do(b'CREATE Box')
        await do(b'APPEND Box ' + lit(m))
        await do(b'SELECT Box')
        for line in FETCH_ALL:
            await do(line)
        await do(b'FETCH 1:* BODY.PEEK[HEADER.FIELDS (' + f + b')]')
    elif kind == 'message':
        m = sc[2]
        appended.append(m)
        await do(b'CREATE Box')
        await do(b'APPEND Box ' + lit(m))
        await do(b'SELECT Box')
        for line in FETCH_ALL:
            await do(line)
    await state['c'].cmd(b'LOGOUT')
    await w.close()
    errors = []
    nparsed = 0
    eightbit = 0
    got = []
    for c in conns:
        data = bytes(c.writer.buf)
        tags = {r['tag'] for r in c.log}
        if kind == 'junk' or (kind == 'keyword' and b'\n' in sc[1]):
            tags = None      # the value is used as a tag / contains line breaks: which tag the server echoes is not C07's subject
        parsed, errs, eb = parse_stream(data, tags)
        nparsed += len(parsed)
        eightbit += eb
        exc = c.exception()
        for e in errs:
            if exc is not None:
                last = next((r['line'][:50] for r in reversed(c.log) if not r['answered']), b'')
                e = f'the connection was ended by {exception_site(exc)} while answering {last!r}: {e}'
            errors.append(e)
        for r in parsed:
            if r['kind'] == 'fetch':
                for k, v in r['atts']:
                    if isinstance(k, tuple) and k[0] == b'BODY' and k[1] == ([], None) and isinstance(v, (bytes,)):
                        got.append(bytes(v))
    if not errors:
        for m in appended:
            # the full-body literal of the appended message must be exactly what was appended
            if len(m) > 0 and m not in got and m.replace(b'\x00', b'') == m:
                errors.append(f'BODY[] returned {got[0][:60] if got else None!r} (len {len(got[0]) if got else 0}) for an appended '
                              f'message of len {len(m)}')
    sig = (kind, sc[1], nparsed)
    return errors, sig, nparsed, eightbit


async def expunged_scenario(backend):
    """session A has two messages selected; session B expunges them; A, not yet told, fetches every attribute of them.
    Returns (errors, responses parsed): A's complete byte stream must parse, A's connection must survive."""
    if backend == 'dict':
        w = await World().start()
        login = {}
    else:
        from .imapdrv import MaildirWorld
        w = await MaildirWorld(layout=backend).start(users=(('alice', 'apass'),))
        login = dict(user=b'alice', pw=b'apass')
    a = await w.client('a', **login)
    b = await w.client('b', **login)
    await a.cmd(b'CREATE Box')
    for i in range(2):
        m = b'Subject: m%d\r\nFrom: a@b.c\r\nContent-Type: multipart/mixed; boundary=x\r\n\r\n--x\r\n\r\npart\r\n--x--\r\n' % i
        await a.cmd(b'APPEND Box ' + lit(m))
    await a.cmd(b'SELECT Box')
    await b.cmd(b'SELECT Box')
    await b.cmd(b'STORE 1:* +FLAGS.SILENT (\\Deleted)')
    await b.cmd(b'EXPUNGE')
    errors = []
    conns = [a]
    cur = a
    for line in FETCH_ALL + (b'FETCH 1 (UID RFC822.HEADER)', b'FETCH 2 (BODY.PEEK[HEADER.FIELDS (Subject)] BODYSTRUCTURE)', b'UID FETCH 1:* (ENVELOPE)',
                             b'STORE 1 +FLAGS (\\Seen)', b'COPY 1:* Box', b'MOVE 1 Box', b'UID MOVE 1:* Box', b'UID COPY 1:* Box',
                             b'UID STORE 1:* -FLAGS.SILENT (\\Seen)', b'SEARCH ALL', b'UID EXPUNGE 1:*', b'NOOP', b'FETCH 1:* (UID)'):
        r = await cur.cmd(line)
        if r['closed']:
            exc = cur.exception()
            errors.append(f'{backend}: after another session expunged the messages, {line[:60]!r} ended the connection'
                          + (f' with {exception_site(exc)}' if exc else '') + f' (answers so far {b"".join(r["all"])[-60:]!r})')
            cur = await w.client('a%d' % len(conns), **login)
            conns.append(cur)
            await cur.cmd(b'SELECT Box')
    n = 0
    for c in conns:
        parsed, errs, eb = parse_stream(bytes(c.writer.buf), {r['tag'] for r in c.log})
        n += len(parsed)
        errors += [f'{backend}: FETCH of messages expunged by another session: {e}' for e in errs]
    await w.close()
    if hasattr(w, 'cleanup'):
        w.cleanup()
    return errors, n


FIRST_AFTER_EXPUNGE = (b'MOVE 1 Box', b'MOVE 1:* Other', b'UID MOVE 1:* Other', b'COPY 1 Other', b'UID COPY 1:* Other', b'STORE 1 +FLAGS (\\Seen)',
                       b'UID STORE 1:* FLAGS.SILENT (\\Seen)', b'SEARCH ALL', b'UID SEARCH ALL', b'FETCH 1:* (UID FLAGS)', b'UID EXPUNGE 1:*',
                       b'EXPUNGE', b'CLOSE')


async def expunged_first_command_scenario(backend, line):
    """as expunged_scenario, but `line` is the VERY FIRST command of session A after session B's expunge (A has not been told
    in any way): it must be answered and A's connection must survive"""
    if backend == 'dict':
        w = await World().start()
        login = {}
    else:
        from .imapdrv import MaildirWorld
        w = await MaildirWorld(layout=backend).start(users=(('alice', 'apass'),))
        login = dict(user=b'alice', pw=b'apass')
    a = await w.client('a', **login)
    b = await w.client('b', **login)
    await a.cmd(b'CREATE Box')
    await a.cmd(b'CREATE Other')
    for i in range(2):
        await a.cmd(b'APPEND Box ' + lit(b'Subject: m%d\r\n\r\nx\r\n' % i))
    await a.cmd(b'SELECT Box')
    await b.cmd(b'SELECT Box')
    await b.cmd(b'STORE 1:* +FLAGS.SILENT (\\Deleted)')
    await b.cmd(b'EXPUNGE')
    errors = []
    r = await a.cmd(line)
    if r['closed'] or not r['answered']:
        exc = a.exception()
        errors.append(f'{backend}: right after another session expunged the messages, {line!r} ended the connection'
                      + (f' with {exception_site(exc)}' if exc else '') + f' (answers {b"".join(r["all"])[-80:]!r})')
    else:
        parsed, errs, eb = parse_stream(bytes(a.writer.buf), {x['tag'] for x in a.log})
        errors += [f'{backend}: {line!r} right after another session\'s expunge: {e}' for e in errs]
    await w.close()
    if hasattr(w, 'cleanup'):
        w.cleanup()
    return errors


def _worker(sc):
    if sc[0] == 'expunged':
        try:
            errs, n = run(expunged_scenario(sc[1]))
        except Exception as exc:    # noqa
            import traceback
            return sc, [f'harness exception {exc!r} {traceback.format_exc()[-500:]}'], (), 0, 0
        return sc, errs, ('expunged', sc[1], n), n, 0
    try:
        errs, sig, n, eb = run(scenario(sc))
    except Exception as exc:    # noqa
        import traceback
        return sc, [f'harness exception {exc!r} {traceback.format_exc()[-500:]}'], (), 0, 0
    return sc, errs, sig, n, eb


def describe(sc):
    if sc[0] == 'expunged':
        return dict(kind='fetch of messages expunged by another session', backend=sc[1])
    if sc[0] == 'header':
        return dict(kind='header', field=sc[1].decode(), value=repr(sc[2]))
    if sc[0] == 'message':
        return dict(kind='message', which=sc[1], message=repr(sc[2][:300]))
    return dict(kind=sc[0], value=repr(sc[1]))


def bounded_wellformed(label):
    from pyvc.prop import BoundedResult

    def fn(tier, seed):
        res = BoundedResult()
        items = list(scenarios(tier))
        total = 0
        with mp.get_context('fork').Pool(16) as pool:
            for sc, errs, sig, n, eb in pool.imap_unordered(_worker, items, chunksize=8):
                res.evaluations += 1
                res.distinct.add(sig)
                total += n
                for what in errs:
                    kind = ('quoted_strings_are_clean' if 'quoted string' in what else
                            'literal_lengths_are_exact' if 'literal' in what or 'BODY[] returned' in what else
                            'every_response_parses')
                    res.fail(f'{label}/{kind}', describe(sc), [what])
                if errs:
                    pass
                elif len(res.samples) < 2:
                    res.samples.append(dict(describe(sc), responses_parsed=n))
        res.note = f'{total} responses parsed by the independent grammar'
        return res
    return fn
