"""A deterministic schedule explorer for REAL coroutines (used by the bounded stand-ins of C20 / C14 / C16).

The coroutines under test are the real pymap code.  They are driven by hand (`coro.send` / `coro.throw`), so every
interleaving at suspension points -- and a cancellation at any suspension point -- can be enumerated exhaustively
by re-execution under a choice prefix (stateless search).  The only substituted parts are the asyncio primitives the
code awaits, replaced by equivalents that suspend into this scheduler:

  SchedLock    ASSUMED model of asyncio.Lock (3.12): acquire() takes the lock without suspending iff it is free and
               nobody is queued; otherwise queues FIFO and suspends; release() frees it and makes the head waiter
               runnable (no hand-over: the waiter takes the lock when it runs); a cancelled waiter leaves the queue
  sched_sleep  stands for asyncio.sleep(): one suspension
"""
from __future__ import annotations

import contextlib
from asyncio import CancelledError


class _Suspend:
    def __init__(self, reason, obj=None):
        self.reason, self.obj = reason, obj

    def __await__(self):
        yield self


async def sched_yield(reason='yield'):
    await _Suspend(reason)


async def sched_sleep(delay=0, result=None):
    await _Suspend('sleep')
    return result


class SchedLock:
    def __init__(self):
        self._locked = False
        self._waiters = []

    def locked(self):
        return self._locked

    async def acquire(self):
        if not self._locked and not self._waiters:
            self._locked = True
            return True
        me = object()
        self._waiters.append(me)
        try:
            while True:
                await _Suspend('lock', (self, me))
                if not self._locked and self._waiters and self._waiters[0] is me:
                    break
        except BaseException:
            if me in self._waiters:
                self._waiters.remove(me)
            raise
        self._waiters.remove(me)
        self._locked = True
        return True

    def release(self):
        if not self._locked:
            raise RuntimeError('Lock is not acquired.')
        self._locked = False

    async def __aenter__(self):
        await self.acquire()
        return None

    async def __aexit__(self, *exc):
        self.release()


class Task:
    def __init__(self, name, coro):
        self.name, self.coro = name, coro
        self.waiting = None      # the _Suspend it is parked on
        self.done = False
        self.result = None
        self.exc = None
        self.started = False
        self.cancelled = False

    def runnable(self):
        if self.done:
            return False
        w = self.waiting
        if w is None:
            return True
        if w.reason == 'lock':
            lock, me = w.obj
            return (not lock._locked) and lock._waiters and lock._waiters[0] is me
        return True

    def step(self, throw=None):
        try:
            if throw is not None:
                self.waiting = self.coro.throw(throw)
            else:
                self.waiting = self.coro.send(None)
        except StopIteration as s:
            self.done, self.result = True, s.value
        except CancelledError as e:
            self.done, self.exc, self.cancelled = True, e, True
        except BaseException as e:     # noqa
            self.done, self.exc = True, e
        self.started = True


class Run:
    """one execution under a choice prefix"""

    def __init__(self, prefix):
        self.prefix = list(prefix)
        self.trace = []
        self.alternatives = []

    def choose(self, options):
        """options: list of labels; returns the index chosen"""
        pos = len(self.trace)
        if pos < len(self.prefix):
            c = self.prefix[pos]
        else:
            c = 0
            for o in range(1, len(options)):
                self.alternatives.append(self.trace + [o])
        self.trace.append(c)
        return c


def explore(make_tasks, check_step=None, check_end=None, allow_cancel=True, max_runs=200000, max_steps=400):
    """make_tasks() -> (list of (name, coroutine), context) built fresh for every run.
    Scheduling choice at every step: which runnable task to advance -- or (once per run) which suspended task
    to cancel.  Returns dict(runs, violations=[(description, trace)], deadlocks)."""
    work = [[]]
    runs = 0
    violations = []
    distinct = set()
    kinds = {}
    while work:
        prefix = work.pop()
        runs += 1
        if runs > max_runs:
            break
        run = Run(prefix)
        tasks_spec, ctx = make_tasks()
        tasks = [Task(n, c) for n, c in tasks_spec]
        cancelled_one = False
        log = []
        steps = 0
        err = None
        while True:
            steps += 1
            if steps > max_steps:
                err = 'step budget exceeded (livelock?)'
                break
            options = [('run', t) for t in tasks if t.runnable()]
            if allow_cancel and not cancelled_one:
                options += [('cancel', t) for t in tasks if not t.done and t.started and t.waiting is not None]
            if not [o for o in options if o[0] == 'run']:
                if all(t.done for t in tasks):
                    break
                if not any(o[0] == 'cancel' for o in options) or True:
                    pending = [t.name for t in tasks if not t.done]
                    err = f'deadlock: {pending} can never run'
                    break
            kind, t = options[run.choose([f'{k}:{x.name}' for k, x in options])]
            if kind == 'cancel':
                cancelled_one = True
                log.append(f'cancel {t.name}')
                t.step(throw=CancelledError())
            else:
                log.append(t.name)
                t.step()
            if t.done and t.exc is not None and not isinstance(t.exc, CancelledError):
                err = f'task {t.name} raised {t.exc!r}'
                break
            if check_step is not None:
                err = check_step(ctx, tasks)
                if err:
                    break
        if err is None and check_end is not None:
            err = check_end(ctx, tasks)
        for tk in tasks:
            with contextlib.suppress(BaseException):
                tk.coro.close()
        distinct.add(tuple(log))
        if err:
            import re as _re
            kind = _re.sub(r'\d+', '#', err)[:80]
            kinds[kind] = kinds.get(kind, 0) + 1
            if kinds[kind] <= 3:
                violations.append((err, list(log)))
            if sum(kinds.values()) >= 400:
                break
        work.extend(run.alternatives)
    return dict(runs=runs, violations=violations, distinct=len(distinct))
