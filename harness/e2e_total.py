"""Bounded stand-in for C06 (every input is answered: no hang, no internal error, no silent drop), on the real IMAP and
ManageSieve servers (dict backend).

Lines: a grammar-derived seed set (every built-in command with representative arguments), every structured mutation of
each seed (truncation, byte insertion of NUL / 8-bit / CR / quote / paren / brace / backslash / '&' / '*', token
duplication, huge and over-long numbers, deep nesting, literal forms with wrong lengths), and raw lines (random bytes,
long runs), each sent in the not-authenticated, authenticated and selected state.  Continuation requests are answered
with as many bytes as were announced (small announcements) or by dropping the connection (huge ones).

Per line the oracle accepts: a tagged completion for the line's tag, an untagged BAD (unparsable tag), a continuation
request, or BYE followed by the close.  It reports: no output while the connection stays open (hang / silent drop), a BYE
carrying [SERVERBUG] or "internal", a close without BYE (the harness did not send EOF), a server task that ended with an
exception, and a second connection whose NOOP is no longer answered.  Each batch runs in a worker process under a
watchdog, so an event loop that spins is reported as a hang rather than freezing the check.

Messages: hostile message byte strings are appended and then fetched with every FETCH attribute and searched with every
SEARCH key."""
from __future__ import annotations

import asyncio
import multiprocessing as mp
import random
import re

from .imapdrv import World, run
from .e2e_wellformed import shapes, structured, HEADER_FIELDS, msg_header, H
from .e2e_sieve import SieveClient, split_sieve

SEEDS = [
    b'CAPABILITY', b'NOOP', b'LOGOUT', b'ID NIL', b'ID ("name" "x" "version" NIL)', b'STARTTLS', b'LOGIN testuser testpass',
    b'LOGIN "testuser" {8+}\r\ntestpass', b'AUTHENTICATE PLAIN', b'AUTHENTICATE LOGIN', b'AUTHENTICATE X',
    b'SELECT INBOX', b'EXAMINE "Sent"', b'SELECT {5+}\r\nTrash', b'SELECT &AOk-', b'CREATE New/Sub', b'DELETE Sent', b'RENAME Sent Other',
    b'SUBSCRIBE Sent', b'UNSUBSCRIBE Sent', b'LIST "" *', b'LIST "" "%/%"', b'LIST (SUBSCRIBED) "" "*"', b'LSUB "" *',
    b'STATUS INBOX (MESSAGES RECENT UIDNEXT UIDVALIDITY UNSEEN)', b'APPEND INBOX {5+}\r\nA: b\n', b'APPEND INBOX (\\Seen kw) "01-Jan-2020 00:00:00 +0000" {3+}\r\nabc',
    b'APPEND INBOX {3+}\r\nabc (\\Seen) {2+}\r\nhi', b'CHECK', b'CLOSE', b'EXPUNGE', b'UID EXPUNGE 1:*', b'IDLE',
    b'SEARCH ALL', b'SEARCH CHARSET UTF-8 TEXT "x"', b'SEARCH CHARSET X-UNKNOWN ALL', b'SEARCH OR (FROM a TO b) NOT (SUBJECT {1+}\r\nc)',
    b'UID SEARCH 1:* UID 100:* SINCE 1-Jan-2020 BEFORE 31-Dec-2030 ON 5-Feb-2021 SENTSINCE 1-Jan-1999 LARGER 1 SMALLER 100000',
    b'SEARCH HEADER Subject "" KEYWORD x UNKEYWORD y ANSWERED DELETED DRAFT FLAGGED NEW OLD RECENT SEEN UNANSWERED UNDELETED UNDRAFT UNFLAGGED UNSEEN',
    b'SEARCH BCC a BODY b CC c FROM d SUBJECT e TEXT f TO g SENTBEFORE 1-Jan-2020 SENTON 1-Jan-2020',
    b'FETCH 1:* (FLAGS UID INTERNALDATE RFC822.SIZE ENVELOPE BODYSTRUCTURE BODY)', b'FETCH 1 ALL', b'FETCH 1 FAST', b'FETCH 1 FULL',
    b'FETCH * (BODY[] BODY.PEEK[HEADER] BODY[TEXT]<0.10> BODY[1.MIME] BODY[HEADER.FIELDS (A B)] BINARY[1] BINARY.SIZE[1] RFC822 RFC822.HEADER RFC822.TEXT EMAILID THREADID)',
    b'UID FETCH 101:* FLAGS', b'STORE 1 +FLAGS (\\Seen)', b'STORE 1:2 -FLAGS.SILENT \\Deleted', b'UID STORE 101 FLAGS (a b c)',
    b'COPY 1 Sent', b'UID COPY 101:* Trash', b'MOVE 1 Sent', b'UID MOVE 102 Sent', b'UNSELECT', b'ENABLE X', b'NAMESPACE', b'BOGUS arg',
]
INSERTS = [b'\x00', b'\xe9', b'\xff\xfe', b'\r', b'"', b'(', b')', b'{', b'}', b'\\', b'&', b'*', b'%', b' ', b'[', b']', b'<', b'~', b'+', b'{5}',
           b'{0+}\r\n', b'{3+}\r\nab']
SPECIAL = [
    # depths at which parsing still succeeds but evaluation needs more stack; a header name that is not ASCII
    b'a SEARCH CHARSET UTF-8 HEADER {2+}\r\n\xc3\xa9 x', b'a SEARCH HEADER "\xc3\xa9" x',
    *[b'a SEARCH ' + b'OR ALL ' * n + b'ALL' for n in (200, 400, 480, 493, 496, 520, 700)],
    *[b'a SEARCH ' + b'NOT (' * n + b'ALL' + b')' * n for n in (100, 200, 240, 247, 250, 300)],
    *[b'a SEARCH ' + b'(' * n + b'ALL' + b')' * n for n in (100, 200, 300, 400, 480)],
    b'', b' ', b'a', b'* x', b'a ' + b'A' * 60000, b'a LOGIN ' + b'(' * 20000, b'a SEARCH ' + b'NOT ' * 15000 + b'ALL',
    b'a SEARCH ' + b'(' * 5000 + b'ALL' + b')' * 5000, b'a SEARCH ' + b'OR ' * 5000 + b'ALL ' * 5001, b'a FETCH 1 (' + b'(' * 5000,
    b'a SELECT {' + b'9' * 5000 + b'}', b'a SELECT {' + b'9' * 5000 + b'+}', b'a FETCH ' + b'9' * 5000 + b' FLAGS', b'a FETCH 1:' + b'9' * 5000 + b' FLAGS',
    b'a FETCH 1 BODY[' + b'1.' * 5000 + b'1]', b'a FETCH 1 BODY[]<' + b'9' * 5000 + b'.1>', b'a STATUS INBOX (' + b'MESSAGES ' * 5000 + b')',
    b'a LIST "" ' + b'%' * 30000, b'a LIST "" ' + b'*a' * 10000, b'a CREATE ' + b'a/' * 20000, b'a CREATE ' + b'&' * 1000, b'a SELECT &', b'a SELECT &A',
    b'a SELECT &AOk', b'a SELECT "&-&-&"', b'a SELECT &AAAA-', b'a SELECT &2ADYAA-', b'a SELECT &,,,,-', b'a SELECT &AOk-&AOk-', b'a SELECT &====-',
    b'a STORE 1 +FLAGS (' + b'\\Seen ' * 20000 + b')', b'a APPEND INBOX {4294967296}', b'a APPEND INBOX {1000000001+}', b'a APPEND INBOX {18446744073709551616}',
    b'a ID (' + b'"k" "v" ' * 5000 + b')', b'a SEARCH HEADER ' + b'x' * 30000 + b' y', b'a SEARCH SINCE 31-Feb-2020', b'a SEARCH SINCE 1-Jan-0000',
    b'a SEARCH SINCE 1-Jan-99999', b'a SEARCH ON 00-Jan-2020', b'a APPEND INBOX "99-Jan-2020 00:00:00 +0000" {1+}\r\nx',
    b'a APPEND INBOX "01-Jan-2020 25:61:61 +9999" {1+}\r\nx', b'a APPEND INBOX " 1-Jan-2020 00:00:00 +0000" {1+}\r\nx',
    b'a SEARCH TEXT "\xff\xfe"', b'a SEARCH CHARSET US-ASCII TEXT {2+}\r\n\xff\xfe', b'a SEARCH CHARSET UTF-8 SUBJECT {2+}\r\n\xc3\x28',
    b'a SEARCH CHARSET UTF-16 SUBJECT {3+}\r\nabc', b'a SEARCH CHARSET idna TEXT {4+}\r\nxn--', b'a SEARCH CHARSET unicode_escape TEXT {2+}\r\n\\N', b'a SEARCH CHARSET zlib TEXT {1+}\r\nx',
    b'a SEARCH CHARSET hex TEXT "zz"', b'a SEARCH KEYWORD \\Seen', b'a UID', b'a UID BOGUS', b'a UID FETCH', b'UID FETCH 1 FLAGS', b'a  NOOP', b'a\tNOOP', b'a NOOP ',
    b'a LOGIN {3}', b'a LOGIN {0}', b'a LOGIN {3+}', b'a LOGIN ~{3+}\r\nabc x', b'a LOGIN "a\\', b'a LOGIN "a\\b" c', b'a LOGIN "' + b'\\"' * 30000,
    b'+ x', b'+', b'* BYE', b'a+b NOOP', b'{3} NOOP', b'"a" NOOP', b'a]b NOOP', b'a%b NOOP', b'a' * 1000 + b' NOOP', b'\xff NOOP',
    b'a FETCH 1 BODY[HEADER.FIELDS ()]', b'a FETCH 1 BODY[HEADER.FIELDS (' + b'a ' * 10000 + b')]', b'a FETCH 0 FLAGS', b'a FETCH 4294967296 FLAGS', b'a FETCH 1:0 FLAGS',
    b'a STORE 1 FLAGS (\\Recent)', b'a STORE 1 FLAGS (\\*)', b'a COPY 1 ""', b'a SELECT ""', b'a CREATE ""', b'a CREATE /', b'a CREATE INBOX/', b'a RENAME INBOX INBOX',
    b'a THREAD REFERENCES UTF-8 ALL', b'a SORT (DATE) UTF-8 ALL', b'a GETQUOTAROOT INBOX', b'a COMPRESS DEFLATE', b'a XYZZY', b'DONE', b'a DONE',
]

_CONT_LEN = re.compile(rb'\{(\d+)\}$')


def mutations(seed: bytes, rnd: random.Random, tier):
    out = set()
    n = len(seed)
    step = 1 if tier != 'quick' else max(1, n // 12)
    for k in range(0, n + 1, step):
        out.add(seed[:k])
    positions = sorted({0, n} | {rnd.randrange(n + 1) for _ in range(4 if tier == 'quick' else 12)} |
                       {m.start() for m in re.finditer(rb' ', seed)})
    for pos in positions:
        for ins in (INSERTS if tier != 'quick' else rnd.sample(INSERTS, 6)):
            out.add(seed[:pos] + ins + seed[pos:])
    toks = seed.split(b' ')
    for i in range(len(toks)):
        out.add(b' '.join(toks[:i] + toks[i + 1:]))
        out.add(b' '.join(toks[:i] + [toks[i], toks[i]] + toks[i + 1:]))
        out.add(b' '.join(toks[:i] + [toks[i].swapcase()] + toks[i + 1:]))
        out.add(b' '.join(toks[:i] + [b'9' * 30] + toks[i + 1:]))
        out.add(b' '.join(toks[:i] + [b'(' + toks[i] + b')'] + toks[i + 1:]))
        out.add(b' '.join(toks[:i] + [b'"' + toks[i].replace(b'"', b'') + b'"'] + toks[i + 1:]))
        out.add(b' '.join(toks[:i] + [b'{%d+}\r\n' % len(toks[i]) + toks[i]] + toks[i + 1:]))
        out.add(b' '.join(toks[:i] + [b'{%d}' % (len(toks[i]) + 3)] + toks[i + 1:]))
        out.add(b' '.join(toks[:i] + [b'NIL'] + toks[i + 1:]))
    out.add(seed.lower())
    out.add(seed + b' ')
    out.add(seed + b' x')
    out.add(seed.replace(b' ', b'  '))
    out.discard(seed)
    return [seed] + sorted(out)


def raw_lines(rnd, count):
    out = []
    for _ in range(count):
        n = rnd.choice((1, 2, 5, 20, 80, 400))
        kind = rnd.random()
        if kind < 0.4:
            body = bytes(rnd.randrange(256) for _ in range(n))
        elif kind < 0.7:
            body = bytes(rnd.choice(b'aA1 (){}"\\*%&-+[]<>~.,:\x00\x7f\xe9') for _ in range(n))
        else:
            body = b' '.join(rnd.choice(SEEDS).split(b' ')[:rnd.randrange(1, 4)]) + b' ' + bytes(rnd.choice(b'aA1 (){}"\\*') for _ in range(n))
        out.append(body.replace(b'\n', b'?'))      # one line at a time (LF inside {n+} literals is produced by the mutations)
    return out


def pending_literal(line: bytes):
    """number of bytes still owed to the last literal announced in the line (None: no literal is open)"""
    pos = 0
    data = line + b'\r\n'
    owed = None
    while True:
        m = re.compile(rb'\{(\d{1,12})\+?\}\r?\n').search(data, pos)
        if not m:
            return owed
        n = int(m.group(1))
        have = max(0, len(line) - m.end())      # the CRLF that ends the line is not literal content
        if have < n:
            return n - have
        pos = m.end() + n
        owed = None


def tag_of(line: bytes):
    m = re.match(rb'^([^\s(){%*"\\\x00-\x1f\x7f]+)', line)
    return m.group(1) if m else None


def classify(resps, tag):
    """-> 'tagged' | 'bad' | 'cont' | 'bye' | None"""
    for r in resps:
        if tag is not None and r.startswith(tag + b' ') and r.split(b' ')[1:2] and r.split(b' ')[1] in (b'OK', b'NO', b'BAD'):
            return 'tagged'
    for r in resps:
        if r.startswith(b'* BYE'):
            return 'bye'
    for r in resps:
        if r.startswith(b'+'):
            return 'cont'
    for r in resps:
        if re.match(rb'^(\* |\S+ )BAD', r):
            return 'bad'
    return None


async def fresh(w, state, name):
    user, pw = getattr(w, 'default_login', (b'testuser', b'testpass'))
    c = await w.client(name, login=(state != 'nonauth'), user=user, pw=pw)
    if state == 'selected':
        await c.cmd(b'SELECT INBOX')
    return c


async def feed_lines(lines, state, limit_none=True, backend='dict'):
    """returns (errors, per-line outcomes)"""
    errors = []
    over = dict(bad_command_limit=None) if limit_none else {}
    if backend == 'dict':
        w = await World(step_budget=1500, time_budget=4.0).start(**over)
    else:
        from .imapdrv import MaildirWorld
        w = await MaildirWorld(layout=backend, step_budget=1500, time_budget=6.0).start(**over)
        w.default_login = (b'alice', b'apass')
    other = await fresh(w, 'auth', 'other')
    c = await fresh(w, state, 'c0')
    nconn = 0
    outcomes = []
    for line in lines:
        if c.task.done():
            nconn += 1
            c = await fresh(w, state, f'c{nconn}')
        tag = tag_of(line)
        c.take()
        # a line that ends inside a literal is not complete before the announced bytes arrive: supply them at once
        # (small announcements), or drop the connection afterwards (huge ones: nothing to decide without sending them)
        need0 = pending_literal(line)
        payload = line + b'\r\n' + (b'x' * need0 + b'\r\n' if need0 is not None and need0 <= 200000 else b'')
        try:
            c.reader.feed_data(payload)
        except AssertionError:
            nconn += 1
            c = await fresh(w, state, f'c{nconn}')
            c.reader.feed_data(payload)
        if need0 is not None and need0 > 200000:
            for _ in range(50):
                await asyncio.sleep(0)
            c.reader.feed_eof()
            for _ in range(50):
                await asyncio.sleep(0)
            out0 = b''.join(c.take())
            if b'[SERVERBUG]' in out0:
                errors.append((line, f'[{state}] line {line[:80]!r}: internal-error BYE: {out0[-160:]!r}'))
            outcomes.append('huge-literal')
            nconn += 1
            c = await fresh(w, state, f'c{nconn}')
            continue
        verdict = None
        got = []
        sent_eof = False
        rounds = 0
        while True:
            resps, steps, ok = await c.wait_for(lambda r, rest: len(r) > 0 or False)
            got += resps
            verdict = classify(got, tag)
            rounds += 1
            if verdict == 'cont' and rounds < 6:
                # answer the continuation request with what was announced (or give up the connection for huge ones)
                m = _CONT_LEN.search(line.split(b'\r\n')[-1]) or re.search(rb'\{(\d+)\}', line)
                ln = int(m.group(1)) if m and len(m.group(1)) < 8 else None
                if got[-1].startswith(b'+') and (b'AUTHENTICATE' in line.upper() or b'IDLE' in line.upper()):
                    data = b'*\r\n' if b'AUTH' in line.upper() else b'DONE\r\n'
                elif ln is not None and ln <= 200000:
                    data = b'x' * ln + b'\r\n'
                else:
                    sent_eof = True
                    c.reader.feed_eof()
                    break
                got = [g for g in got if not g.startswith(b'+')]
                try:
                    c.reader.feed_data(data)
                except AssertionError:
                    break
                continue
            break
        if c.task.done():
            # let the close happen
            await asyncio.sleep(0)
        if verdict is None and not c.task.done():
            # nothing yet: the line may end inside a literal ({n+} announced more bytes than the line carries) -- the
            # command line is not complete before they arrive.  Supply them (small announcements only) and wait again.
            need = pending_literal(line)
            if need is not None and need <= 200000:
                try:
                    c.reader.feed_data(b'x' * need + b'\r\n')
                    resps, steps, ok = await c.wait_for(lambda r, rest: len(r) > 0)
                    got += resps
                    verdict = classify(got, tag)
                    if verdict == 'cont':
                        verdict = 'cont'
                except AssertionError:
                    pass
            elif need is not None:
                sent_eof = True         # a huge announced literal: nothing to decide without sending it
                c.reader.feed_eof()
                verdict = 'cont'
        closed = c.task.done()
        exc = c.exception()
        allout = b''.join(got)
        where = f'[{state}] line {line[:80]!r}{"..." if len(line) > 80 else ""} (len {len(line)})'
        if b'[SERVERBUG]' in allout or re.search(rb'\* BYE[^\r]*[Ii]nternal', allout):
            errors.append((line, f'{where}: internal-error BYE: {allout[-160:]!r}' + (f' after {exc!r}' if exc else '')))
        elif exc is not None and not isinstance(exc, (ConnectionError, asyncio.IncompleteReadError)) and not sent_eof:
            errors.append((line, f'{where}: the connection task ended with {exc!r:.200} (answers so far: {allout[-120:]!r})'))
        elif closed and not sent_eof and verdict != 'bye' and b'* BYE' not in allout:
            errors.append((line, f'{where}: the connection was closed without BYE (answers: {allout[-160:]!r})'))
        elif verdict is None and not closed:
            errors.append((line, f'{where}: no tagged completion, continuation request or BYE within the step budget (connection '
                                 f'still open: hang or silent drop); output {allout[-120:]!r}'))
        outcomes.append(verdict)
        if not closed and verdict in (None, 'cont'):
            # unknown parser state on that connection: use a new one
            c.reader.feed_eof()
            nconn += 1
            c = await fresh(w, state, f'c{nconn}')
        # the other connection must still be served
        r = await other.cmd(b'NOOP')
        if not r['answered']:
            errors.append((line, f'{where}: afterwards another connection\'s NOOP is not answered any more'))
            break
    await w.close()
    if hasattr(w, 'cleanup'):
        w.cleanup()
    return errors, outcomes


def _lines_worker(args):
    state, lines = args[0], args[1]
    try:
        return args, run(feed_lines(lines, state, limit_none=(len(args) < 4 or args[3]), backend=args[2] if len(args) > 2 else 'dict')), None
    except Exception as exc:    # noqa
        import traceback
        return args, None, f'harness exception {exc!r} {traceback.format_exc()[-600:]}'


# ---------------------------------------------------------------------------------------------- messages

FETCH_LINES = [
    b'FETCH 1:* (FLAGS UID INTERNALDATE RFC822.SIZE ENVELOPE)', b'FETCH 1:* (BODYSTRUCTURE BODY)', b'FETCH 1:* (EMAILID THREADID)',
    b'FETCH 1:* (BODY.PEEK[] BODY.PEEK[HEADER] BODY.PEEK[TEXT] RFC822 RFC822.HEADER RFC822.TEXT)',
    b'FETCH 1:* (BODY.PEEK[1] BODY.PEEK[1.MIME] BODY.PEEK[1.1] BODY.PEEK[2.HEADER] BODY.PEEK[1.TEXT] BODY.PEEK[3])',
    b'FETCH 1:* (BODY.PEEK[HEADER.FIELDS (Subject From Date)] BODY.PEEK[HEADER.FIELDS.NOT (To)] BODY.PEEK[]<5.20>)',
    b'FETCH 1:* (BINARY.SIZE[1])', b'FETCH 1:* (BINARY.PEEK[1])', b'FETCH 1:* (BINARY.PEEK[] BINARY.PEEK[1.1] BINARY.PEEK[2])',
]
SEARCH_LINES = [b'SEARCH ' + k for k in (
    b'ALL', b'ANSWERED', b'BCC a', b'BEFORE 1-Jan-2030', b'BODY a', b'CC a', b'DELETED', b'DRAFT', b'FLAGGED', b'FROM a', b'HEADER Subject a',
    b'HEADER X-H ""', b'KEYWORD a', b'LARGER 10', b'NEW', b'NOT ALL', b'OLD', b'ON 1-Jan-2020', b'OR ALL SEEN', b'RECENT', b'SEEN',
    b'SENTBEFORE 1-Jan-2030', b'SENTON 1-Jan-2020', b'SENTSINCE 1-Jan-1990', b'SINCE 1-Jan-1990', b'SMALLER 10', b'SUBJECT a', b'TEXT a', b'TO a',
    b'UID 1:*', b'UNANSWERED', b'UNDELETED', b'UNDRAFT', b'UNFLAGGED', b'UNKEYWORD a', b'UNSEEN', b'1:*', b'CHARSET UTF-8 TEXT {2+}\r\n\xc3\xa9',
    b'SUBJECT "=?utf-8?q?a?="', b'FROM "@"', b'TEXT "\r"' if False else b'TEXT "x y"')]


def messages(tier):
    out = []
    for k, m in enumerate(shapes()):
        out.append((f'shape{k}', m))
    hs = H if tier != 'quick' else H[::2]
    for h in hs:
        for f in (b'Date', b'From', b'Sender', b'To', b'Subject', b'Message-Id', b'In-Reply-To', b'References', b'Content-Type',
                  b'Content-Transfer-Encoding', b'Content-Disposition'):
            out.append((f'{f.decode()}:{h[:12]!r}', msg_header(f, h)))
        for k, m in enumerate(structured(h)):
            if tier != 'quick' or k % 3 == 0:
                out.append((f'structured{k}:{h[:12]!r}', m))
    # threading: reference chains and loops
    out.append(('refs-loop', b'Message-Id: <a@x>\r\nReferences: <a@x> <b@x> <a@x>\r\nIn-Reply-To: <a@x>\r\n\r\nx'))
    out.append(('refs-long', b'Message-Id: <z@x>\r\nReferences: ' + b' '.join(b'<%d@x>' % i for i in range(3000)) + b'\r\n\r\nx'))
    out.append(('date-variants', b'Date: Thu, 32 Foo 20200 99:99:99 +9999\r\n\r\nx'))
    out.append(('date-tz', b'Date: 1 Jan 2020 00:00:00 -0000\r\n\r\nx'))
    for n in (300, 900, 1200, 5000):
        out.append((f'subject-re-x{n}', b'Subject: ' + b're: ' * n + b'x\r\n\r\nx'))
        out.append((f'subject-tags-x{n}', b'Subject: ' + b'[t] fwd: ' * n + b'x\r\n\r\nx'))
    out.append(('huge-header', b'Subject: ' + b'x' * 200000 + b'\r\n\r\nx'))
    out.append(('many-headers', b''.join(b'X-%d: v\r\n' % i for i in range(5000)) + b'\r\nx'))
    out.append(('deep-multipart', _deep(60)))
    out.append(('deeper-multipart', _deep(400)))
    out.append(('deepest-multipart', _deep(3000)))
    rfc = b'Subject: leaf\r\n\r\nleaf\r\n'
    for i in range(400):
        rfc = b'Content-Type: message/rfc822\r\n\r\n' + rfc
    out.append(('deep-rfc822', rfc))
    return out


def _deep(d):
    body = b'Content-Type: text/plain\r\n\r\nleaf\r\n'
    for i in range(d):
        b_ = b'b%d' % i
        body = b'Content-Type: multipart/mixed; boundary="' + b_ + b'"\r\n\r\n--' + b_ + b'\r\n' + body + b'\r\n--' + b_ + b'--\r\n'
    return body


async def message_scenario(name, msg):
    errors = []
    w = await World(step_budget=3000, time_budget=6.0).start()
    c = await w.client('c')
    await c.cmd(b'CREATE Box')

    async def do(line):
        nonlocal c
        r = await c.cmd(line)
        allout = b''.join(r['all'])
        where = f'message {name} {msg[:60]!r}: {line[:60]!r}'
        exc = c.exception()
        if b'[SERVERBUG]' in allout:
            errors.append(f'{where}: internal-error BYE {allout[-120:]!r}' + (f' after {_site(exc)}' if exc else ''))
        elif exc is not None:
            errors.append(f'{where}: the connection task ended with {_site(exc)} (no BYE; answers so far {allout[-80:]!r})')
        elif not r['answered']:
            errors.append(f'{where}: no tagged completion (closed={r["closed"]})')
        if r['closed']:
            c = await w.client('c%d' % len(errors))
            await c.cmd(b'SELECT Box')
        return r
    await do(b'APPEND Box {%d+}\r\n' % len(msg) + msg)
    await do(b'SELECT Box')
    for line in FETCH_LINES + SEARCH_LINES:
        await do(line)
    await do(b'COPY 1:* Box')
    await do(b'FETCH 1:* (ENVELOPE BODYSTRUCTURE)')
    await w.close()
    return errors


def _site(exc):
    from .e2e_wellformed import exception_site
    return exception_site(exc)


def _msg_worker(args):
    name, msg = args
    try:
        return args, run(message_scenario(name, msg))
    except Exception as exc:    # noqa
        import traceback
        return args, [f'harness exception {exc!r} {traceback.format_exc()[-500:]}']


# ---------------------------------------------------------------------------------------------- header values (unit level)

ADDR_TOKENS = [b'a', b'@', b'[', b']', b'<', b'>', b'"', b'(', b',', b';', b':', b'.', b' ', b'\r\n ']
OTHER_TOKENS = ADDR_TOKENS + [b')', b'\\', b'=?', b'?=', b'=', b'/', b'*', b"'", b'%', b'\xe9']
ADDR_FIELDS = (b'From', b'To', b'Sender', b'Reply-To')
OTHER_FIELDS = (b'Date', b'Content-Type', b'Content-Disposition', b'Message-Id', b'Subject', b'Content-Transfer-Encoding',
                b'Content-Language', b'References')


def render_everything(msg: bytes):
    """what FETCH ENVELOPE / BODYSTRUCTURE / BODY and the header-based SEARCH keys compute for a stored message, called
    directly on the real classes; returns the escaped exception or None"""
    from pymap.mime import MessageContent
    from pymap.message import BaseLoadedMessage
    try:
        content = MessageContent.parse(msg)
        bytes(BaseLoadedMessage._get_envelope_structure(content))
        bs = BaseLoadedMessage._get_body_structure(content)
        bytes(bs)
        bytes(bs.extended)
        parsed = content.header.parsed
        for prop in ('content_type', 'date', 'subject', 'from_', 'sender', 'reply_to', 'to', 'cc', 'bcc', 'in_reply_to', 'references',
                     'message_id', 'content_disposition', 'content_language', 'content_location', 'content_id',
                     'content_description', 'content_transfer_encoding'):
            v = getattr(parsed, prop)
            str(v)
        for name in list(parsed):
            [str(h) for h in parsed[name]]
    except Exception as exc:    # noqa
        return exc
    return None


def _header_worker(args):
    import sys
    sys.setrecursionlimit(1000)         # as in a production process (the check process raises it for the engine)
    field, values = args
    out = []
    for v in values:
        msg = b'X-Before: 1\r\n' + field + b': ' + v + b'\r\nX-After: 1\r\n\r\nbody\r\n'
        exc = render_everything(msg)
        if exc is not None:
            out.append((field, v, f'{_site(exc)}: {exc!r:.120}'))
    return len(values), out


def header_values(tokens, maxlen):
    import itertools
    for n in range(0, maxlen + 1):
        for t in itertools.product(tokens, repeat=n):
            yield b''.join(t)


# ---------------------------------------------------------------------------------------------- ManageSieve

SIEVE_SEEDS = [b'CAPABILITY', b'NOOP', b'NOOP "tag"', b'LOGOUT', b'STARTTLS', b'AUTHENTICATE "PLAIN"', b'AUTHENTICATE "PLAIN" "AHRlc3R1c2VyAHRlc3RwYXNz"',
               b'AUTHENTICATE "PLAIN" {24+}\r\nAHRlc3R1c2VyAHRlc3RwYXNz', b'AUTHENTICATE "X"', b'UNAUTHENTICATE', b'HAVESPACE "a" 10', b'PUTSCRIPT "a" {5+}\r\nkeep;',
               b'PUTSCRIPT "a" "keep;"', b'LISTSCRIPTS', b'SETACTIVE "a"', b'SETACTIVE ""', b'GETSCRIPT "a"', b'DELETESCRIPT "a"', b'RENAMESCRIPT "a" "b"',
               b'CHECKSCRIPT {5+}\r\nkeep;', b'CHECKSCRIPT "if"', b'BOGUS']
SIEVE_SPECIAL = [b'', b' ', b'"', b'{', b'{5}', b'{5+}', b'{99999999999+}', b'{' + b'9' * 5000 + b'+}', b'PUTSCRIPT "a" {' + b'9' * 5000 + b'+}', b'PUTSCRIPT {3}',
                 b'AUTHENTICATE "PLAIN" "!!!"', b'AUTHENTICATE "PLAIN" "A"', b'AUTHENTICATE "PLAIN" "//4A/wD/"', b'AUTHENTICATE "PLAIN" ""',
                 b'AUTHENTICATE "PLAIN" "' + b'A' * 60000 + b'"', b'AUTHENTICATE PLAIN', b'AUTHENTICATE', b'AUTHENTICATE "LOGIN"', b'HAVESPACE "a" ' + b'9' * 5000,
                 b'HAVESPACE "a" -1', b'PUTSCRIPT "' + b'a' * 60000 + b'" "x"', b'PUTSCRIPT "\xff" "x"', b'PUTSCRIPT "a\x00b" "x"', b'PUTSCRIPT "a" "\xff\xfe"',
                 b'GETSCRIPT "\\"', b'GETSCRIPT "a" "b" "c"', b'NOOP ' + b'"' + b'x' * 60000 + b'"', b'\xff\xfe', b'A' * 60000]


async def sieve_lines(lines, authed):
    errors = []
    w = await World(step_budget=1500, time_budget=4.0).start()
    sc = None
    for line in lines:
        if sc is None or sc.task.done():
            sc = SieveClient(w, 's')
            await sc.response()
            if authed:
                await sc.auth(b'testuser', b'testpass')
        before = len(sc.writer.buf)
        try:
            sc.reader.feed_data(line + b'\r\n')
        except AssertionError:
            sc = None
            continue
        last, allr = await sc.response(budget=1500)
        rounds = 0
        while last is None and not sc.task.done() and rounds < 3:
            # a synchronising literal or a SASL challenge may be pending: answer it
            rounds += 1
            need = pending_literal(line)
            if need is not None and need <= 200000:
                sc.reader.feed_data(b'x' * need + b'\r\n')
            elif need is not None:
                break
            else:
                sc.reader.feed_data(b'"*"\r\n')
            last, allr = await sc.response(budget=1500)
        await asyncio.sleep(0)
        out = bytes(sc.writer.buf[before:])
        exc = sc.task.exception() if sc.task.done() and not sc.task.cancelled() else None
        where = f'[managesieve {"authenticated" if authed else "not authenticated"}] line {line[:80]!r} (len {len(line)})'
        if exc is not None and not isinstance(exc, ConnectionError):
            errors.append((line, f'{where}: the connection task ended with {_site(exc)} (output {out[-100:]!r})'))
        elif sc.task.done() and b'BYE' not in out and not line.upper().startswith(b'LOGOUT'):
            errors.append((line, f'{where}: the connection was closed without BYE (output {out[-100:]!r})'))
        elif last is None and not sc.task.done() and pending_literal(line) is not None and pending_literal(line) > 200000:
            sc.reader.feed_eof()
            sc = None
        elif last is None and not sc.task.done():
            errors.append((line, f'{where}: no OK/NO/BYE within the step budget (hang or silent drop); output {out[-100:]!r}'))
            sc.reader.feed_eof()
            sc = None
        elif re.search(rb'[Ii]nternal|Unhandled|Traceback', out):
            errors.append((line, f'{where}: internal error reported: {out[-160:]!r}'))
    await w.close()
    return errors


def _sieve_worker(args):
    authed, lines = args
    try:
        return args, run(sieve_lines(lines, authed)), None
    except Exception as exc:    # noqa
        import traceback
        return args, None, f'harness exception {exc!r} {traceback.format_exc()[-500:]}'


# ---------------------------------------------------------------------------------------------- driver

def _with_watchdog(pool_fn, items, worker, timeout_each, on_result, on_hang):
    """apply_async every item; an item that does not come back within its timeout is reported as a hang"""
    ctx = mp.get_context('fork')
    with ctx.Pool(16, maxtasksperchild=8) as pool:
        asyncs = [(it, pool.apply_async(worker, (it,))) for it in items]
        for it, a in asyncs:
            try:
                on_result(a.get(timeout=timeout_each))
            except mp.TimeoutError:
                on_hang(it)
        pool.terminate()


def kind_of(e: str):
    if 'internal-error BYE' in e or 'internal error' in e:
        return 'no_internal_error_bye'
    if 'ended with' in e:
        return 'no_internal_error_bye' if False else 'connection_task_never_dies_of_an_exception'
    if 'closed without BYE' in e:
        return 'never_closes_without_bye'
    if 'another connection' in e or 'watchdog' in e:
        return 'other_connections_keep_being_served'
    return 'every_line_is_answered'


LITERAL_TAILS = [b'{0+}', b'{3+}', b'see section {12+}', b'{0+}\r', b'{5}', b'+}', b'{1+}\n', b'{+}', b'a {2+}\r\n', b'{0+}\r\n',
                 b'{99999999999999999999999+}', b'\r\n{0+}']


async def literal_tail_scenario(tail: bytes):
    """the DATA of a non-synchronising literal ends like a literal announcement itself: the literal is opaque, so the
    command ends with the line break after its n octets, the next command is a command of its own, and what is stored is
    the data"""
    errors = []
    w = await World().start()
    c = await w.client('c')
    data = b'Subject: x\r\n\r\nbody ' + tail
    r = await c.cmd(b'APPEND INBOX {%d+}\r\n' % len(data) + data)
    if not r['answered'] or b' OK' not in r['tagged'][:12]:
        errors.append(f'APPEND of a {len(data)}-octet literal+ whose data ends with {tail!r}: answered {r["tagged"]!r} '
                      f'(the server goes on reading: the tail of the literal was taken for another literal announcement)')
    for line in (b'NOOP', b'SELECT INBOX'):
        r = await c.cmd(line)
        if not r['answered']:
            errors.append(f'after that APPEND (data ending with {tail!r}) the command {line!r} is never answered (silently swallowed)')
    r = await c.cmd(b'FETCH * (BODY.PEEK[])')
    if r['answered'] and not errors:
        resp = b''.join(u for u in r['untagged'] if b' FETCH ' in u[:24])
        m = re.search(rb'BODY\[\] \{(\d+)\}\r\n', resp)
        got = resp[m.end():m.end() + int(m.group(1))] if m else None
        if got != data:
            errors.append(f'the literal+ with data ending in {tail!r} was stored as {got!r:.80}')
    await w.close()
    if c.exception() is not None:
        errors.append(f'connection ended by {c.exception()!r}')
    return errors


async def sieve_literal_tail_scenario(tail: bytes):
    """ManageSieve: a script sent as a non-synchronising literal whose text ends like a literal announcement"""
    errors = []
    w = await World(step_budget=1500, time_budget=4.0).start()
    sc = SieveClient(w, 's')
    await sc.response()
    await sc.auth(b'testuser', b'testpass')
    script = b'# a comment ' + tail
    last = await sc.cmd(b'PUTSCRIPT "t" {%d+}\r\n' % len(script) + script)
    if last is None:
        errors.append(f'PUTSCRIPT of a {len(script)}-octet literal+ whose text ends with {tail!r} is not answered (the server goes on '
                      f'reading: the tail of the literal was taken for another literal announcement)')
    for line in (b'NOOP', b'LISTSCRIPTS'):
        last = await sc.cmd(line)
        if last is None:
            errors.append(f'after that PUTSCRIPT (text ending with {tail!r}) the command {line!r} is never answered')
    await w.close()
    return errors


def bounded_total(label):
    from pyvc.prop import BoundedResult

    def fn(tier, seed):
        rnd = random.Random(seed)
        res = BoundedResult()
        res.exhaustive = False
        lines = []
        for s in SEEDS:
            for m in mutations(s, rnd, tier):
                t = rnd.choice((b'a', b'A1', b't.2'))
                lines.append(t + b' ' + m)
        lines += SPECIAL
        lines += raw_lines(rnd, 300 if tier == 'quick' else 4000)
        lines = [ln for ln in lines if len(ln) < 65000]
        # batches of 40 lines per world, per state
        batches = []
        for state in ('nonauth', 'auth', 'selected'):
            ls = list(lines)
            rnd.shuffle(ls)
            for i in range(0, len(ls), 40):
                batches.append((state, ls[i:i + 40]))

        # the default bad-command limit: runs of unparsable lines must end with BYE, then the close
        for state in ('nonauth', 'selected'):
            for k in range(3):
                batches.append((state, [rnd.choice(lines) for _ in range(30)], 'dict', False))
        # the maildir backend (thread pool, real directories): unmutated commands, hostile names, long names
        names = [b'a' * 300, b'a/' * 200 + b'x', b'new', b'cur', b'tmp', b'new/cur', b'.', b'..', b'a/../b', b'\xe9', b'&AOk-', b'a\x00b', b'INBOX/x',
                 b'a' * 4000, b'%', b'*', b'x y', b'"q"']
        mlines = [b'a ' + s_ for s_ in SEEDS]
        for nm in names:
            q = b'{%d+}\r\n' % len(nm) + nm
            mlines += [b'a CREATE ' + q, b'a SELECT ' + q, b'a STATUS ' + q + b' (MESSAGES)', b'a APPEND ' + q + b' {1+}\r\nx', b'a RENAME ' + q + b' other',
                       b'a RENAME Sent ' + q, b'a SUBSCRIBE ' + q, b'a LIST "" ' + q, b'a COPY 1 ' + q, b'a DELETE ' + q]
        # names of the files the store keeps next to the folders (fs layout: a sub-folder is a directory inside its parent's
        # maildir directory): creating them must not get in the way of anything that follows
        for ctl in (b'subscriptions', b'subscriptions.lock', b'dovecot-uidlist', b'dovecot-uidlist.lock', b'dovecot-keywords',
                    b'dovecot.sieve', b'maildirfolder'):
            for layout in ('++', 'fs'):
                batches.append(('auth', [b'a CREATE ' + ctl, b'a SUBSCRIBE INBOX', b'a LSUB "" *', b'a SELECT INBOX', b'a NOOP',
                                         b'a APPEND INBOX {1+}\r\nx', b'a STATUS INBOX (MESSAGES)', b'a CREATE Sub', b'a CREATE Sub/' + ctl,
                                         b'a SELECT Sub', b'a APPEND Sub {1+}\r\nx', b'a STORE 1 +FLAGS (kw)', b'a SUBSCRIBE Sub',
                                         b'a DELETE ' + ctl, b'a LIST "" *'], layout))
        for layout in ('++', 'fs'):
            for state in ('auth', 'selected'):
                ls = list(mlines)
                rnd.shuffle(ls)
                for i in range(0, len(ls), 60):
                    batches.append((state, ls[i:i + 60], layout))

        def on_lines(r):
            args, out, err = r
            if err:
                res.fail(f'{label}/every_line_is_answered', dict(state=args[0], lines=len(args[1])), [err])
                return
            errors, outcomes = out
            res.evaluations += len(args[1])
            for ln, oc in zip(args[1], outcomes):
                res.distinct.add((args[0], oc, ln[:24]))
            for ln, e in errors:
                res.fail(f'{label}/{kind_of(e)}', dict(state=args[0], backend=(args[2] if len(args) > 2 else 'dict'), line=repr(ln[:300]),
                                                       length=len(ln)), [e])

        def on_hang(it):
            res.fail(f'{label}/other_connections_keep_being_served', dict(state=it[0], lines=[repr(x[:120]) for x in it[1]][:40]),
                     ['watchdog: the batch did not finish within its time limit: some line makes the event loop spin or block'])
        _with_watchdog(None, batches, _lines_worker, 240, on_lines, on_hang)

        def on_msg(r):
            args, errs = r
            res.evaluations += 1
            res.distinct.add(('msg', args[0]))
            for e in errs:
                res.fail(f'{label}/{kind_of(e)}', dict(message=args[0], bytes=repr(args[1][:200])), [e])
        _with_watchdog(None, messages(tier), _msg_worker, 120, on_msg,
                       lambda it: res.fail(f'{label}/other_connections_keep_being_served', dict(message=it[0], bytes=repr(it[1][:200])),
                                           ['watchdog: FETCH/SEARCH of this message did not finish']))
        # literal data that ends like a literal announcement
        for tail in LITERAL_TAILS:
            try:
                errs = run(literal_tail_scenario(tail))
            except Exception as exc:    # noqa
                errs = [f'harness exception {exc!r}']
            res.evaluations += 1
            res.distinct.add(('literal-tail', tail))
            for e in errs[:1]:
                res.fail(f'{label}/every_line_is_answered', dict(scenario='literal+ data ending like a literal announcement', tail=repr(tail)), [e])
        for tail in LITERAL_TAILS:
            try:
                errs = run(sieve_literal_tail_scenario(tail))
            except Exception as exc:    # noqa
                errs = [f'harness exception {exc!r}']
            res.evaluations += 1
            res.distinct.add(('sieve-literal-tail', tail))
            for e in errs[:1]:
                res.fail(f'{label}/every_line_is_answered', dict(scenario='managesieve literal+ text ending like a literal announcement',
                                                                  tail=repr(tail)), [e])
        # messages expunged by another session, fetched by a session that has not been told yet (dict and maildir)
        from .e2e_wellformed import expunged_scenario, expunged_first_command_scenario, FIRST_AFTER_EXPUNGE
        for backend in ('dict', '++'):
            for line in FIRST_AFTER_EXPUNGE:
                try:
                    errs = run(expunged_first_command_scenario(backend, line))
                except Exception as exc:    # noqa
                    errs = [f'harness exception {exc!r}']
                res.evaluations += 1
                res.distinct.add(('first-after-expunge', backend, line))
                for e in errs[:1]:
                    res.fail(f'{label}/connection_task_never_dies_of_an_exception',
                             dict(scenario='first command after another session expunged the messages', backend=backend, line=line.decode()), [e])
        for backend in ('dict', '++', 'fs'):
            try:
                errs, n = run(expunged_scenario(backend))
            except Exception as exc:    # noqa
                errs, n = [f'harness exception {exc!r}'], 0
            res.evaluations += 1
            for e in errs:
                if 'ended the connection' in e or 'harness exception' in e:
                    res.fail(f'{label}/connection_task_never_dies_of_an_exception', dict(scenario='fetch of expunged messages', backend=backend), [e])
        # header values rendered directly through the real ENVELOPE / BODYSTRUCTURE / parsed-header code
        hitems = []
        for f in ADDR_FIELDS:
            vals = list(header_values(ADDR_TOKENS, 4 if tier == 'quick' else 5))
            for i in range(0, len(vals), 4000):
                hitems.append((f, vals[i:i + 4000]))
        for f in OTHER_FIELDS:
            vals = list(header_values(OTHER_TOKENS, 3 if tier == 'quick' else 4))
            for i in range(0, len(vals), 4000):
                hitems.append((f, vals[i:i + 4000]))

        def on_hdr(r):
            n, bad = r
            res.evaluations += n
            for field, v, what in bad:
                res.fail(f'{label}/connection_task_never_dies_of_an_exception',
                         dict(header=field.decode(), value=repr(v), how='rendered directly (ENVELOPE/BODYSTRUCTURE/parsed headers)'),
                         [f'a stored message with the header {field.decode()}: {v!r} makes FETCH ENVELOPE/BODYSTRUCTURE or a header SEARCH '
                          f'key raise {what} (escapes while the response is written / as BYE [SERVERBUG])'])
        _with_watchdog(None, hitems, _header_worker, 600, on_hdr,
                       lambda it: res.fail(f'{label}/other_connections_keep_being_served', dict(header=it[0].decode()),
                                           ['watchdog: rendering the header values did not finish']))
        slines = []
        for s in SIEVE_SEEDS:
            slines += mutations(s, rnd, 'quick')
        slines += SIEVE_SPECIAL
        slines = [ln for ln in slines if len(ln) < 65000]
        sbatches = []
        for authed in (False, True):
            ls = list(slines)
            rnd.shuffle(ls)
            for i in range(0, len(ls), 40):
                sbatches.append((authed, ls[i:i + 40]))

        def on_sieve(r):
            args, errors, err = r
            if err:
                res.fail(f'{label}/every_line_is_answered', dict(protocol='managesieve', lines=len(args[1])), [err])
                return
            res.evaluations += len(args[1])
            for ln, e in errors:
                res.fail(f'{label}/{kind_of(e)}', dict(protocol='managesieve', authenticated=args[0], line=repr(ln[:300])), [e])
        _with_watchdog(None, sbatches, _sieve_worker, 240, on_sieve,
                       lambda it: res.fail(f'{label}/other_connections_keep_being_served', dict(protocol='managesieve', lines=[repr(x[:100]) for x in it[1]]),
                                           ['watchdog: the ManageSieve batch did not finish']))
        res.samples.append(dict(line=repr(lines[7][:80]), states=['nonauth', 'auth', 'selected'], result='answered'))
        return res
    return fn
