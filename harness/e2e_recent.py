"""Bounded stand-in for C17: histories of deliveries (APPEND / COPY into INBOX by a session that has nothing selected,
and by the selecting / examining sessions themselves)
with 2..3 sessions selecting, examining, closing and re-selecting INBOX in every order, on the real server.

Oracle: every uid is seen flagged \\Recent by at most one read-write selection over its lifetime; a read-only selection
never consumes it (a message that so far was only seen by read-only selections, or by nobody, IS \\Recent for the next
read-write selection); the RECENT count of SELECT and of untagged RECENT equals the number of messages that selection
sees flagged \\Recent; STORE cannot set or clear \\Recent; the stored flags never contain \\Recent."""
from __future__ import annotations

import itertools
import multiprocessing as mp
import re

from .imapdrv import World, run

_FETCH = re.compile(rb'^\* (\d+) FETCH \((.*)\)\r\n$', re.S)


def flags_listing(resps):
    out = {}
    for r in resps:
        m = _FETCH.match(r)
        if m:
            mu = re.search(rb'UID (\d+)', m.group(2))
            mf = re.search(rb'FLAGS \(([^)]*)\)', m.group(2))
            if mu and mf:
                out[int(mu.group(1))] = set(mf.group(1).split())
    return out


async def scenario(hist, nsess):
    errors = []
    w = await World().start()
    d = await w.client('d')                      # the deliverer: never selects INBOX
    sess = [await w.client(f's{i}') for i in range(nsess)]
    mode = [None] * nsess                        # None | 'rw' | 'ro'
    inst = [0] * nsess
    seen_by = {}                                 # uid -> set of rw selection instances that saw it \Recent
    recent_count = [None] * nsess
    sig = []
    mbx0 = await w.mailbox('INBOX')
    tracked = {u for u, m in mbx0._messages.items() if m.recent}     # messages that still owe a \Recent announcement

    async def observe(i, where):
        c = sess[i]
        r = await c.cmd(b'NOOP')
        for u in r['untagged']:
            m = re.match(rb'^\* (\d+) RECENT', u)
            if m:
                recent_count[i] = int(m.group(1))
        r = await c.cmd(b'FETCH 1:* (UID FLAGS)')
        fl = flags_listing(r['untagged'])
        rec = {u for u, f in fl.items() if b'\\Recent' in f}
        if mode[i] == 'rw' and recent_count[i] is not None and recent_count[i] != len(rec):
            errors.append(f'{where}: s{i} was told {recent_count[i]} RECENT but sees {len(rec)} messages flagged '
                          f'\\Recent {sorted(rec)}')
        if mode[i] == 'rw':
            for u in rec:
                owners = seen_by.setdefault(u, set())
                owners.add((i, inst[i]))
                if len(owners) > 1:
                    errors.append(f'{where}: uid {u} was \\Recent for {sorted(owners)} (more than one read-write selection)')
        return rec

    for step, op in enumerate(hist):
        where = f'step {step} {op}'
        k = op[0]
        if k in ('sel', 'exa'):
            i = op[1]
            r = await sess[i].cmd(b'SELECT INBOX' if k == 'sel' else b'EXAMINE INBOX')
            mode[i] = 'rw' if k == 'sel' else 'ro'
            inst[i] += 1
            recent_count[i] = None
            for u in r['untagged']:
                m = re.match(rb'^\* (\d+) RECENT', u)
                if m:
                    recent_count[i] = int(m.group(1))
            rec = await observe(i, where)
            if k == 'sel':
                # everything that no read-write selection has seen \Recent yet must be \Recent now
                mbx = await w.mailbox('INBOX')
                for u in mbx._messages:
                    if u in tracked and (u not in seen_by or not seen_by[u]):
                        errors.append(f'{where}: uid {u} was never \\Recent for a read-write selection and is not for '
                                      f'this first one either')
        elif k == 'sel-fail':
            # a SELECT that fails (NO): the connection has nothing selected afterwards, its old selection must not go on
            # taking the \\Recent of later deliveries
            i = op[1]
            await sess[i].cmd(b'SELECT Nope')
            mode[i] = None
        elif k == 'close':
            i = op[1]
            if mode[i] is not None:
                await sess[i].cmd(b'CLOSE')
                mode[i] = None
        elif k in ('append', 'append-recent', 'copy', 'copy-ro'):
            before_uids = set((await w.mailbox('INBOX'))._messages)
            if k == 'append':
                await d.cmd(b'APPEND INBOX {3}', [b'x\r\n\r\n'])
            elif k == 'append-recent':
                await d.cmd(b'APPEND INBOX (\\Recent \\Seen) {3}', [b'x\r\n\r\n'])
            elif k == 'copy-ro':
                # the source message still owes its own \\Recent (delivered into Sent, nobody selected it), and the
                # copier only examines the source
                await d.cmd(b'APPEND Sent {3}', [b'y\r\n\r\n'])
                await d.cmd(b'EXAMINE Sent')
                await d.cmd(b'COPY * INBOX')
                await d.cmd(b'CLOSE')
            else:
                await d.cmd(b'SELECT Sent')
                await d.cmd(b'COPY 1 INBOX')
                await d.cmd(b'CLOSE')
            tracked |= set((await w.mailbox('INBOX'))._messages) - before_uids
        elif k in ('own-append', 'own-copy'):
            # the delivering connection is one of the sessions itself, whatever it has selected (read-write, read-only
            # or nothing): a read-only selection must not take the \\Recent of what it delivers
            i = op[1]
            before_uids = set((await w.mailbox('INBOX'))._messages)
            r = None
            if k == 'own-append':
                r = await sess[i].cmd(b'APPEND INBOX {3}', [b'z\r\n\r\n'])
            elif mode[i] is not None:
                r = await sess[i].cmd(b'COPY 1 INBOX')
            for u in (r['untagged'] if r and mode[i] is not None else ()):
                m = re.match(rb'^\* (\d+) RECENT', u)      # the command's own untagged data may carry the new count
                if m:
                    recent_count[i] = int(m.group(1))
            tracked |= set((await w.mailbox('INBOX'))._messages) - before_uids
        elif k == 'store':
            i = op[1]
            if mode[i] == 'rw':
                before = await observe(i, where)
                await sess[i].cmd(b'STORE 1:* +FLAGS (\\Recent)')
                await sess[i].cmd(b'STORE 1:* -FLAGS (\\Recent)')
                await sess[i].cmd(b'STORE 1 FLAGS (\\Seen)')
                after = await observe(i, where)
                if before != after:
                    errors.append(f'{where}: STORE changed the \\Recent messages of s{i} from {sorted(before)} to {sorted(after)}')
        for i in range(nsess):
            if mode[i] is not None:
                await observe(i, where)
        mbx = await w.mailbox('INBOX')
        for u, m in mbx._messages.items():
            if any(bytes(f) == b'\\Recent' for f in m.permanent_flags):
                errors.append(f'{where}: uid {u} has \\Recent among its STORED flags')
        sig.append((k, tuple(mode)))
        if errors:
            break
    await w.close()
    return errors, tuple(sig)


def _worker(args):
    hist, n = args
    try:
        errs, sig = run(scenario(hist, n))
    except Exception as exc:    # noqa
        import traceback
        return args, [f'harness exception {exc!r} {traceback.format_exc()[-400:]}'], ()
    return args, errs, sig


def histories(tier, seed):
    ops2 = [('sel', 0), ('exa', 0), ('close', 0), ('sel', 1), ('exa', 1), ('close', 1), ('append',), ('copy',),
            ('append-recent',), ('store', 0), ('copy-ro',), ('own-append', 0), ('own-copy', 0), ('sel-fail', 0)]
    n = 3 if tier == 'quick' else 4
    for h in itertools.product(ops2, repeat=n):
        if any(o[0] in ('sel', 'exa') for o in h):
            yield h, 2
    if tier != 'quick':
        import random
        rnd = random.Random(seed)
        ops3 = ops2 + [('sel', 2), ('exa', 2), ('close', 2), ('store', 1), ('own-append', 1), ('own-copy', 2)]
        for _ in range(6000):
            yield tuple(rnd.choice(ops3) for _ in range(rnd.choice((5, 6)))), 3
    else:
        import random
        rnd = random.Random(seed)
        ops3 = ops2 + [('sel', 2), ('exa', 2), ('close', 2), ('own-append', 1), ('own-copy', 2)]
        for _ in range(600):
            yield tuple(rnd.choice(ops3) for _ in range(5)), 3


def bounded_recent(label):
    from pyvc.prop import BoundedResult

    def fn(tier, seed):
        res = BoundedResult()
        items = list(histories(tier, seed))
        res.note = 'exhaustive over the stated op set up to the stated length for 2 sessions; 3 sessions seeded'
        res.exhaustive = False
        with mp.get_context('fork').Pool(16) as pool:
            for args, errs, sig in pool.imap_unordered(_worker, items, chunksize=16):
                res.evaluations += 1
                res.distinct.add(sig)
                if errs:
                    res.fail(f'{label}/recent_exactly_once_never_stored', dict(history=[list(o) for o in args[0]],
                                                                              sessions=args[1]), errs[:3])
                elif len(res.samples) < 2:
                    res.samples.append(dict(history=[list(o) for o in args[0]], result='ok'))
        return res
    return fn
