"""Bounded stand-in for C19: the real ManageSieveServer + dict backend over in-memory streams against a plain model
(per user: name -> bytes map and at most one active name; before authentication every script command is refused and
touches nothing)."""
from __future__ import annotations

import asyncio
import base64
import itertools
import multiprocessing as mp
import re

from proxyprotocol.sock import SocketInfoLocal

from pymap.sieve.manage import ManageSieveServer

from .imapdrv import World, FakeWriter, run

_LIT = re.compile(rb'\{(\d+)\}\r\n$')
_END = re.compile(rb'^(OK|NO|BYE)\b')


def split_sieve(buf: bytes):
    """-> (complete responses (each = list of logical lines up to and including the OK/NO/BYE line), rest).
    A logical line may contain literals ({n}CRLF + n bytes) anywhere; it ends at the first CRLF outside a literal."""
    out, cur = [], []
    pos, n = 0, len(buf)
    start_resp = 0
    while pos < n:
        line_start = pos
        complete = False
        while True:
            eol = buf.find(b'\r\n', pos)
            if eol < 0:
                break
            seg_end = eol + 2
            m = _LIT.search(buf[line_start:seg_end] if pos == line_start else buf[pos:seg_end])
            if m:
                ln = int(m.group(1))
                if seg_end + ln > n:
                    break
                pos = seg_end + ln          # the line goes on after the literal
                continue
            pos = seg_end
            complete = True
            break
        if not complete:
            break
        line = buf[line_start:pos]
        cur.append(line)
        if _END.match(line):
            out.append(cur)
            cur = []
            start_resp = pos
    return out, buf[start_resp:]


class SieveClient:
    def __init__(self, world, name):
        self.name = name
        self.reader = asyncio.StreamReader()
        self.writer = FakeWriter(world.next_fd())
        self.consumed = 0
        server = ManageSieveServer(world.backend.login, world.config)
        self.task = asyncio.create_task(server(self.reader, self.writer, SocketInfoLocal(self.writer)))

    async def response(self, budget=3000):
        import time
        deadline = None
        steps = 0
        while True:
            resps, rest = split_sieve(bytes(self.writer.buf[self.consumed:]))
            if resps:
                self.consumed = len(self.writer.buf) - len(rest)
                return resps[-1], resps
            if self.task.done():
                return None, []
            steps += 1
            if steps < budget:
                await asyncio.sleep(0)
            else:
                if deadline is None:
                    deadline = time.time() + 5
                if time.time() > deadline:
                    return None, []
                await asyncio.sleep(0.002)

    async def cmd(self, line: bytes):
        self.reader.feed_data(line + b'\r\n')
        last, allr = await self.response()
        return last

    async def auth(self, user: bytes, pw: bytes):
        tok = base64.b64encode(b'\x00' + user + b'\x00' + pw)
        return await self.cmd(b'AUTHENTICATE "PLAIN" "' + tok + b'"')


def cond(resp):
    if resp is None:
        return None
    return resp[-1].split()[0].rstrip(b'\r\n')


def lit(b: bytes):
    return b'{%d+}\r\n' % len(b) + b


def qs(name: str):
    raw = name.encode('utf-8')
    return b'"' + raw.replace(b'\\', b'\\\\').replace(b'"', b'\\"') + b'"'


GOOD = b'keep;\r\n'
OTHER = b'discard;\r\n'
NAMES = ['a', 'b', 'café', 'with "quote"', '']

SCRIPT_CMDS = []
for n in NAMES[:3]:
    SCRIPT_CMDS += [('put', n, GOOD), ('put', n, OTHER), ('get', n), ('setactive', n), ('delete', n)]
SCRIPT_CMDS += [('put', NAMES[3], GOOD), ('get', NAMES[3]), ('list',), ('setactive', ''), ('rename', 'a', 'b'),
                ('rename', 'a', 'c'), ('rename', 'b', 'a'), ('rename', 'zz', 'a'), ('rename', 'a', 'a'),
                ('check', GOOD), ('havespace', 'a', 10), ('delete', 'zz'), ('get', 'zz'), ('setactive', 'zz')]


def wire(c):
    k = c[0]
    if k == 'put':
        return b'PUTSCRIPT ' + qs(c[1]) + b' ' + lit(c[2])
    if k == 'get':
        return b'GETSCRIPT ' + qs(c[1])
    if k == 'setactive':
        return b'SETACTIVE ' + qs(c[1])
    if k == 'delete':
        return b'DELETESCRIPT ' + qs(c[1])
    if k == 'rename':
        return b'RENAMESCRIPT ' + qs(c[1]) + b' ' + qs(c[2])
    if k == 'list':
        return b'LISTSCRIPTS'
    if k == 'check':
        return b'CHECKSCRIPT ' + lit(c[1])
    if k == 'havespace':
        return b'HAVESPACE ' + qs(c[1]) + b' %d' % c[2]
    raise ValueError(c)


class StoreModel:
    def __init__(self, scripts=None, active=None):
        self.scripts = dict(scripts or {})
        self.active = active

    def apply(self, c):
        """returns expected condition"""
        k = c[0]
        if k == 'put':
            self.scripts[c[1]] = c[2]
            return b'OK'
        if k == 'get':
            return b'OK' if c[1] in self.scripts else b'NO'
        if k == 'setactive':
            if c[1] == '':
                self.active = None
                return b'OK'
            if c[1] in self.scripts:
                self.active = c[1]
                return b'OK'
            return b'NO'
        if k == 'delete':
            if c[1] not in self.scripts or c[1] == self.active:
                return b'NO'
            del self.scripts[c[1]]
            return b'OK'
        if k == 'rename':
            if c[1] not in self.scripts or c[2] in self.scripts:
                return b'NO'
            self.scripts[c[2]] = self.scripts.pop(c[1])
            if self.active == c[1]:
                self.active = c[2]
            return b'OK'
        return b'OK'


async def real_store(world, user):
    cache = world.config.set_cache.get(user)
    if not cache:
        return None
    fs = cache[1]
    return dict(fs._filters), fs._active


def parse_list(r):
    listed = {}
    for ln in r[:-1]:
        m = re.match(rb'^(?:"((?:[^"\\]|\\.)*)"|\{(\d+)\}\r\n(.*?))( ACTIVE)?\r\n$', ln, re.S)
        if m:
            nm = re.sub(rb'\\(.)', rb'\1', m.group(1)) if m.group(1) is not None else m.group(3)
            listed[nm.decode('utf-8')] = bool(m.group(4))
    return listed


async def sessions_scenario(prog, user, pw):
    """several sessions of ONE user (two open at once from the start, a third opened at the end): there is one script store per
    user, so what one session puts, activates or deletes is what every other session of that user lists, whatever the store
    held (nothing, for a fresh user) when each of them logged in"""
    errors = []
    w = await World().start(extra_users=[('other', 'otherpass')])
    clients = []
    for n in ('c1', 'c2'):
        c = SieveClient(w, n)
        await c.response()
        r = await c.auth(user, pw)
        if cond(r) != b'OK':
            errors.append(f'{n}: authentication answered {r}')
        clients.append(c)
    c1, c2 = clients
    r = await c1.cmd(b'LISTSCRIPTS')
    first = parse_list(r)
    model = StoreModel({k: None for k in first}, next((k for k, v in first.items() if v), None))
    sig = []

    def compare(who, listed, where):
        if set(listed) != set(model.scripts) or {k for k, v in listed.items() if v} != (
                {model.active} if model.active is not None else set()):
            errors.append(f'{where}: session {who} of {user.decode()} lists {listed}; through the other session the store was '
                          f'made to hold {sorted(model.scripts)} (active: {model.active})')

    for step, cmd in enumerate(prog):
        r = await c1.cmd(wire(cmd))
        want = model.apply(cmd)
        got = cond(r)
        sig.append((cmd[0], got))
        where = f'step {step} {wire(cmd)[:40]!r}'
        if got != want:
            errors.append(f'{where}: answered {got}, the model says {want}')
            break
        compare('c2 (logged in at the same time)', parse_list(await c2.cmd(b'LISTSCRIPTS')), where)
        if cmd[0] == 'put' and got == b'OK':
            r = await c2.cmd(wire(('get', cmd[1])))
            body = b''.join(r[:-1])
            m = re.match(rb'\{(\d+)\}\r\n', body)
            data = body[m.end():m.end() + int(m.group(1))] if m else body
            if cond(r) != b'OK' or data != cmd[2]:
                errors.append(f'{where}: the other session reads {cond(r)} {data!r} for the script just stored')
        if errors:
            break
    if not errors:
        c3 = SieveClient(w, 'c3')
        await c3.response()
        await c3.auth(user, pw)
        compare('c3 (logged in afterwards)', parse_list(await c3.cmd(b'LISTSCRIPTS')), 'at the end')
        clients.append(c3)
        await c1.cmd(b'UNAUTHENTICATE')
        await c1.auth(user, pw)
        compare('c1 (authenticated again on the same connection)', parse_list(await c1.cmd(b'LISTSCRIPTS')), 'at the end')
    await w.close()
    for c in clients:
        c.reader.feed_eof()
    for _ in range(50):
        if all(c.task.done() for c in clients):
            break
        await asyncio.sleep(0)
    for c in clients:
        if not c.task.done():
            c.task.cancel()
    return errors, tuple(sig)


async def maildir_scenario(prog):
    """the maildir backend's store (one file, dovecot.sieve, served under the name 'active'), held to the same statement,
    wire-only: a PUTSCRIPT that is answered OK is there for GETSCRIPT (the same bytes, zero of them included) and for
    LISTSCRIPTS; a script listed ACTIVE cannot be deleted"""
    from .imapdrv import MaildirWorld
    errors = []
    w = await MaildirWorld(layout='++', time_budget=30.0).start()
    c = SieveClient(w, 'c')
    sig = []
    try:
        await c.response()
        r = await c.auth(b'alice', b'apass')
        if cond(r) != b'OK':
            errors.append(('harness', f'authentication answered {r}'))
        held = {}
        before = parse_list(await c.cmd(b'LISTSCRIPTS'))
        for step, cmd in enumerate(prog):
            where = f'step {step} {wire(cmd)[:40]!r}'
            r = await c.cmd(wire(cmd))
            got = cond(r)
            sig.append((cmd[0], got))
            listed = parse_list(await c.cmd(b'LISTSCRIPTS'))
            if cmd[0] == 'put' and got == b'OK':
                held[cmd[1]] = cmd[2]
                r2 = await c.cmd(wire(('get', cmd[1])))
                body = b''.join(r2[:-1])
                m = re.match(rb'\{(\d+)\}\r\n', body)
                data = body[m.end():m.end() + int(m.group(1))] if m else body
                lab = 'maildir_put_then_get_other_name' if cmd[1] != 'active' else 'maildir_put_then_get'
                if cond(r2) != b'OK' or data != cmd[2]:
                    errors.append((lab, f'{where}: answered OK; GETSCRIPT {cmd[1]!r} then answers {cond(r2)} {data!r}, stored were '
                                        f'{cmd[2]!r} ({len(cmd[2])} bytes)'))
                elif cmd[1] not in listed:
                    errors.append((lab, f'{where}: answered OK; LISTSCRIPTS then lists {listed}'))
            if cmd[0] == 'delete' and got == b'OK':
                if before.get(cmd[1]):
                    errors.append(('maildir_active_script_cannot_be_deleted',
                                   f'{where}: {cmd[1]!r} was listed ACTIVE and DELETESCRIPT answered OK (now listed: {listed})'))
                held.pop(cmd[1], None)
            before = listed
            if [e for e in errors if e[0] == 'harness']:
                break
    finally:
        await w.close()
        w.cleanup()
        c.reader.feed_eof()
        for _ in range(50):
            if c.task.done():
                break
            await asyncio.sleep(0)
        if not c.task.done():
            c.task.cancel()
    return errors, tuple(sig)


MAILDIR_PROGS = [
    (('put', 'active', GOOD), ('get', 'active'), ('put', 'active', OTHER), ('list',)),
    (('put', 'active', b''), ('get', 'active'), ('list',)),
    (('put', 'active', GOOD), ('put', 'active', b''), ('put', 'active', OTHER)),
    (('put', 'foo', GOOD), ('list',)),
    (('put', 'active', GOOD), ('delete', 'active'), ('list',)),
    (('put', 'active', GOOD), ('setactive', 'active'), ('delete', 'active')),
    (('get', 'active'), ('delete', 'zz'), ('setactive', 'zz'), ('put', 'active', GOOD), ('get', 'zz')),
]


async def scenario(prog, mode):
    """mode: 'auth' (testuser authenticated), 'preauth' (not authenticated), 'two-users', 'relogin'"""
    errors = []
    w = await World().start(extra_users=[('other', 'otherpass')])
    c = SieveClient(w, 'c')
    await c.response()      # greeting
    # make sure both users' stores exist (a session must have been opened once)
    imap = await w.client('i')
    await imap.cmd(b'LOGOUT')
    imap2 = await w.client('j', user=b'other', pw=b'otherpass')
    await imap2.cmd(b'LOGOUT')
    sig = []
    if mode == 'preauth':
        before = (await real_store(w, 'testuser'), await real_store(w, 'other'))
        for step, cmd in enumerate(prog):
            r = await c.cmd(wire(cmd))
            if cond(r) != b'NO':
                errors.append(f'step {step} {cmd[0]}: answered {cond(r)} before authentication (must be NO)')
            sig.append((cmd[0], cond(r)))
        after = (await real_store(w, 'testuser'), await real_store(w, 'other'))
        if after != before:
            errors.append('a script command before authentication changed a script store')
    else:
        if mode == 'relogin':
            r = await c.auth(b'other', b'otherpass')
            await c.cmd(b'PUTSCRIPT "theirs" ' + lit(OTHER))
            await c.cmd(b'UNAUTHENTICATE')
        r = await c.auth(b'testuser', b'testpass')
        if cond(r) != b'OK':
            errors.append(f'authentication answered {r}')
        st = await real_store(w, 'testuser')
        model = StoreModel(*st)
        other_before = await real_store(w, 'other')
        for step, cmd in enumerate(prog):
            r = await c.cmd(wire(cmd))
            want = model.apply(cmd)
            got = cond(r)
            sig.append((cmd[0], got))
            where = f'step {step} {wire(cmd)[:40]!r}'
            if got != want:
                errors.append(f'{where}: answered {got}, the model says {want}')
            if cmd[0] == 'get' and got == b'OK':
                body = b''.join(r[:-1])
                m = re.match(rb'\{(\d+)\}\r\n', body)
                data = body[m.end():m.end() + int(m.group(1))] if m else body
                if data != model.scripts[cmd[1]]:
                    errors.append(f'{where}: returned {data!r}, stored {model.scripts[cmd[1]]!r}')
            if cmd[0] == 'list' and got == b'OK':
                listed = {}
                for ln in r[:-1]:
                    m = re.match(rb'^(?:"((?:[^"\\]|\\.)*)"|\{(\d+)\}\r\n(.*?))( ACTIVE)?\r\n$', ln, re.S)
                    if m:
                        nm = re.sub(rb'\\(.)', rb'\1', m.group(1)) if m.group(1) is not None else m.group(3)
                        listed[nm.decode('utf-8')] = bool(m.group(4))
                if set(listed) != set(model.scripts) or {k for k, v in listed.items() if v} != (
                        {model.active} if model.active is not None else set()):
                    errors.append(f'{where}: listed {listed}, model {sorted(model.scripts)} active {model.active}')
            real = await real_store(w, 'testuser')
            if real != (model.scripts, model.active):
                errors.append(f'{where}: store {real}, model {(model.scripts, model.active)}')
            if errors:
                break
        other_after = await real_store(w, 'other')
        if mode != 'relogin' and other_after != other_before:
            errors.append(f'the other user\'s scripts changed: {other_before} -> {other_after}')
        if mode == 'relogin':
            ob = other_after
            if ob is None or 'theirs' not in ob[0] or any(k != 'theirs' for k in ob[0]):
                errors.append(f'the first user\'s store after the second user worked: {ob}')
    await w.close()
    c.reader.feed_eof()
    for _ in range(50):
        if c.task.done():
            break
        await asyncio.sleep(0)
    if not c.task.done():
        c.task.cancel()
    return errors, tuple(sig)


def _worker(args):
    prog, mode = args
    try:
        if mode == 'maildir':
            errs, sig = run(maildir_scenario(prog))
        elif mode.startswith('sessions-'):
            errs, sig = run(sessions_scenario(prog, *{'sessions-fresh-user': (b'other', b'otherpass'),
                                                      'sessions-demo-user': (b'testuser', b'testpass')}[mode]))
        else:
            errs, sig = run(scenario(prog, mode))
    except Exception as exc:    # noqa
        import traceback
        return args, [f'harness exception {exc!r} {traceback.format_exc()[-400:]}'], ()
    return args, errs, sig


def bounded_sieve(label):
    from pyvc.prop import BoundedResult

    def fn(tier, seed):
        res = BoundedResult()
        items = [((c,), 'preauth') for c in SCRIPT_CMDS]
        items += [((c,), 'auth') for c in SCRIPT_CMDS]
        items += [(p, 'auth') for p in itertools.product(SCRIPT_CMDS, repeat=2)]
        items += [((c,), 'relogin') for c in SCRIPT_CMDS]
        # one store per user, whatever it held when each session logged in (a fresh user's is empty; the demo user's is emptied)
        EMPTY = (('setactive', ''), ('delete', 'demo'))
        for c in SCRIPT_CMDS:
            items.append(((c,), 'sessions-fresh-user'))
            items.append((EMPTY + (c,), 'sessions-demo-user'))
        items.append((EMPTY, 'sessions-demo-user'))
        items += [(p, 'maildir') for p in MAILDIR_PROGS]
        for p in itertools.product(SCRIPT_CMDS[:6], repeat=2):
            items.append((p, 'sessions-fresh-user'))
        if tier != 'quick':
            import random
            rnd = random.Random(seed)
            items += [(tuple(rnd.choice(SCRIPT_CMDS) for _ in range(rnd.choice((3, 4, 5)))), 'auth')
                      for _ in range(6000)]
            items += [(p, 'relogin') for p in itertools.product(SCRIPT_CMDS[:12], repeat=2)]
        with mp.get_context('fork').Pool(16) as pool:
            for args, errs, sig in pool.imap_unordered(_worker, items, chunksize=16):
                res.evaluations += 1
                res.distinct.add((args[1], sig))
                if errs and isinstance(errs[0], tuple):
                    seen = set()
                    for lab, text in errs:
                        if lab not in seen:
                            seen.add(lab)
                            res.fail(f'{label}/{lab}', dict(backend='maildir', program=[wire(c)[:50].decode('latin1') for c in args[0]]),
                                     [text])
                elif errs:
                    res.fail(f'{label}/script_store_is_a_per_user_map_behind_the_login_gate',
                             dict(mode=args[1], program=[wire(c)[:50].decode('latin1') for c in args[0]]), errs[:3])
                elif len(res.samples) < 2:
                    res.samples.append(dict(mode=args[1], program=[wire(c)[:40].decode('latin1') for c in args[0]],
                                            result='agrees with the model'))
        return res
    return fn
