"""Bounded stand-in for C17 on the maildir backend (real MaildirBackend on a temporary directory, commands on its thread
pool).  Wire-only: nothing is read from the backend's objects.

Histories over one mailbox 'Box' with a deliverer (never selects) and 2 sessions:
  ('deliver', flags)   APPEND by the deliverer            ('select', i) / ('examine', i) / ('close', i)
  ('own', i, flags)    APPEND by session i itself         ('look', i)  NOOP + FETCH 1:* (UID FLAGS)

Oracle (the statement of C17, on what each session is told):
  * every uid is shown \\Recent to at most one read-write selection over its lifetime;
  * a read-only selection never consumes it: a message that arrived while no read-write session had the mailbox selected
    is shown \\Recent to the first read-write selection that follows (whatever flags it was appended with);
  * the RECENT count given by SELECT equals the number of messages that selection lists with \\Recent."""
from __future__ import annotations

import itertools
import multiprocessing as mp
import re

from .imapdrv import MaildirWorld, run
from .e2e_recent import flags_listing

MSG = b'Subject: r%d\r\n\r\nbody %d\r\n'


async def scenario(hist, layout):
    errors = []
    w = await MaildirWorld(layout=layout, time_budget=30.0).start()
    try:
        d = await w.client('d', user=b'alice', pw=b'apass')
        await d.cmd(b'CREATE Box')
        sess = [await w.client(f's{i}', user=b'alice', pw=b'apass') for i in range(2)]
        mode = [None, None]
        inst = [0, 0]
        shown = {}                 # uid -> set of read-write selection instances that listed it \Recent
        owed = set()               # uids that arrived while no read-write session had Box selected, not yet shown to one
        sig = []
        n = 0

        async def listing(i, where, told=None):
            r = await sess[i].cmd(b'FETCH 1:* (UID FLAGS)')
            fl = flags_listing(r['untagged'])
            rec = {u for u, f in fl.items() if b'\\Recent' in f}
            if mode[i] == 'rw':
                if told is not None and told != len(rec):
                    errors.append(f'{where}: s{i} was told {told} RECENT by SELECT but is shown {len(rec)} messages flagged \\Recent')
                for u in rec:
                    shown.setdefault(u, set()).add((i, inst[i]))
                    if len(shown[u]) > 1:
                        errors.append(f'{where}: uid {u} is shown \\Recent to more than one read-write selection: {sorted(shown[u])}')
            return fl, rec

        for step, op in enumerate(hist):
            where = f'step {step} {op}'
            k = op[0]
            if k in ('deliver', 'own'):
                c = d if k == 'deliver' else sess[op[1]]
                flags = op[-1]
                body = MSG % (n, n)
                n += 1
                r = await c.cmd(b'APPEND Box (' + flags + b') {%d}' % len(body), [body + b'\r\n'])
                m = re.search(rb'APPENDUID \d+ (\d+)', r['tagged'])
                if not m:
                    errors.append(f'{where}: APPEND answered {r["tagged"]!r}')
                    break
                if not any(x == 'rw' for x in mode):
                    owed.add(int(m.group(1)))
                sig.append((k, 'ok'))
            elif k in ('select', 'examine'):
                i = op[1]
                r = await sess[i].cmd((b'SELECT' if k == 'select' else b'EXAMINE') + b' Box')
                told = None
                for u in r['untagged']:
                    m = re.match(rb'^\* (\d+) RECENT', u)
                    if m:
                        told = int(m.group(1))
                mode[i] = 'rw' if k == 'select' else 'ro'
                inst[i] += 1
                fl, rec = await listing(i, where, told)
                if mode[i] == 'rw':
                    missing = sorted(u for u in owed if u in fl and u not in rec)
                    if missing:
                        errors.append(f'{where}: uids {missing} arrived while no read-write session had the mailbox selected; this is '
                                      f'the first read-write selection since, and it is not shown them \\Recent (it is shown {sorted(rec)})')
                    owed.clear()
                sig.append((k, told, len(rec)))
            elif k == 'close':
                i = op[1]
                if mode[i] is not None:
                    await sess[i].cmd(b'CLOSE')
                    mode[i] = None
                sig.append((k,))
            elif k == 'look':
                i = op[1]
                if mode[i] is not None:
                    await sess[i].cmd(b'NOOP')
                    fl, rec = await listing(i, where)
                    sig.append((k, len(rec)))
            if errors:
                break
    finally:
        await w.close()
        w.cleanup()
    return errors, tuple(sig)


def _worker(args):
    hist, layout = args
    try:
        errs, sig = run(scenario(hist, layout))
    except Exception as exc:    # noqa
        import traceback
        return args, [f'harness exception {exc!r} {traceback.format_exc()[-500:]}'], ()
    return args, errs, sig


def histories(tier, seed):
    F = (b'', b'\\Seen', b'\\Flagged kw')
    out = []
    # deliveries with nobody selecting, then who gets them
    for flags in itertools.product(F, repeat=2):
        dl = [('deliver', f) for f in flags] + [('deliver', b'')]
        out.append(dl + [('select', 0), ('select', 1), ('look', 0)])
        out.append(dl + [('examine', 0), ('select', 1), ('close', 1), ('select', 0)])
    for f in F:
        out.append([('deliver', f), ('examine', 0), ('deliver', f), ('look', 0), ('select', 1), ('look', 1), ('close', 0), ('select', 0)])
        out.append([('select', 0), ('deliver', f), ('look', 0), ('select', 1), ('close', 0), ('deliver', f), ('look', 1), ('select', 0)])
        out.append([('select', 0), ('own', 0, f), ('look', 0), ('close', 0), ('own', 0, f), ('select', 1), ('select', 0)])
        out.append([('examine', 0), ('own', 0, f), ('look', 0), ('select', 1), ('look', 1)])
    out.append([('deliver', b'')] * 7 + [('select', 0), ('select', 1)])
    if tier != 'quick':
        import random
        rnd = random.Random(seed)
        ops = [('deliver', f) for f in F] + [('select', 0), ('select', 1), ('examine', 0), ('examine', 1), ('close', 0), ('close', 1),
                                            ('look', 0), ('look', 1), ('own', 0, b''), ('own', 1, b'\\Seen')]
        for _ in range(300):
            out.append([rnd.choice(ops) for _ in range(rnd.randint(4, 9))])
    return out


def bounded_recent_maildir(label):
    from pyvc.prop import BoundedResult

    def fn(tier, seed):
        res = BoundedResult()
        res.exhaustive = False
        items = [(h, '++') for h in histories(tier, seed)]
        if tier != 'quick':
            items += [(h, 'fs') for h in histories('quick', seed)]
        with mp.get_context('fork').Pool(16) as pool:
            for args, errs, sig in pool.imap_unordered(_worker, items, chunksize=2):
                res.evaluations += 1
                res.distinct.add((args[1], sig))
                if errs:
                    res.fail(f'{label}/recent_goes_to_one_read_write_selection_on_maildir',
                             dict(layout=args[1], history=[[x.decode() if isinstance(x, bytes) else x for x in op] for op in args[0]]),
                             errs[:3])
                elif len(res.samples) < 2:
                    res.samples.append(dict(history=[str(op) for op in args[0]], result='as stated'))
        return res
    return fn
