"""Bounded stand-in for C20: the REAL lock classes of pymap/concurrent.py under every interleaving (and one
cancellation at any suspension point) of 2..4 tasks, explored by harness/sched.py.

asyncio.Lock is replaced by SchedLock (stated model, see sched.py); everything else -- _AsyncioReadWriteLock,
FileLock, contextlib.asynccontextmanager -- is the real code.  FileLock runs against a real temporary directory."""
from __future__ import annotations

import itertools
import os
import shutil
import tempfile
import types

import pymap.concurrent as pc

from .sched import SchedLock, sched_sleep, sched_yield, explore


class Ctx:
    def __init__(self):
        self.readers = 0
        self.writers = 0
        self.bad = None
        self.entered = []


def _rw_task(lock, ctx, kind, label):
    async def body():
        cm = lock.read_lock() if kind == 'r' else lock.write_lock()
        async with cm:
            if kind == 'r':
                ctx.readers += 1
            else:
                ctx.writers += 1
            if ctx.writers > 1 or (ctx.writers and ctx.readers):
                ctx.bad = ctx.bad or f'overlap: {ctx.writers} writer(s) and {ctx.readers} reader(s) inside ' \
                                     f'(entering: {label})'
            ctx.entered.append(label)
            try:
                await sched_yield('critical section')
            finally:
                if kind == 'r':
                    ctx.readers -= 1
                else:
                    ctx.writers -= 1
    return body()


def _two_phase(lock, ctx, kinds, label):
    async def body():
        for i, k in enumerate(kinds):
            await _rw_task(lock, ctx, k, f'{label}.{i}')
    return body()


class patched:
    """swap asyncio.Lock / asyncio.sleep as used by pymap.concurrent for the scheduler's versions"""

    def __enter__(self):
        self.old_lock = pc._asyncio_Lock
        self.old_asyncio = pc.asyncio
        pc._asyncio_Lock = SchedLock
        shim = types.SimpleNamespace(**{k: getattr(self.old_asyncio, k) for k in dir(self.old_asyncio)
                                        if not k.startswith('__')})
        shim.sleep = sched_sleep
        pc.asyncio = shim

    def __exit__(self, *a):
        pc._asyncio_Lock = self.old_lock
        pc.asyncio = self.old_asyncio


def check_rw(programs, allow_cancel=True):
    """programs: list of strings over {r,w}: one task each, performing those acquisitions in turn"""
    def make():
        lock = pc._AsyncioReadWriteLock()
        ctx = Ctx()
        ctx.lock = lock
        tasks = [(f't{i}{p}', _two_phase(lock, ctx, p, f't{i}')) for i, p in enumerate(programs)]
        return tasks, ctx

    def step(ctx, tasks):
        return ctx.bad

    def end(ctx, tasks):
        if ctx.bad:
            return ctx.bad
        # every holder released (or was cancelled): the lock must be usable again, for a writer and a reader
        lock = ctx.lock
        post = Ctx()
        res = explore(lambda: ([('post-w', _rw_task(lock, post, 'w', 'post-w'))], post), allow_cancel=False,
                      check_end=lambda c, t: None if t[0].done and t[0].exc is None else 'stuck', max_runs=3)
        if res['violations']:
            return f'lock unusable for a writer afterwards: {res["violations"][0][0]}'
        res = explore(lambda: ([('post-r', _rw_task(lock, post, 'r', 'post-r'))], post), allow_cancel=False,
                      check_end=lambda c, t: None if t[0].done and t[0].exc is None else 'stuck', max_runs=3)
        if res['violations']:
            return f'lock unusable for a reader afterwards: {res["violations"][0][0]}'
        if getattr(lock, '_counter', 0) != 0:
            return f'reader count is {lock._counter} with nobody inside'
        return None
    with patched():
        return explore(make, check_step=step, check_end=end, allow_cancel=allow_cancel)


# ---- FileLock

def check_filelock(n_writers=2, n_readers=0, fail_in_cs=False):
    tmp = tempfile.mkdtemp(prefix='c20-')

    def make():
        path = os.path.join(tmp, 'lockfile')
        if os.path.exists(path):
            os.unlink(path)
        ctx = Ctx()
        ctx.path = path
        ctx.holders = 0

        def writer(i, fail):
            async def body():
                lock = pc.FileLock(path, write_retry_delay=(0.0,) * 6, read_retry_delay=(0.0,) * 6)
                try:
                    async with lock.write_lock():
                        ctx.holders += 1
                        if ctx.holders > 1:
                            ctx.bad = ctx.bad or f'{ctx.holders} writers hold the lock file at once'
                        try:
                            await sched_yield('critical section')
                            if fail:
                                raise ValueError('failure inside the critical section')
                        finally:
                            ctx.holders -= 1
                except (TimeoutError, ValueError):
                    pass
            return body()
        tasks = [(f'w{i}', writer(i, fail_in_cs and i == 0)) for i in range(n_writers)]
        return tasks, ctx

    def end(ctx, tasks):
        if ctx.bad:
            return ctx.bad
        if os.path.exists(ctx.path):
            return 'the lock file is still there after every holder has exited (granted lock not released)'
        return None
    try:
        with patched():
            return explore(make, check_step=lambda c, t: c.bad, check_end=end, allow_cancel=True)
    finally:
        shutil.rmtree(tmp, ignore_errors=True)


def bounded_locks(label):
    from pyvc.prop import BoundedResult

    def fn(tier, seed):
        res = BoundedResult()
        progs = [('r', 'w'), ('w', 'r'), ('w', 'w'), ('r', 'r', 'w'), ('w', 'r', 'r'), ('r', 'w', 'r'),
                 ('rw', 'w'), ('wr', 'r'), ('w', 'w', 'r')]
        if tier != 'quick':
            progs += [('r', 'r', 'r', 'w'), ('w', 'r', 'r', 'r'), ('w', 'w', 'r', 'r'), ('rw', 'wr'),
                      ('rr', 'w', 'r'), ('wr', 'rw', 'r')]
        for p in progs:
            out = explore_one(lambda p=p: check_rw(p))
            res.evaluations += out['runs']
            res.distinct.add((p, out['distinct']))
            for err, trace in out['violations']:
                kind = 'exclusion' if 'overlap' in err else ('usable_after_cancellation' if 'cancel' in ' '.join(trace)
                                                             else 'no_deadlock_and_released')
                res.fail(f'{label}/rwlock/{kind}', dict(tasks=list(p), schedule=trace), [err])
            if not out['violations'] and len(res.samples) < 2:
                res.samples.append(dict(tasks=list(p), schedules_explored=out['runs'], result='exclusion held'))
        for nw, fail in ((2, False), (2, True), (3, False)):
            out = explore_one(lambda: check_filelock(nw, 0, fail))
            res.evaluations += out['runs']
            res.distinct.add(('filelock', nw, fail, out['distinct']))
            for err, trace in out['violations'][:3]:
                res.fail(f'{label}/filelock/' + ('exclusion' if 'at once' in err else 'released_on_every_exit'),
                         dict(writers=nw, failure_in_cs=fail, schedule=trace), [err])
        return res
    return fn


def explore_one(f):
    return f()
