"""Bounded stand-in for C12: every message command (and UID variant) issued inside a read-only selection of the
real server; the persistent state of every mailbox (uids, flags, stored \\Recent bit, next uid) is dumped from
the backend before and after and must be unchanged, except that messages may be ADDED by APPEND/COPY into a
writable mailbox -- and those must keep their \\Recent for the next read-write session."""
from __future__ import annotations

import itertools
import multiprocessing as mp

from .imapdrv import World, run

CMDS = [
    b'NOOP', b'CHECK',
    b'FETCH 1:* (BODY[])', b'FETCH 1 (RFC822)', b'UID FETCH 1:* (BODY[TEXT])', b'FETCH 2 (BODY.PEEK[])',
    b'FETCH 1:* (FLAGS)',
    b'STORE 1:* +FLAGS (\\Deleted)', b'STORE 1 FLAGS ()', b'UID STORE 101:* -FLAGS.SILENT (\\Seen)',
    b'STORE 1:* FLAGS ($Junk)', b'STORE 2 FLAGS.SILENT (\\Recent)',
    b'EXPUNGE', b'UID EXPUNGE 1:*',
    b'COPY 1 Sent', b'UID COPY 101:102 INBOX', b'COPY 1 Trash',
    b'MOVE 1 Sent', b'UID MOVE 102 Sent', b'MOVE 1:* INBOX',
    b'SEARCH ALL', b'UID SEARCH DELETED',
    (b'APPEND INBOX {4}', [b'a\r\n\r\n']), (b'APPEND Trash {4}', [b'a\r\n\r\n']),
    b'CLOSE',
]
MUST_BE_NO = (b'STORE', b'UID STORE', b'EXPUNGE', b'UID EXPUNGE', b'MOVE', b'UID MOVE')


async def dump(world):
    out = {}
    for name in ('INBOX', 'Sent', 'Trash'):
        mbx = await world.mailbox(name)
        out[name] = [(u, frozenset(bytes(f) for f in m.permanent_flags), m.recent)
                     for u, m in sorted(mbx._messages.items())]
    return out


def line_of(c):
    return c[0] if isinstance(c, tuple) else c


async def scenario(prog, select=b'EXAMINE INBOX'):
    errors = []
    w = await World().start()
    a = await w.client('a')
    obs = await w.client('o')            # an observer that has the mailbox selected read-only as well
    await obs.cmd(b'EXAMINE INBOX')
    # deflagging \Seen is observable only if something is deleted first: give 101 a \Deleted flag so that an
    # EXPUNGE that slipped through would remove something
    setup = await w.client('s')
    await setup.cmd(b'SELECT INBOX')
    await setup.cmd(b'STORE 1 +FLAGS.SILENT (\\Deleted)')
    await setup.cmd(b'CLOSE' if False else b'NOOP')
    await setup.cmd(b'LOGOUT')
    before = await dump(w)
    r = await a.cmd(select)
    if b' OK' not in (r['tagged'] or b''):
        errors.append(f'{select}: {r["tagged"]}')
    sig = []
    selected = True
    for step, c in enumerate(prog):
        line = line_of(c)
        r = await a.cmd(line, c[1] if isinstance(c, tuple) else ())
        where = f'step {step} {line.decode()}'
        if not r['answered']:
            errors.append(f'{where}: no tagged response')
            break
        cond = r['tagged'].split()[1]
        sig.append((line, cond))
        was_selected = selected
        if selected and line.startswith(MUST_BE_NO) and cond != b'NO':
            errors.append(f'{where}: answered {cond.decode()} in a read-only selection (must be NO)')
        if line == b'CLOSE':
            if cond != b'OK' and selected:
                errors.append(f'{where}: CLOSE of a read-only selection answered {cond.decode()}')
            selected = False
        if (line.startswith(b'APPEND Trash') or (was_selected and line.startswith(b'COPY 1 Trash'))) \
                and cond != b'NO':
            errors.append(f'{where}: adding to a read-only mailbox answered {cond.decode()}')
        now = await dump(w)
        for name in before:
            old = {u: (f, rc) for u, f, rc in before[name]}
            new = {u: (f, rc) for u, f, rc in now[name]}
            for u in old:
                if u not in new:
                    errors.append(f'{where}: message {u} of {name} disappeared')
                elif new[u] != old[u]:
                    errors.append(f'{where}: message {u} of {name} changed {old[u]} -> {new[u]}')
            for u in new:
                if u not in old:
                    if name == 'Trash':
                        errors.append(f'{where}: message {u} was added to the read-only mailbox Trash')
                    elif name == 'INBOX' and not new[u][1]:
                        errors.append(f'{where}: message {u} added to INBOX lost its \\Recent to a read-only selection')
        before = now
        if errors:
            break
    await w.close()
    for c in (a, obs):
        if c.exception() is not None:
            errors.append(f'connection {c.name} died: {c.exception()!r}')
    return errors, tuple(sig)


def _worker(args):
    prog, select = args
    try:
        errs, sig = run(scenario(prog, select))
    except Exception as exc:    # noqa
        import traceback
        return args, [f'harness exception {exc!r} {traceback.format_exc()[-400:]}'], ()
    return args, errs, sig


def bounded_readonly(label):
    from pyvc.prop import BoundedResult

    def fn(tier, seed):
        res = BoundedResult()
        progs = [((c,), b'EXAMINE INBOX') for c in CMDS]
        progs += [(p, b'EXAMINE INBOX') for p in itertools.product(CMDS, repeat=2)]
        progs += [((c,), b'SELECT Trash') for c in CMDS]       # a mailbox that is itself read-only
        if tier != 'quick':
            import random
            rnd = random.Random(seed)
            progs += [(tuple(rnd.choice(CMDS) for _ in range(3)), b'EXAMINE INBOX') for _ in range(3000)]
        with mp.get_context('fork').Pool(16) as pool:
            for args, errs, sig in pool.imap_unordered(_worker, progs, chunksize=8):
                res.evaluations += 1
                res.distinct.add(sig)
                if errs:
                    res.fail(f'{label}/read_only_selection_changes_nothing',
                             dict(select=args[1].decode(), program=[line_of(c).decode() for c in args[0]]), errs[:3])
                elif len(res.samples) < 2:
                    res.samples.append(dict(program=[line_of(c).decode() for c in args[0]], result='unchanged'))
        return res
    return fn
