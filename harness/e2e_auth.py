"""Bounded stand-in for C09 (authentication and authorization are sound) on the real IMAP and ManageSieve servers with
the real dict backend login (password hashing included).

Users: testuser / other (no roles), admin (role admin).  Every user owns a marker mailbox (Own-<user>) and a marker sieve
script, so "whose data a connection sees" is observable.  A scenario is a sequence of authentication attempts followed
by a probe; the oracle is a plain model: an attempt succeeds iff the authcid exists, the secret equals the stored one and
(authzid is empty / equals authcid, or the authcid holds the admin role); on success the connection acts as authzid (or
authcid); after a failure, cancel or malformed exchange the connection is still unauthenticated (the probe is refused);
after a success every further attempt is refused and the identity stays.  Configurations: TLS not required, TLS required
with a remote peer (LOGINDISABLED advertised: LOGIN refused, no mechanism offered) and with a local peer."""
from __future__ import annotations

import asyncio
import base64
import itertools
import multiprocessing as mp
import re

from .imapdrv import World, run
from .e2e_sieve import SieveClient, cond as sieve_cond

LOOK = 'test\u00aduser'          # SASLprep maps the soft hyphen to nothing: a distinct account with the same prepared name
USERS = {'testuser': ('testpass', ()), 'other': ('otherpass', ()), 'admin': ('adminpass', ('admin',)), LOOK: ('lookpass', ())}
MARK = {'testuser': 'testuser', 'other': 'other', 'admin': 'admin', LOOK: 'lookalike'}
UNMARK = {v: k for k, v in MARK.items()}


def b64(x: bytes) -> bytes:
    return base64.b64encode(x)


def attempts(tier):
    """(kind, ...) tuples"""
    out = []
    pws = {'testuser': [b'testpass', b'', b'testpas', b'testpass ', b'TESTPASS', b'otherpass', b'x' * 30000, b'test\x00pass',
                        'tëstpass'.encode(), b'*',
                        # the right password with bytes around it that are not valid UTF-8: a different byte string
                        b'test\xffpass', b'\xc3testpass', b'testpass\xff', b'\xfftestpass\xfe', b't\x80estpass'],
           'other': [b'otherpass', b'testpass'], 'admin': [b'adminpass', b'wrong'],
           'nobody': [b'', b'testpass', b'x'], '': [b'', b'testpass'], 'TESTUSER': [b'testpass'], 'testuser ': [b'testpass'],
           'testKuser': [b'testpass'], 'x' * 70000: [b'testpass']}
    for u, ps in pws.items():
        for p in ps:
            out.append(('login', u.encode(), p))
    for authzid, authcid, pw in itertools.product(('', 'testuser', 'other', 'admin', 'nobody'),
                                                  ('testuser', 'admin', 'nobody'), (None, b'wrong')):
        secret = pw if pw is not None else USERS.get(authcid, ('x', ()))[0].encode()
        out.append(('plain', authzid.encode(), authcid.encode(), secret))
    for authzid, authcid, pw in (('testuser', LOOK, 'lookpass'), (LOOK, 'testuser', 'testpass'), ('', LOOK, 'lookpass'),
                                 (LOOK, LOOK, 'lookpass'), ('testuser', LOOK, 'testpass'), ('', LOOK, 'testpass'),
                                 ('', 'test\u200buser', 'testpass'), ('', '\uff54estuser', 'testpass')):
        out.append(('plain', authzid.encode(), authcid.encode(), pw.encode()))
    out.append(('login', LOOK.encode(), b'lookpass'))
    out.append(('login', LOOK.encode(), b'testpass'))
    out.append(('login', '\uff54estuser'.encode(), b'testpass'))
    for raw in (b'*', b'', b'!!!', b'=', b64(b'nonuls'), b64(b'\x00\x00'), b64(b'a\x00b'), b64(b'\x00testuser\x00testpass\x00extra'),
                b64(b'\x00testuser'), b64(b'testuser\x00\x00testpass'), b64(b'\x00testuser\x00testpass')[:-3], b'A' * 60000,
                b64(b'\x00' + b'testuser' + b'\x00' + b'testpass') + b' ', b' ' + b64(b'\x00testuser\x00testpass'),
                b64(b'\xff\xfe\x00\xff\x00\xff'),
                # the right credentials, wrapped in something that is NOT base64 (RFC 4648 / the `base64` rule of RFC 3501):
                # characters outside the alphabet, inner white space, surplus padding, a leading cancel star
                b64(b'\x00testuser\x00testpass')[:5] + b'!*~' + b64(b'\x00testuser\x00testpass')[5:],
                b64(b'\x00testuser\x00testpass')[:8] + b' ' + b64(b'\x00testuser\x00testpass')[8:],
                b64(b'\x00testuser\x00testpass') + b'===', b'*' + b64(b'\x00testuser\x00testpass'),
                b64(b'\x00testuser\x00testpass').replace(b'A', b'-A', 1)):
        out.append(('plain-raw', raw))
    for u, p in (('testuser', b'testpass'), ('testuser', b'wrong'), ('nobody', b'x'), ('admin', b'adminpass')):
        out.append(('loginmech', u.encode(), p))
    out.append(('loginmech-cancel', b'testuser'))
    out.append(('unknownmech',))
    out.append(('plain-initial', b64(b'\x00testuser\x00testpass')))
    out.append(('starttls-pipelined',))
    return out


def expected(att):
    """-> (ok: bool, identity or None)"""
    k = att[0]
    if k == 'login' or k == 'loginmech':
        try:
            u, p = att[1].decode(), att[2].decode()
        except UnicodeDecodeError:
            return False, None
        if u in USERS and USERS[u][0] == p:
            return True, u
        return False, None
    if k == 'plain':
        authzid, authcid, pw = att[1].decode(), att[2].decode(), att[3].decode()
        if authcid in USERS and USERS[authcid][0] == pw and (authzid in ('', authcid) or 'admin' in USERS[authcid][1]):
            if authzid and authzid not in USERS:
                return None, authzid          # an admin asking for an identity that does not exist: OK or NO are both sound
            return True, authzid or authcid
        return False, None
    if k == 'plain-raw':
        try:
            raw = base64.b64decode(att[1], validate=True)       # a malformed exchange leaves the connection unauthenticated
        except Exception:   # noqa
            return False, None
        parts = raw.split(b'\x00')
        if att[1].strip() == b'*' or len(parts) != 3:
            return False, None
        try:
            return expected(('plain', parts[0], parts[1], parts[2]))
        except UnicodeDecodeError:
            return False, None
    return False, None


async def do_attempt(c, att):
    """-> tagged condition (b'OK' / b'NO' / b'BAD' / None)"""
    k = att[0]
    if k == 'login':
        r = await c.cmd(b'LOGIN {%d+}\r\n' % len(att[1]) + att[1] + b' {%d+}\r\n' % len(att[2]) + att[2])
    elif k == 'plain':
        r = await c.cmd(b'AUTHENTICATE PLAIN', [b64(att[1] + b'\x00' + att[2] + b'\x00' + att[3]) + b'\r\n'])
    elif k == 'plain-raw':
        r = await c.cmd(b'AUTHENTICATE PLAIN', [att[1] + b'\r\n'])
    elif k == 'loginmech':
        r = await c.cmd(b'AUTHENTICATE LOGIN', [b64(att[1]) + b'\r\n', b64(att[2]) + b'\r\n'])
    elif k == 'loginmech-cancel':
        r = await c.cmd(b'AUTHENTICATE LOGIN', [b64(att[1]) + b'\r\n', b'*\r\n'])
    elif k == 'unknownmech':
        r = await c.cmd(b'AUTHENTICATE X-FOO')
    elif k == 'plain-initial':
        r = await c.cmd(b'AUTHENTICATE PLAIN ' + att[1])
    elif k == 'starttls-pipelined':
        # one plain-text segment: STARTTLS and, behind it, a LOGIN -- presented in plain text while LOGINDISABLED is advertised
        c.writer.fake_tls_ok = True          # the handshake that follows succeeds
        await c.send_raw(b's1 STARTTLS\r\ns2 LOGIN testuser testpass\r\n')
        resps, steps, ok = await c.wait_for(lambda resps, rest: any(x.startswith(b's2 ') for x in resps), 1500)
        tagged = [x for x in resps if x.startswith(b's2 ')]
        r = dict(tagged=tagged[0] if tagged else None, untagged=resps, closed=c.task.done(), all=resps)
    else:
        raise ValueError(k)
    if r['tagged'] is None:
        return None, r
    return r['tagged'].split()[1], r


async def whoami(c):
    """-> (authenticated?, set of owners whose marker mailbox is visible)"""
    r = await c.cmd(b'LIST "" "Own-*"')
    if r['tagged'] is None or r['tagged'].split()[1] != b'OK':
        return False, set()
    owners = set()
    for u in r['untagged']:
        m = re.search(rb'Own-(\w+)', u)
        if m:
            owners.add(UNMARK.get(m.group(1).decode(), m.group(1).decode()))
    return True, owners


async def make_world(config):
    args = dict(tls=True) if config != 'plain-ok' else {}
    w = await World().start(extra_users=[('other', 'otherpass'), ('admin', 'adminpass', ('admin',)), (LOOK, 'lookpass')], args=args)
    # marker mailboxes, created through the backend (not through a login)
    for u in USERS:
        ident = w.backend.login.demo_user_identity if False else None
    from pymap.backend.dict import Identity
    for u in USERS:
        ident = Identity(u, w.backend.login, None, frozenset())
        async with ident.new_session() as sess:
            await sess.create_mailbox('Own-' + MARK[u])
            await sess.filter_set.put('own-' + MARK[u], b'keep;')
    return w


PEER = {'plain-ok': ('1.2.3.4', 1234), 'tls-remote': ('1.2.3.4', 1234), 'tls-local': ('127.0.0.1', 1234)}


async def imap_scenario(config, seq):
    errors = []
    w = await make_world(config)
    c = await w.client('c', login=False, peer=PEER[config])
    greeting = bytes(c.writer.buf)
    offered = config != 'tls-remote'
    if (b'LOGINDISABLED' in greeting) == offered:
        errors.append(f'{config}: greeting {greeting[:120]!r} (LOGINDISABLED expected: {not offered})')
    ident = None
    sig = []
    for att in seq:
        cnd, r = await do_attempt(c, att)
        ok, who = expected(att)
        if not offered or ident is not None:
            ok, who = False, None          # nothing is offered / already authenticated: every attempt must be refused
        if att[0] == 'plain-initial':
            ok, who = False, None          # SASL-IR is not advertised: initial response is a syntax error
        sig.append((att[0], cnd))
        where = f'{config} attempt {att[:3]!r:.120}'
        if r['closed'] and cnd is None:
            break           # the server ended the connection: nobody is authenticated on it (whether it may do so is C06)
        if ok is None:
            ok = (cnd == b'OK')
        if ok and cnd != b'OK':
            errors.append(f'{where}: valid credentials were answered {cnd}')
        if not ok and cnd == b'OK':
            errors.append(f'{where}: answered OK although the model refuses it (connection identity before: {ident})')
        if cnd == b'OK' and ident is None:
            ident = who if ok else '?'
        authed, owners = await whoami(c)
        if ident is None and authed:
            errors.append(f'{where}: answered {cnd} but the connection is authenticated afterwards (sees {sorted(owners)})')
        if ident is not None and ident != '?':
            want = {ident} if ident in USERS else set()
            if not authed or owners != want:
                errors.append(f'{where}: the connection should act as {ident!r}; authenticated={authed}, marker mailboxes '
                              f'visible: {sorted(owners)}')
        if errors:
            break
    await w.close()
    return errors, (config, tuple(sig))


async def sieve_attempt(sc, att):
    k = att[0]
    if k == 'plain':
        tok = b64(att[1] + b'\x00' + att[2] + b'\x00' + att[3])
        return await sc.cmd(b'AUTHENTICATE "PLAIN" "' + tok + b'"')
    if k == 'plain-raw':
        if b'"' in att[1] or b'\\' in att[1]:
            return await sc.cmd(b'AUTHENTICATE "PLAIN" {%d+}\r\n' % len(att[1]) + att[1])
        return await sc.cmd(b'AUTHENTICATE "PLAIN" "' + att[1] + b'"')
    if k == 'plain-cont':
        r = await sc.cmd(b'AUTHENTICATE "PLAIN"')
        return await sc.cmd(b'"' + att[1] + b'"')
    if k == 'unknownmech':
        return await sc.cmd(b'AUTHENTICATE "X-FOO"')
    raise ValueError(k)


async def sieve_whoami(sc):
    r = await sc.cmd(b'LISTSCRIPTS')
    if r is None or sieve_cond(r) != b'OK':
        return False, set()
    return True, {UNMARK.get(m.group(1).decode(), m.group(1).decode()) for line in r for m in [re.search(rb'own-(\w+)', line)] if m}


async def sieve_scenario(config, seq):
    errors = []
    w = await make_world(config)
    sc = SieveClient(w, 's')
    await sc.response()
    allowed = None          # None: unauthenticated; else the identities the connection may act as
    sig = []
    for att in seq:
        r = await sieve_attempt(sc, att)
        cnd = sieve_cond(r)
        plain = att if att[0] != 'plain-cont' else ('plain-raw', att[1])
        authcid = None
        if plain[0] == 'plain':
            authcid, secret, authzid = plain[2].decode(), plain[3].decode(), plain[1].decode()
        elif plain[0] == 'plain-raw':
            try:
                parts = base64.b64decode(plain[1], validate=True).split(b'\x00')       # malformed base64: refused
                if len(parts) == 3 and plain[1].strip() != b'*':
                    authzid, authcid, secret = (x.decode() for x in parts)
            except Exception:   # noqa
                authcid = None
        # ManageSieve never authorizes a different identity: with valid (authcid, secret) it acts as authcid whatever
        # authzid says, which is the sound fallback ("it then acts as that user"); acting as authzid is sound for an admin
        valid = authcid in USERS and USERS[authcid][0] == secret if authcid is not None else False
        where = f'managesieve {config} attempt {att[:3]!r:.120}'
        sig.append((att[0], cnd))
        if r is None:
            break           # connection ended: nobody is authenticated on it (C06's subject)
        if cnd == b'OK' and allowed is None:
            if not valid:
                errors.append(f'{where}: answered OK although the model refuses it')
                allowed = [set(USERS)]
            else:
                allowed = [{authcid}]
                if 'admin' in USERS[authcid][1] and authzid:
                    allowed.append({authzid} if authzid in USERS else set())
        elif cnd == b'OK' and allowed is not None:
            errors.append(f'{where}: a second AUTHENTICATE was answered OK on an authenticated connection')
        authed, owners = await sieve_whoami(sc)
        if allowed is None and authed:
            errors.append(f'{where}: answered {cnd} but script commands are accepted afterwards (sees {sorted(owners)})')
        if allowed is not None and authed and owners not in allowed:
            errors.append(f'{where}: the connection should act as one of {allowed}; scripts visible: {sorted(owners)}')
        if errors:
            break
    await w.close()
    return errors, ('sieve', config, tuple(sig))


async def maildir_secret_scenario(history):
    """the stored secret of a user on the maildir backend (users / passwords files) through its whole life: ('set', pw|None)
    stores a new secret or removes it (the record stays, without a password), ('delete',) removes the user, ('try', pw) is a
    LOGIN on a fresh connection.  Oracle, from the statement: a LOGIN succeeds only with the password whose hash is the
    user's stored secret NOW."""
    from pymap.backend.maildir import Identity
    from pymap.user import Passwords, UserMetadata
    from .imapdrv import MaildirWorld
    errors, sig = [], []
    w = await MaildirWorld(layout='++', time_budget=30.0).start(users=(('alice', 'apass'), ('bob', 'bpass')))
    try:
        current = 'apass'
        exists = True
        n = 0
        for step, op in enumerate(history):
            where = f'step {step} {op}'
            ident = Identity(w.config, w.backend.login.tokens, 'alice', None, {'admin'})
            if op[0] == 'set':
                hashed = None if op[1] is None else await Passwords(w.config).hash_password(op[1])
                await ident.set(UserMetadata(w.config, 'alice', password=hashed, params={'mailbox_path': 'alice'}))
                current, exists = op[1], True
            elif op[0] == 'delete':
                await ident.delete()
                current, exists = None, False
            else:
                n += 1
                c = await w.client(f't{n}', login=False)
                r = await c.cmd(b'LOGIN alice "' + op[1].encode() + b'"')
                ok = bool(r['answered'] and r['tagged'].split()[1] == b'OK')
                want = exists and current is not None and op[1] == current
                sig.append((op[0], ok))
                if ok and not want:
                    errors.append(f'{where}: LOGIN alice {op[1]!r} answered OK although the stored secret of alice is now '
                                  f'{"that of " + repr(current) if current is not None else "none (removed)" if exists else "gone with the user"}')
                elif want and not ok:
                    errors.append(f'{where}: LOGIN alice {op[1]!r} with the stored secret is refused: {r["tagged"]!r}')
    finally:
        await w.close()
        w.cleanup()
    return errors, tuple(sig)


SECRET_HISTORIES = [
    (('try', 'apass'), ('set', None), ('try', 'apass'), ('try', ''), ('try', '*'), ('try', 'None')),
    (('set', 'second'), ('try', 'apass'), ('try', 'second'), ('set', None), ('try', 'second'), ('try', 'apass')),
    (('set', None), ('set', 'third'), ('try', 'third'), ('try', 'apass'), ('try', '*')),
    (('delete',), ('try', 'apass'), ('try', ''), ('set', 'again'), ('try', 'apass'), ('try', 'again')),
    (('set', 'bpass'), ('try', 'bpass'), ('set', None), ('try', 'bpass')),
]


def _worker(args):
    proto, config, seq = args
    try:
        if proto == 'maildir-secret':
            return args, *run(maildir_secret_scenario(seq))
        if proto == 'imap':
            return args, *run(imap_scenario(config, seq))
        return args, *run(sieve_scenario(config, seq))
    except Exception as exc:    # noqa
        import traceback
        return args, [f'harness exception {exc!r} {traceback.format_exc()[-500:]}'], ()


def bounded_auth(label):
    from pyvc.prop import BoundedResult

    def fn(tier, seed):
        import random
        rnd = random.Random(seed)
        res = BoundedResult()
        atts = [a for a in attempts(tier) if a[0] != 'starttls-pipelined']      # used alone, in the tls-remote configuration
        good = [a for a in atts if expected(a)[0]]
        bad = [a for a in atts if not expected(a)[0]]
        items = []
        for a in atts:
            items.append(('imap', 'plain-ok', (a,)))
        for a in atts[::3]:
            items.append(('imap', 'tls-remote', (a,)))
            items.append(('imap', 'tls-local', (a,)))
        items.append(('imap', 'tls-remote', (('starttls-pipelined',),)))
        # orders of failed and successful attempts
        for a in bad[::2]:
            for b in good[::2]:
                items.append(('imap', 'plain-ok', (a, b)))
        for a in good[::2]:
            for b in (good + bad)[::4]:
                items.append(('imap', 'plain-ok', (a, b)))
        for _ in range(150 if tier == 'quick' else 1500):
            items.append(('imap', rnd.choice(('plain-ok', 'plain-ok', 'tls-local')), tuple(rnd.choice(atts) for _ in range(3))))
        satts = [a for a in atts if a[0] in ('plain', 'plain-raw', 'unknownmech')]
        for a in satts:
            items.append(('sieve', 'plain-ok', (a,)))
        for a in satts[::4]:
            items.append(('sieve', 'plain-ok', (('plain-cont', a[1] if a[0] == 'plain-raw' else b64(a[1] + b'\x00' + a[2] + b'\x00' + a[3])),)
                         if a[0] != 'unknownmech' else (a,)))
        for _ in range(60 if tier == 'quick' else 600):
            items.append(('sieve', 'plain-ok', tuple(rnd.choice(satts) for _ in range(2))))
        items += [('maildir-secret', 'maildir', h) for h in SECRET_HISTORIES]
        res.exhaustive = False
        with mp.get_context('fork').Pool(16) as pool:
            for args, errs, sig in pool.imap_unordered(_worker, items, chunksize=4):
                res.evaluations += 1
                res.distinct.add(sig)
                for e in errs[:1]:
                    kind = ('only_valid_credentials_authenticate' if 'answered OK although' in e or 'is authenticated afterwards' in e
                            or 'accepted afterwards' in e else
                            'acts_as_the_authorized_identity' if 'should act as' in e else
                            'logindisabled_is_advertised_and_enforced' if 'LOGINDISABLED' in e else
                            'every_attempt_is_answered')
                    res.fail(f'{label}/{kind}', dict(protocol=args[0], config=args[1], attempts=[repr(a)[:160] for a in args[2]]), [e])
                if not errs and len(res.samples) < 3:
                    res.samples.append(dict(protocol=args[0], config=args[1], attempts=[repr(a)[:80] for a in args[2]], result='as the model'))
        return res
    return fn
