"""Bounded stand-ins for C18 (how an argument is spelled does not change what it means), all on the REAL code.

A  round trips of the real parsers (unit level): for wire spellings b generated from small grammars and for a set of
   delimiting suffixes, T.parse(b + suffix) consumes exactly b (the rest is the suffix), bytes(obj) parses again to an
   equal value consuming everything, and for String/AString/Mailbox the parsed value equals the value an independent
   decoder assigns to the spelling.  Types: QuotedString, LiteralString, String.build, AString, Number, Atom,
   SequenceSet, Flag, DateTime, Mailbox, FetchAttribute.
B  sibling spellings end to end: one command sequence is sent to fresh, identical servers with every string argument
   spelled as atom / quoted / {n} / {n+} and the command word in lower / upper / mixed case; the tagged results, the
   untagged responses and the final backend dump must be identical.
C  the regex models assumed by the contracts (finditer of the quoted-special pattern, match of the literal header) are
   compared with the re module exhaustively over a small alphabet."""
from __future__ import annotations

import itertools
import multiprocessing as mp
import re
from datetime import datetime, timezone, timedelta

from .imapdrv import World, run
from .e2e_names import mutf7_encode, mutf7_decode

SUFFIXES = [b'', b' ', b' x', b')', b'\r\n', b' "q"', b'"', b'//']


def _params():
    from pymap.parsing import Params
    return Params()


def independent_unquote(b: bytes):
    """value of a quoted string spelling b = '"' ... '"' per RFC 3501 (None when not a valid quoted string)"""
    if len(b) < 2 or b[:1] != b'"' or b[-1:] != b'"':
        return None
    out = bytearray()
    i = 1
    while i < len(b) - 1:
        c = b[i]
        if c in (0x0d, 0x0a):
            return None
        if c == 0x22:
            return None
        if c == 0x5c:
            if i + 1 >= len(b) - 1 or b[i + 1] not in (0x22, 0x5c):
                return None
            out.append(b[i + 1])
            i += 2
            continue
        out.append(c)
        i += 1
    return bytes(out)


def quote(v: bytes) -> bytes:
    return b'"' + v.replace(b'\\', b'\\\\').replace(b'"', b'\\"') + b'"'


def words(alphabet, maxlen):
    for n in range(maxlen + 1):
        for t in itertools.product(alphabet, repeat=n):
            yield b''.join(t)


def roundtrip_cases(tier):
    """yield (type name, wire spelling, expected value or None (= don't know), expect_parse: True/False/None)"""
    n = 3 if tier == 'quick' else 4
    qa = [b'a', b' ', b'\\"', b'\\\\', b'\xe9', b')', b'{', b'%']
    for w in words(qa, n):
        b = b'"' + w + b'"'
        yield 'QuotedString', b, independent_unquote(b), True
    for w in words([b'a', b'"', b'\\', b'\r', b'\n', b'\\a'], n):
        b = b'"' + w + b'"'
        v = independent_unquote(b)
        if v is not None:
            yield 'QuotedString', b, v, True
        elif not any(independent_unquote(b[:k]) is not None for k in range(2, len(b))):
            yield 'QuotedString!', b, None, False     # no prefix of it is a quoted string either: must be rejected
    la = [b'a', b'\r', b'\n', b'\x00', b'"', b' ', b'{', b'\xff']
    for w in words(la, n):
        yield 'LiteralString', b'{%d+}\r\n' % len(w) + w, w, True
        yield 'LiteralString', b'~{%d+}\r\n' % len(w) + w, w, True
        yield 'LiteralString', b'{%d+}\n' % len(w) + w, w, True
    for w in list(words(la + [b'\\'], n)) + [b'x' * 63, b'x' * 64, b'x' * 4000, b'\xe9' * 70]:
        yield 'String.build', w, w, True
    for w in words([b'a', b']', b'1', b'+', b'&', b'-'], n):
        if w:
            yield 'AString', w, w, True
            if b']' not in w:           # ] is a resp-special: allowed in an astring, not in an atom
                yield 'Atom', w, w, None
    for w in words(qa, 2):
        yield 'AString', b'"' + w + b'"', independent_unquote(b'"' + w + b'"'), True
        yield 'AString', b'{%d+}\r\n' % len(w) + w, w, True
    for v in (0, 1, 9, 10, 4294967295, 4294967296, 18446744073709551615, 10 ** 30):
        yield 'Number', b'%d' % v, v, True
        yield 'Number', b'0%d' % v, v, True
    # sequence sets
    nums = [b'1', b'2', b'10', b'4294967295', b'*']
    elems = nums + [a + b':' + c for a in nums for c in nums]
    for e in elems:
        yield 'SequenceSet', e, None, True
    for a, c in itertools.product(elems, repeat=2):
        yield 'SequenceSet', a + b',' + c, None, True
    if tier != 'quick':
        for t in itertools.product(elems[:12], repeat=3):
            yield 'SequenceSet', b','.join(t), None, True
    for f in (b'\\Seen', b'\\seen', b'\\SEEN', b'\\Answered', b'\\Flagged', b'\\Deleted', b'\\Draft', b'\\Recent',
              b'\\recent', b'\\Custom', b'$Forwarded', b'keyword', b'KeyWord', b'\\*'):
        yield 'Flag', f, None, None
    for day, mon, year, hh, tz in itertools.product(
            (b' 1', b'01', b'09', b'10', b'28', b'31'), (b'Jan', b'Feb', b'jul', b'DEC'), (b'1970', b'1999', b'2026'),
            (b'00:00:00', b'23:59:59', b'12:30:01'), (b'+0000', b'-0000', b'+0530', b'-1200', b'+1400')):
        yield 'DateTime', b'"' + day + b'-' + mon + b'-' + year + b' ' + hh + b' ' + tz + b'"', None, None
    names = ['a', 'Sent', 'a b', 'a&b', '&', '&-', 'é', 'aé', 'éa', 'é&é', '日本語', 'a/日本/b', '\U0001f600', 'a\U0001f600b',
             '~peter/mail/台北/日本語', 'x' * 100, 'é' * 50, '\x01', 'a\x7fb', 'a\tb', 'inbox', 'INBOX', 'Inbox/x', 'ınbox', 'ınbox/x', 'İnbox', '-', 'a-', '&a',
             'a b', '\ud800' if False else 'z', 'a"b', 'a\\b', '%', '*']
    for nm in names:
        raw = mutf7_encode(nm)
        # INBOX is case-insensitive (RFC 3501 5.1) -- in US-ASCII, as every ABNF string: 'ınbox' (U+0131) is another name
        want = 'INBOX' if nm.isascii() and nm.upper() == 'INBOX' else nm
        yield 'Mailbox', quote(raw), want, True
        yield 'Mailbox', b'{%d+}\r\n' % len(raw) + raw, want, True
    for a in (b'FLAGS', b'flags', b'UID', b'BODY', b'BODY[]', b'BODY.PEEK[]', b'body.peek[text]', b'BODY[1.2.MIME]', b'BODY[HEADER]',
              b'BODY[HEADER.FIELDS (To)]', b'BODY[HEADER.FIELDS (to "From" {2+}\r\nCc)]', b'BODY[HEADER.FIELDS.NOT ("a b")]',
              b'BODY[]<0.10>', b'BODY[1.TEXT]<5.1>', b'BINARY[1]', b'BINARY.PEEK[1.2]', b'BINARY.SIZE[1]', b'RFC822', b'RFC822.HEADER',
              b'RFC822.SIZE', b'rfc822.text', b'ENVELOPE', b'BODYSTRUCTURE', b'INTERNALDATE', b'EMAILID', b'THREADID'):
        yield 'FetchAttribute', a, None, True


def check_case(tname, wire, expected, expect_parse):
    """returns list of error strings"""
    from pymap.parsing.primitives import QuotedString, LiteralString, String, Number, Atom
    from pymap.parsing.specials import AString, SequenceSet, Flag, DateTime, Mailbox, FetchAttribute
    from pymap.parsing.exceptions import NotParseable
    errs = []
    if tname == 'String.build':
        obj = String.build(wire)
        b = bytes(obj)
        try:
            back, rest = String.parse(memoryview(b.replace(b'}\r\n', b'+}\r\n', 1) if b[:1] in b'{~' else b), _params())
        except NotParseable:
            return [f'String.build({wire[:40]!r}) serialises to {b[:60]!r}, which String.parse rejects']
        if back.value != wire or bytes(rest) != b'':
            errs.append(f'String.build({wire[:40]!r}) -> {b[:60]!r} parses back to {back.value[:40]!r} rest {bytes(rest)[:20]!r}')
        return errs
    only_bare = tname.endswith('!')
    tname = tname.rstrip('!')
    T = dict(QuotedString=QuotedString, LiteralString=LiteralString, AString=AString, Number=Number, Atom=Atom,
             SequenceSet=SequenceSet, Flag=Flag, DateTime=DateTime, Mailbox=Mailbox, FetchAttribute=FetchAttribute)[tname]
    first = None
    for suf in ([b''] if only_bare else SUFFIXES):
        if tname in ('Number', 'Atom', 'SequenceSet', 'Flag', 'AString', 'FetchAttribute') and suf[:1] not in (b'', b' ', b')', b'\r'):
            continue        # an unquoted token is only delimited by space, ')' or the end of line
        if tname == 'FetchAttribute' and suf == b'\r\n':
            continue
        try:
            obj, rest = T.parse(memoryview(wire + suf), _params())
        except NotParseable:
            if expect_parse is True:
                errs.append(f'{tname}.parse rejects the valid spelling {wire[:60]!r} (followed by {suf!r})')
            continue
        except Exception as exc:    # noqa
            errs.append(f'{tname}.parse({(wire + suf)[:60]!r}) raised {exc!r}')
            continue
        if expect_parse is False:
            errs.append(f'{tname}.parse accepts the invalid spelling {wire[:60]!r}')
            continue
        if bytes(rest) != suf:
            errs.append(f'{tname}.parse({(wire + suf)[:60]!r}) left {bytes(rest)[:30]!r}, not its suffix {suf!r}: it did not consume '
                        f'exactly its own bytes')
        val = obj.value
        if expected is not None and not (val == expected):
            errs.append(f'{tname}.parse({wire[:60]!r}) = {val!r:.80}, the spelling means {expected!r:.80}')
        if first is None:
            first = val
        elif not (val == first):
            errs.append(f'{tname}.parse({wire[:60]!r}) depends on what follows: {val!r:.60} vs {first!r:.60}')
        # serialise and parse again
        try:
            b2 = bytes(obj)
        except Exception as exc:    # noqa
            errs.append(f'bytes({tname}.parse({wire[:60]!r})) raised {exc!r}')
            continue
        b2p = b2.replace(b'}\r\n', b'+}\r\n', 1) if tname in ('LiteralString',) and b2[:1] in b'{~' else b2
        if tname in ('AString', 'Mailbox') and re.match(rb'^\{\d+\}\r\n', b2):
            b2p = b2.replace(b'}\r\n', b'+}\r\n', 1)
        try:
            obj2, rest2 = T.parse(memoryview(b2p), _params())
        except Exception as exc:    # noqa
            errs.append(f'{tname}: {wire[:50]!r} parses, serialises to {b2[:60]!r}, and that does not parse again ({type(exc).__name__})')
            continue
        if bytes(rest2) != b'':
            errs.append(f'{tname}: re-serialised form {b2[:60]!r} of {wire[:40]!r} is not consumed completely (rest {bytes(rest2)[:20]!r})')
        same = (obj2.value == val)
        if tname == 'FetchAttribute':
            # the serialised form is the RESPONSE item: .PEEK is dropped by design (RFC 3501 7.4.2)
            same = bytes(obj2) == b2 and (obj2 == obj or b'.PEEK' in wire.upper())
        if not same:
            errs.append(f'{tname}: {wire[:50]!r} -> value {val!r:.50} -> {b2[:50]!r} -> value {obj2.value!r:.50}: the round trip changed it')
        if tname == 'Mailbox' and expected is not None:
            # the serialised spelling must itself decode to the name (independent decoder)
            inner = independent_unquote(b2) if b2[:1] == b'"' else (b2.split(b'\r\n', 1)[1] if b2[:1] == b'{' else b2)
            try:
                dec = mutf7_decode(inner) if inner is not None else None
            except Exception:   # noqa
                dec = None
            want = 'INBOX' if expected.isascii() and expected.upper() == 'INBOX' else expected
            if dec != want:
                errs.append(f'Mailbox {expected!r:.40} is serialised as {b2[:60]!r}, which decodes to {dec!r:.40}')
    if tname == 'SequenceSet' and not errs:
        errs += seqset_meaning(wire)
    return errs[:3]


def seqset_meaning(wire):
    """the parsed set denotes what RFC 3501 says, for several mailbox sizes"""
    from pymap.parsing.specials import SequenceSet
    obj, _ = SequenceSet.parse(memoryview(wire), _params())
    errs = []
    for mx in (1, 2, 5, 10, 11):
        want = set()
        for part in wire.split(b','):
            ends = [mx if x == b'*' else int(x) for x in part.split(b':')]
            lo, hi = min(ends), max(ends)
            want |= set(range(lo, min(hi, mx) + 1)) if lo <= mx else set()
            if len(ends) == 1 and ends[0] > mx:
                pass
        try:
            got = set(obj.flatten(mx))
        except Exception as exc:    # noqa
            errs.append(f'SequenceSet {wire!r}.flatten({mx}) raised {exc!r}')
            continue
        if got != want:
            errs.append(f'SequenceSet {wire!r} with {mx} messages denotes {sorted(got)[:12]}, RFC 3501 says {sorted(want)[:12]}')
    return errs


# ------------------------------------------------------------------------------------------------ B: sibling spellings

ATOM_OK = re.compile(rb'^[\x21\x23\x24\x26\x27\x2B-\x5B\x5E-\x7A\x7C\x7E]+$')

# a program is a list of commands; a command is a list of tokens: bytes (literal text) or ('S', value) string arguments
PROGRAMS = [
    [[b'SELECT ', ('S', b'Sent')], [b'FETCH 1 (UID FLAGS)'], [b'CLOSE']],
    [[b'EXAMINE ', ('S', b'INBOX')], [b'SEARCH SUBJECT ', ('S', b'snake')], [b'SEARCH HEADER ', ('S', b'Subject'), b' ', ('S', b'oil')],
     [b'SEARCH OR FROM ', ('S', b'sales'), b' TEXT ', ('S', b'payments of')], [b'UID SEARCH BODY ', ('S', b'five easy')]],
    [[b'CREATE ', ('S', b'New Box')], [b'SUBSCRIBE ', ('S', b'New Box')], [b'LIST ', ('S', b''), b' ', ('S', b'New*')],
     [b'LSUB ', ('S', b''), b' ', ('S', b'%')], [b'STATUS ', ('S', b'New Box'), b' (MESSAGES UIDNEXT)'],
     [b'RENAME ', ('S', b'New Box'), b' ', ('S', b'Other "Box"')], [b'LIST "" *'], [b'DELETE ', ('S', b'Other "Box"')], [b'LIST "" *']],
    [[b'SELECT ', ('S', b'INBOX')], [b'COPY 1:2 ', ('S', b'Sent')], [b'MOVE 3 ', ('S', b'Sent')], [b'UID COPY 104 ', ('S', b'Trash')],
     [b'STATUS ', ('S', b'Sent'), b' (MESSAGES)']],
    [[b'APPEND ', ('S', b'Sent'), b' (\\Seen) ', ('L', b'Subject: x\r\n\r\nbody\r\n')], [b'STATUS ', ('S', b'Sent'), b' (MESSAGES UNSEEN)'],
     [b'SELECT ', ('S', b'Sent')], [b'FETCH * (FLAGS BODY.PEEK[])']],
    [[b'SELECT ', ('S', b'inbox')], [b'FETCH 1 (BODY.PEEK[HEADER.FIELDS (', ('S', b'Subject'), b' ', ('S', b'To'), b')])'],
     [b'FETCH 1 BODY.PEEK[HEADER.FIELDS.NOT (', ('S', b'From'), b')]'], [b'STORE 1 +FLAGS (\\Flagged)'], [b'FETCH 1 FLAGS']],
    [[b'ID (', ('Q', b'name'), b' ', ('Q', b'cli ent'), b')'], [b'CREATE ', ('S', b'&AOk-')], [b'LIST "" *'], [b'SELECT ', ('S', b'&AOk-')]],
    # the pattern argument of LIST / LSUB is a mailbox spelling too: the same shift sequence as atom, quoted or literal
    [[b'CREATE ', ('S', b'&AOk-')], [b'CREATE ', ('S', b'&AOk-/&ZeVnLIqe-')], [b'SUBSCRIBE ', ('S', b'&AOk-')],
     [b'LIST ', ('S', b''), b' ', ('S', b'&AOk-')], [b'LSUB ', ('S', b''), b' ', ('S', b'&AOk-')],
     [b'LIST ', ('S', b'&AOk-/'), b' ', ('S', b'&ZeVnLIqe-')], [b'LIST ', ('S', b''), b' ', ('S', b'&AOk-/%')]],
    [[b'DELETE ', ('S', b'Nope')], [b'SELECT ', ('S', b'Nope')], [b'RENAME ', ('S', b'Sent'), b' ', ('S', b'INBOX')],
     [b'CREATE ', ('S', b'inbox')], [b'STATUS ', ('S', b'Nope'), b' (MESSAGES)']],
]
BIG = b'Subject: big\r\n\r\n' + b'x' * 5000
PROGRAMS.append([[b'APPEND ', ('S', b'Sent'), b' ', ('L', BIG)], [b'STATUS ', ('S', b'Sent'), b' (MESSAGES)'],
                 [b'SELECT ', ('S', b'Sent')], [b'SEARCH SUBJECT ', ('S', b'y' * 4000)], [b'SEARCH LARGER 4000']])
LOGIN = [b'LOGIN ', ('S', b'testuser'), b' ', ('S', b'testpass')]
SPELLINGS = ('atom', 'quoted', 'sync', 'nonsync', 'mixed-sn', 'mixed-ns', 'mixed-qs')      # mixed: alternating per argument
CASES = ('asis', 'lower', 'mixed')


def render(cmd, spelling, case):
    """-> (first line without tag, [continuation chunks]) ; the command word (leading letters, incl. UID x) recased"""
    pieces = []      # list of bytes, with None marking a synchronising break
    for k, tok in enumerate(cmd):
        if isinstance(tok, bytes):
            t = tok
            if k == 0:
                m = re.match(rb'^((?:UID )?[A-Za-z]+)', t)
                w = m.group(1)
                w2 = w.lower() if case == 'lower' else (bytes(c ^ 0x20 if i % 2 else c for i, c in enumerate(w.upper())
                                                             if True) if case == 'mixed' else w)
                if case == 'mixed':
                    w2 = bytes((c | 0x20) if (i % 2 and 65 <= c <= 90) else c for i, c in enumerate(w.upper()))
                t = w2 + t[len(w):]
            pieces.append(t)
            continue
        kind, v = tok
        sp = spelling
        if spelling.startswith('mixed'):
            nth = sum(1 for t in cmd[:k] if not isinstance(t, bytes))
            a, b = {'mixed-sn': ('sync', 'nonsync'), 'mixed-ns': ('nonsync', 'sync'), 'mixed-qs': ('quoted', 'sync')}[spelling]
            sp = a if nth % 2 == 0 else b
        if kind == 'L':
            sp = 'sync' if sp in ('sync', 'atom') else 'nonsync'
        if sp == 'atom' and (kind == 'Q' or not (v and ATOM_OK.match(v))):
            sp = 'quoted'
        if sp == 'atom':
            pieces.append(v)
        elif sp == 'quoted':
            pieces.append(quote(v))
        elif sp == 'nonsync':
            pieces.append(b'{%d+}\r\n' % len(v) + v)
        else:
            pieces.append(b'{%d}' % len(v))
            pieces.append(None)
            pieces.append(v)
    chunks = [b'']
    for p in pieces:
        if p is None:
            chunks.append(b'')
        else:
            chunks[-1] += p
    first = chunks[0]
    rest = [c for c in chunks[1:]]
    if rest:
        rest[-1] += b'\r\n'
    # Client.cmd appends CRLF to the first line itself; continuation chunks but the last carry their own {n} + CRLF
    rest = [c + (b'\r\n' if i < len(rest) - 1 else b'') for i, c in enumerate(rest)]
    return first, rest


_TAGGED = re.compile(rb'^\S+ ')


def normalise(resps, tag):
    out = []
    for r in resps:
        if r.startswith(tag + b' '):
            r = b'TAG ' + r[len(tag) + 1:]
            # the command name echoed in the text follows the client's letter case for unknown commands only
            r = re.sub(rb'^(TAG (?:OK|NO|BAD) (?:\[[^\]]*\] )?)([A-Za-z ]+?)( completed\.| failed\.|:)', lambda m: m.group(1) + m.group(2).upper() + m.group(3), r)
        r = re.sub(rb'INTERNALDATE "[^"]*"', b'INTERNALDATE "D"', r)
        r = re.sub(rb'\[(UIDVALIDITY|APPENDUID|COPYUID) \d+', lambda m: b'[' + m.group(1) + b' V', r)
        r = re.sub(rb'(MAILBOXID|EMAILID|THREADID) \([^)]*\)', lambda m: m.group(1) + b' (ID)', r)
        if r.startswith(b'+ '):
            continue
        out.append(r)
    return out


async def dump(world):
    mset = world.config.set_cache['testuser'][0]
    out = {}
    names = ['INBOX'] + sorted(mset._set)
    for name in names:
        mbx = await mset.get_mailbox(name)
        out[name] = sorted((bytes(m._content), tuple(sorted(bytes(f) for f in m.permanent_flags)))
                           for m in mbx._messages.values())
    out['#subscribed'] = sorted(n for n in names if n in getattr(mset, '_subscribed', {}) and mset._subscribed.get(n))
    return out


async def run_program(prog, spelling, case):
    w = await World().start()
    c = await w.client('c', login=False)
    transcript = []
    first, rest = render(LOGIN, spelling, case)
    r = await c.cmd(first, rest)
    transcript.append(normalise(r['all'], r['tag']))
    for cmd in prog:
        first, rest = render(cmd, spelling, case)
        r = await c.cmd(first, rest)
        transcript.append(normalise(r['all'], r['tag']))
        if r['closed']:
            transcript.append(['<connection closed>'])
            break
    d = await dump(w)
    await w.close()
    return transcript, d


def _spell_worker(args):
    k, spelling, case = args
    try:
        return args, run(run_program(PROGRAMS[k], spelling, case)), None
    except Exception as exc:    # noqa
        import traceback
        return args, None, f'harness exception {exc!r} {traceback.format_exc()[-400:]}'


def _rt_worker(case):
    try:
        return case, check_case(*case)
    except Exception as exc:    # noqa
        import traceback
        return case, [f'harness exception {exc!r} {traceback.format_exc()[-300:]}']


# ------------------------------------------------------------------------------------------------ C: regex models

def regex_model_check():
    """the axioms the contracts assume about the two regexes hold for the re module (exhaustive, small alphabet)"""
    from pymap.parsing.primitives import QuotedString, LiteralString
    errs = []
    pat = QuotedString._quoted_pattern
    alpha = [b'a', b'"', b'\\', b'\r', b'\n']
    n = 0
    for w in words(alpha, 6):
        for pos in range(0, min(2, len(w)) + 1):
            n += 1
            ms = [(m.start(0), m.end(0)) for m in pat.finditer(w, pos)]

            def starts(p):
                return p < len(w) and (w[p] in b'\r\n"' or (w[p] == 0x5c and p + 1 < len(w) and w[p + 1] != 0x0a))
            prev = pos
            ok = True
            for s, e in ms:
                ok &= starts(s) and e == s + (2 if w[s] == 0x5c else 1) and s >= prev
                ok &= not any(starts(p) for p in range(prev, s))
                prev = e
            ok &= not any(starts(p) for p in range(prev, len(w)))
            if not ok:
                errs.append(f'finditer model disagrees with re on {w!r} from {pos}: {ms}')
    lp = LiteralString._literal_pattern
    for w in words([b'~', b'{', b'1', b'0', b'+', b'}', b'\r', b'\n', b'a'], 6):
        n += 1
        m = lp.match(w, 0)
        if m:
            ok = m.group(1) in (b'~', b'') and m.group(3) in (b'+', b'') and m.group(2).isdigit() and int(m.group(2)) >= 0 \
                and 4 <= m.end(0) <= len(w) and w[m.end(0) - 1] == 0x0a
            if not ok:
                errs.append(f'literal header model disagrees with re on {w!r}')
    return n, errs


def bounded_roundtrips(label):
    from pyvc.prop import BoundedResult

    def fn(tier, seed):
        res = BoundedResult()
        cases = list(roundtrip_cases(tier))
        with mp.get_context('fork').Pool(16) as pool:
            for case, errs in pool.imap_unordered(_rt_worker, cases, chunksize=256):
                res.evaluations += 1
                res.distinct.add((case[0], case[1][:80]))
                for e in errs:
                    kind = 'consumes_exactly_its_own_bytes' if 'consume' in e or 'left ' in e else (
                        'mailbox_names_are_reported_in_a_spelling_that_decodes_to_the_name' if e.startswith('Mailbox') else
                        'serialise_then_parse_is_identity')
                    res.fail(f'{label}/{kind}', dict(type=case[0], wire=repr(case[1][:120])), [e])
                if not errs and len(res.samples) < 3 and case[0] in ('SequenceSet', 'Mailbox', 'QuotedString'):
                    res.samples.append(dict(type=case[0], wire=repr(case[1][:60]), result='round trip ok'))
        n, errs = regex_model_check()
        res.evaluations += n
        for e in errs[:5]:
            res.fail(f'{label}/assumed_regex_model_matches_re', dict(model='regex'), [e])
        return res
    return fn


def bounded_spellings(label):
    from pyvc.prop import BoundedResult

    def fn(tier, seed):
        res = BoundedResult()
        items = [(k, s, c) for k in range(len(PROGRAMS)) for s in SPELLINGS for c in CASES]
        results = {}
        with mp.get_context('fork').Pool(16) as pool:
            for args, out, err in pool.imap_unordered(_spell_worker, items, chunksize=2):
                res.evaluations += 1
                if err:
                    res.fail(f'{label}/sibling_spellings_agree', dict(program=args[0], spelling=args[1], case=args[2]), [err])
                    continue
                results[args] = out
                res.distinct.add(args)
        for k in range(len(PROGRAMS)):
            base = results.get((k, 'quoted', 'asis'))
            if base is None:
                continue
            for s in SPELLINGS:
                for c in CASES:
                    got = results.get((k, s, c))
                    if got is None or (s, c) == ('quoted', 'asis'):
                        continue
                    if got[0] != base[0]:
                        step = next(i for i, (a, b) in enumerate(zip(got[0], base[0])) if a != b) if len(got[0]) == len(base[0]) \
                            else min(len(got[0]), len(base[0]))
                        cmd = ([LOGIN] + PROGRAMS[k])[min(step, len(PROGRAMS[k]))]
                        res.fail(f'{label}/sibling_spellings_agree',
                                 dict(program=k, command=repr(render(cmd, s, c)), spelling=s, case=c),
                                 [f'spelled {s}/{c} the command answers {got[0][step] if step < len(got[0]) else None!r:.300}; '
                                  f'spelled quoted/asis it answers {base[0][step] if step < len(base[0]) else None!r:.300}'])
                    elif got[1] != base[1]:
                        res.fail(f'{label}/sibling_spellings_agree', dict(program=k, spelling=s, case=c),
                                 ['same responses but the stored data differs between the spellings'])
            if len(res.samples) < 2:
                res.samples.append(dict(program=[repr(render(c_, 'sync', 'mixed')) for c_ in PROGRAMS[k]][:3], result='12 spellings agree'))
        return res
    return fn
