"""Bounded stand-in for C02 at the protocol level (real server; dict and maildir): histories of mutating commands by 2..3
sessions that have the same mailbox selected.  Every session keeps the model an IMAP client keeps (ClientView: EXISTS /
EXPUNGE / FETCH applied in order; after an OK to its own STORE ... .SILENT the client applies that change to its own
model itself, as RFC 3501 6.4.6 lets it assume).  At the quiescent points of the history (explicit `poll` steps, and always
at the end; no command is in flight) every session issues NOOP, and its model must equal the mailbox as an independent
observer connection sees it (polling changes what a session knows, so histories with and without a poll between two
commands are different histories and both are run):

  view_has_exactly_the_existing_uids      no lost, phantom or stuck expunge / arrival
  view_has_the_flags_of_every_message     every flag change by another session has been reported (where the client has been
                                          told flags at all; \\Recent is per session and not compared)

Commands address messages by sequence number and by UID, also messages another session has expunged already.
"""
from __future__ import annotations

import itertools
import multiprocessing as mp
import random
import re

from .imapdrv import World, ClientView, run

PERMANENT = {b'\\Answered', b'\\Deleted', b'\\Draft', b'\\Flagged', b'\\Seen'}
_FETCH = re.compile(rb'^\* (\d+) FETCH \((.*)\)\r\n$', re.S)

# (kind, ...) -- sets are sequence numbers in the issuing session's own numbering, or uids
ALPHABET = [
    ('store', False, b'1', b'+FLAGS', (b'\\Flagged',), False),
    ('store', False, b'1', b'+FLAGS', (b'\\Flagged',), True),
    ('store', False, b'2:3', b'FLAGS', (b'\\Answered',), True),
    ('store', False, b'1:*', b'-FLAGS', (b'\\Seen',), True),
    ('store', True, b'102', b'+FLAGS', (b'\\Draft',), True),
    ('store', True, b'101:103', b'FLAGS', (b'\\Seen', b'\\Flagged'), False),
    ('store', True, b'102', b'-FLAGS', (b'\\Seen',), False),
    ('store', False, b'2', b'+FLAGS', (b'\\Deleted',), True),
    ('store', True, b'101', b'+FLAGS', (b'\\Deleted',), False),
    ('expunge', None),
    ('expunge', b'101:102'),
    ('append', ()),
    ('append', (b'\\Seen', b'\\Flagged')),
    ('copy', False, b'1', b'INBOX', False),
    ('copy', True, b'103', b'Other', True),
    ('copy', False, b'2', b'Other', True),
    ('fetch', False, b'1:2'),
    ('noop',),
]


def wire(cmd):
    k = cmd[0]
    if k == 'store':
        _, uid, s, mode, flags, silent = cmd
        return (b'UID ' if uid else b'') + b'STORE ' + s + b' ' + mode + (b'.SILENT' if silent else b'') + \
            b' (' + b' '.join(flags) + b')', ()
    if k == 'expunge':
        return (b'EXPUNGE' if cmd[1] is None else b'UID EXPUNGE ' + cmd[1]), ()
    if k == 'append':
        body = b'Subject: new\r\n\r\nnew message\r\n'
        return b'APPEND INBOX (' + b' '.join(cmd[1]) + b') {%d}' % len(body), [body + b'\r\n']
    if k == 'copy':
        _, uid, s, dest, move = cmd
        return (b'UID ' if uid else b'') + (b'MOVE ' if move else b'COPY ') + s + b' ' + dest, ()
    if k == 'fetch':
        return (b'UID ' if cmd[1] else b'') + b'FETCH ' + cmd[2] + b' (BODY[])', ()
    return b'NOOP', ()


def parse_set(text: bytes, mx: int):
    out = set()
    for part in text.split(b','):
        if b':' in part:
            a, b = part.split(b':')
            a = mx if a == b'*' else int(a)
            b = mx if b == b'*' else int(b)
            out.update(range(min(a, b), max(a, b) + 1))
        else:
            out.add(mx if part == b'*' else int(part))
    return out


def client_applies_its_silent_store(view: ClientView, cmd):
    """after OK to STORE ... .SILENT the client updates its own model for the messages it addressed"""
    _, uid, s, mode, flags, silent = cmd
    named = {f for f in flags if f in PERMANENT}
    n = len(view.uids)
    if uid:
        known = [u for u in view.uids if u is not None]
        want = parse_set(s, max(known) if known else 0)
        idx = [i for i, u in enumerate(view.uids) if u in want]
    else:
        want = parse_set(s, n)
        idx = [i for i in range(n) if (i + 1) in want]
    for i in idx:
        if view.flags[i] is None:
            continue
        cur = set(view.flags[i])
        keep = {f for f in cur if f not in PERMANENT}
        perm = cur & PERMANENT
        if mode == b'FLAGS':
            perm = set(named)
        elif mode == b'+FLAGS':
            perm |= named
        else:
            perm -= named
        view.flags[i] = frozenset(perm | keep)


async def observe(o):
    r = await o.cmd(b'EXAMINE INBOX')
    r = await o.cmd(b'FETCH 1:* (UID FLAGS)')
    out = {}
    for u in r['untagged']:
        m = _FETCH.match(u)
        if m:
            mu = re.search(rb'UID (\d+)', m.group(2))
            mf = re.search(rb'FLAGS \(([^)]*)\)', m.group(2))
            if mu and mf:
                out[int(mu.group(1))] = frozenset(mf.group(1).split()) & PERMANENT
    await o.cmd(b'CLOSE')
    return out


async def scenario(history, nsess, backend, examine=()):
    errors = []

    def fail(label, text):
        errors.append((label, text))
    if backend == 'dict':
        w = await World().start()
        cred = {}
    else:
        from .refmodel import maildir_world
        w, first = await maildir_world(backend)
        cred = dict(user=b'alice', pw=b'apass')
    o = await w.client('o', **cred)
    await o.cmd(b'CREATE Other')
    sess, views = [], []
    for i in range(nsess):
        c = await w.client(f's{i}', **cred)
        r = await c.cmd(b'EXAMINE INBOX' if i in examine else b'SELECT INBOX')
        v = ClientView()
        for u in r['untagged']:
            v.apply(u, 'select')
        r = await c.cmd(b'FETCH 1:* (UID FLAGS)')
        for u in r['untagged']:
            v.apply(u, 'listing')
        sess.append(c)
        views.append(v)
    sig = []
    for step, (who, cmd) in enumerate(tuple(history) + ((None, ('poll',)),)):
        if cmd[0] != 'poll':
            line, lits = wire(cmd)
            where = f'step {step} s{who}: {line.decode()}'
            r = await sess[who].cmd(line, lits)
            if not r['answered']:
                fail('every_command_is_answered', f'{where}: no tagged response')
                break
            for u in r['untagged']:
                views[who].apply(u, where)
            ok = b' OK' in r['tagged'][:12]
            if cmd[0] == 'store' and cmd[5] and ok:
                client_applies_its_silent_store(views[who], cmd)
            sig.append((line, r['tagged'].split()[1], len(r['untagged'])))
            continue
        where = f'quiescent point after step {step - 1}'
        sig.append((b'poll', b'', 0))
        # quiescent point: nobody has a command in flight; every session polls
        for i, (c, v) in enumerate(zip(sess, views)):
            r = await c.cmd(b'NOOP')
            for u in r['untagged']:
                v.apply(u, where + f' / NOOP of s{i}')
            if v.errors:
                fail('responses_are_consistent_with_the_client_model', f'{where}: s{i}: {v.errors[:2]}')
                v.errors.clear()
        real = await observe(o)
        for i, v in enumerate(views):
            if None in v.uids:
                # uids the client was never told (a bare EXISTS): it would ask; do that for it, flags included
                r = await sess[i].cmd(b'FETCH 1:* (UID FLAGS)')
                for u in r['untagged']:
                    v.apply(u, where + ' / client fetches the new messages')
            if list(v.uids) != sorted(real):
                fail('view_has_exactly_the_existing_uids',
                     f'{where}: after NOOP session s{i} holds uids {v.uids}, the mailbox has {sorted(real)}')
                continue
            for u, fl in zip(v.uids, v.flags):
                if fl is not None and (set(fl) & PERMANENT) != set(real[u]):
                    fail('view_has_the_flags_of_every_message',
                         f'{where}: after NOOP session s{i} believes uid {u} has flags {sorted(set(fl) & PERMANENT)}, '
                         f'the mailbox has {sorted(real[u])}')
        if errors:
            break
    await w.close()
    if hasattr(w, 'cleanup'):
        w.cleanup()
    for c in sess:
        if c.exception() is not None:
            errors.append(('connection_survives', f'connection {c.name} died: {c.exception()!r}'))
    return errors, (backend, nsess, tuple(examine)) + tuple(sig)


def histories(tier, seed):
    al = ALPHABET
    out = []
    # every ordered pair of commands, issued by two different sessions and by the same session
    poll = (None, ('poll',))
    for c1, c2 in itertools.product(al, repeat=2):
        out.append((((0, c1), (1, c2)), 2))
        out.append((((0, c1), poll, (1, c2)), 2))
    for c1, c2 in itertools.product(al[:12], repeat=2):
        out.append((((0, c1), (0, c2)), 2))
    rnd = random.Random(seed)
    for _ in range(600 if tier == 'quick' else 12000):
        n = rnd.choice((2, 3))
        out.append((tuple(poll if rnd.random() < 0.2 else (rnd.randrange(n), rnd.choice(al))
                          for _ in range(rnd.choice((3, 4, 5)))), n))
    return out


def _show(w, c):
    return 'every session: NOOP' if c[0] == 'poll' else f's{w}: ' + wire(c)[0].decode()


def _worker(args):
    hist, n, backend = args[:3]
    examine = args[3] if len(args) > 3 else ()
    try:
        errs, sig = run(scenario(hist, n, backend, examine))
    except Exception as exc:    # noqa
        import traceback
        return args, [('harness', f'harness exception {exc!r} {traceback.format_exc()[-600:]}')], ()
    return args, errs, sig


def bounded_converge(label, backend='dict'):
    from pyvc.prop import BoundedResult

    def fn(tier, seed):
        res = BoundedResult()
        res.exhaustive = False
        items = histories(tier, seed)
        if backend != 'dict':
            rnd = random.Random(seed + 1)
            rnd.shuffle(items)
            items = items[: (160 if tier == 'quick' else 2500)]
        items = [(h, n, backend) for h, n in items]
        # one of the sessions has the mailbox EXAMINEd: its STOREs are refused (NO [READ-ONLY]) -- a refused command must not
        # leave anything behind that hides a later change by another session
        al = ALPHABET
        stores = [c for c in al if c[0] == 'store']
        ro = [(((1, c1), (0, c2)), 2, backend, (1,)) for c1 in stores for c2 in stores]
        ro += [(((1, c1), (None, ('poll',)), (0, c2)), 2, backend, (1,)) for c1 in stores[:4] for c2 in stores]
        if backend != 'dict':
            ro = ro[::4]
        items += ro
        with mp.get_context('fork').Pool(16) as pool:
            for args, errs, sig in pool.imap_unordered(_worker, items, chunksize=4):
                res.evaluations += 1
                res.distinct.add(sig)
                seen = set()
                for lab, text in errs:
                    if lab in seen:
                        continue
                    seen.add(lab)
                    res.fail(f'{label}/{lab}', dict(backend=backend, sessions=args[1],
                                                    read_only_sessions=[f's{i}' for i in (args[3] if len(args) > 3 else ())],
                                                    history=[_show(w, c) for w, c in args[0]]), [text])
                if not errs and len(res.samples) < 2:
                    res.samples.append(dict(history=[_show(w, c) for w, c in args[0]], result='converged'))
        return res
    return fn
