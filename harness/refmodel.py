"""A plain reference model of IMAP message commands (RFC 3501 + UIDPLUS + MOVE) for one user, written
independently of pymap, and the bounded comparison of the real server against it (C10, also used by C12/C17).

Model state: mailboxes name -> Mbox(next_uid, msgs=[Msg(uid, flags, body)]) in UID order.  A single session is
always synchronised with the mailbox after each of its own commands, so sequence number i is msgs[i-1]."""
from __future__ import annotations

import itertools
import multiprocessing as mp
import re

from .imapdrv import World, ClientView, run

PERMANENT = {b'\\Answered', b'\\Deleted', b'\\Draft', b'\\Flagged', b'\\Seen'}


class MMsg:
    def __init__(self, uid, flags, body):
        self.uid, self.flags, self.body = uid, set(flags), body


class MBox:
    def __init__(self, next_uid=101):
        self.next_uid = next_uid
        self.msgs = []

    def add(self, flags, body):
        m = MMsg(self.next_uid, flags, body)
        self.next_uid += 1
        self.msgs.append(m)
        return m


def parse_set(text: bytes, mx: int):
    """RFC 3501 sequence-set -> set of numbers, `*` = mx; a:b is the range between the two in either order;
    values above mx denote nothing (so N:* with N > mx is {mx})"""
    out = set()
    for part in text.split(b','):
        if b':' in part:
            a, b = part.split(b':')
            a = mx if a == b'*' else int(a)
            b = mx if b == b'*' else int(b)
            lo, hi = min(a, b), max(a, b)
            out.update(x for x in range(lo, min(hi, mx) + 1))
        else:
            v = mx if part == b'*' else int(part)
            if v <= mx:
                out.add(v)
    return out


class Model:
    def __init__(self):
        self.boxes = {}
        self.selected = None
        self.readonly = False

    def box(self):
        return self.boxes[self.selected]

    def addressed(self, set_text, uid):
        b = self.box()
        if uid:
            mx = b.msgs[-1].uid if b.msgs else 0
            want = parse_set(set_text, mx)
            return [(i + 1, m) for i, m in enumerate(b.msgs) if m.uid in want]
        want = parse_set(set_text, len(b.msgs))
        return [(i + 1, m) for i, m in enumerate(b.msgs) if (i + 1) in want]

    # each op returns the expected tagged condition
    def store(self, set_text, mode, flags, uid):
        named = {f for f in flags if f in PERMANENT}
        for _, m in self.addressed(set_text, uid):
            if mode == b'FLAGS':
                m.flags = set(named)
            elif mode == b'+FLAGS':
                m.flags |= named
            else:
                m.flags -= named
        return b'OK'

    def expunge(self, set_text=None):
        b = self.box()
        if set_text is None:
            gone = [m for m in b.msgs if b'\\Deleted' in m.flags]
        else:
            mx = b.msgs[-1].uid if b.msgs else 0
            want = parse_set(set_text, mx)
            gone = [m for m in b.msgs if b'\\Deleted' in m.flags and m.uid in want]
        b.msgs = [m for m in b.msgs if m not in gone]
        return b'OK'

    def copy(self, set_text, dest, uid, move=False):
        if dest not in self.boxes:
            return b'NO'
        src = self.addressed(set_text, uid)
        d = self.boxes[dest]
        for _, m in src:
            d.add(m.flags, m.body)
        if move:
            b = self.box()
            ids = {id(m) for _, m in src}
            b.msgs = [m for m in b.msgs if id(m) not in ids]
        return b'OK'

    def fetch_body(self, set_text, uid, peek):
        if not peek:
            for _, m in self.addressed(set_text, uid):
                m.flags.add(b'\\Seen')
        return b'OK'

    def append(self, box, flags, body):
        self.boxes[box].add({f for f in flags}, body)
        return b'OK'


# ------------------------------------------------------------------ the command alphabet

SEQSETS = [b'1', b'2:3', b'3:2', b'*', b'1:*', b'5:*', b'4:9', b'9:*', b'2,4,2', b'9']
UIDSETS = [b'101', b'102:103', b'103:102', b'*', b'200:*', b'104:*', b'1:*', b'100']
FLAGSETS = [(b'\\Seen',), (b'\\Deleted',), (), (b'$kw',), (b'\\Deleted', b'\\Flagged'), (b'\\Recent',)]
MODES = [b'FLAGS', b'+FLAGS', b'-FLAGS', b'FLAGS.SILENT', b'+FLAGS.SILENT']


def alphabet(tier):
    cmds = []
    seqsets = SEQSETS if tier != 'quick' else [b'1', b'3:2', b'*', b'5:*', b'9:*', b'2,4,2']
    uidsets = UIDSETS if tier != 'quick' else [b'102:103', b'*', b'200:*', b'100']
    flagsets = FLAGSETS if tier != 'quick' else [(b'\\Deleted',), (), (b'$kw',), (b'\\Seen',)]
    modes = MODES if tier != 'quick' else [b'FLAGS', b'+FLAGS', b'-FLAGS', b'FLAGS.SILENT']
    for s in seqsets:
        for md in modes:
            for fl in flagsets:
                cmds.append(('store', s, md, fl, False))
    for s in uidsets:
        for md in modes[:3]:
            for fl in flagsets[:3]:
                cmds.append(('store', s, md, fl, True))
    cmds.append(('expunge', None))
    for s in uidsets:
        cmds.append(('expunge', s))
    for s in (seqsets[:4] if tier == 'quick' else seqsets):
        cmds.append(('copy', s, b'Dest', False, False))
        cmds.append(('copy', s, b'Dest', False, True))
        cmds.append(('fetch', s, False, False))
        cmds.append(('fetch', s, False, True))
    for s in uidsets:
        cmds.append(('copy', s, b'Dest', True, False))
        cmds.append(('copy', s, b'Dest', True, True))
        cmds.append(('fetch', s, True, False))
    cmds.append(('copy', b'1', b'Nowhere', False, False))
    cmds.append(('append', (b'\\Seen', b'\\Flagged')))
    cmds.append(('append', ()))
    return cmds


def peer_pairs(tier):
    """another session of the same user changes flags (UID STORE), and the very next command of the session under test
    acts on them: EXPUNGE / UID EXPUNGE / CLOSE-like removal and COPY / MOVE must see the mailbox's flags, not the ones
    this session saw last"""
    uidsets = [b'102', b'102:103', b'*', b'1:*']
    peers = [('peer', ('store', s, md, fl, True)) for s in uidsets for md in (b'+FLAGS', b'-FLAGS', b'FLAGS')
             for fl in ((b'\\Deleted',), (b'\\Seen', b'\\Deleted'), (b'\\Flagged',))]
    mine = [('expunge', None), ('expunge', b'102:103'), ('expunge', b'1:*'), ('copy', b'1:*', b'Dest', False, False),
            ('copy', b'2', b'Dest', False, True), ('copy', b'102:103', b'Dest', True, True), ('fetch', b'2', False, False)]
    pre = [('store', b'1:*', b'+FLAGS', (b'\\Deleted',), False), ('store', b'2:3', b'+FLAGS.SILENT', (b'\\Deleted',), False)]
    out = [(p, m) for p in peers for m in mine]
    out += [(q, p, m) for q in pre for p in peers for m in mine[:3]]
    return out


def wire(cmd):
    k = cmd[0]
    if k == 'peer':
        return wire(cmd[1])
    if k == 'store':
        _, s, md, fl, uid = cmd
        return (b'UID ' if uid else b'') + b'STORE ' + s + b' ' + md + b' (' + b' '.join(fl) + b')', None
    if k == 'expunge':
        return (b'EXPUNGE' if cmd[1] is None else b'UID EXPUNGE ' + cmd[1]), None
    if k == 'copy':
        _, s, dest, uid, move = cmd
        return (b'UID ' if uid else b'') + (b'MOVE ' if move else b'COPY ') + s + b' ' + dest, None
    if k == 'fetch':
        _, s, uid, peek = cmd
        return (b'UID ' if uid else b'') + b'FETCH ' + s + (b' (BODY.PEEK[])' if peek else b' (BODY[])'), None
    if k == 'append':
        body = b'Subject: new\r\n\r\nnew message\r\n'
        return b'APPEND INBOX (' + b' '.join(cmd[1]) + b') {%d}' % len(body), [body + b'\r\n']
    raise ValueError(cmd)


def apply_model(model, cmd):
    k = cmd[0]
    if k == 'peer':
        return apply_model(model, cmd[1])
    if k == 'store':
        _, s, md, fl, uid = cmd
        return model.store(s, md.replace(b'.SILENT', b''), fl, uid)
    if k == 'expunge':
        return model.expunge(cmd[1])
    if k == 'copy':
        return model.copy(cmd[1], cmd[2].decode(), cmd[3], cmd[4])
    if k == 'fetch':
        return model.fetch_body(cmd[1], cmd[2], cmd[3])
    if k == 'append':
        return model.append('INBOX', cmd[1], b'Subject: new\r\n\r\nnew message\r\n')
    raise ValueError(cmd)


_FETCH = re.compile(rb'^\* (\d+) FETCH \((.*)\)\r\n$', re.S)


def parse_listing(resps):
    """responses of FETCH 1:* (UID FLAGS) -> [(uid, frozenset(flags without \\Recent))]"""
    out = {}
    for r in resps:
        m = _FETCH.match(r)
        if not m:
            continue
        mu = re.search(rb'UID (\d+)', m.group(2))
        mf = re.search(rb'FLAGS \(([^)]*)\)', m.group(2))
        if mu and mf:
            out[int(m.group(1))] = (int(mu.group(1)), frozenset(f for f in mf.group(1).split() if f != b'\\Recent'))
    return [out[k] for k in sorted(out)]


async def dump_box(world, name):
    mbx = await world.mailbox(name)
    out = []
    for uid in sorted(mbx._messages):
        m = mbx._messages[uid]
        out.append((uid, frozenset(bytes(f) for f in m.permanent_flags), bytes(m._content)))
    return out


def _norm(b):
    return b.replace(b'\r\n', b'\n')


async def dump_box_proto(o, name):
    """(next_uid, [(uid, flags, body)]) of a mailbox through a second connection (any backend)"""
    r = await o.cmd(b'STATUS ' + name.encode() + b' (UIDNEXT)')
    m = re.search(rb'UIDNEXT (\d+)', b''.join(r['untagged']))
    nxt = int(m.group(1)) if m else None
    await o.cmd(b'EXAMINE ' + name.encode())
    r = await o.cmd(b'UID FETCH 1:* (UID FLAGS BODY.PEEK[])')
    out = []
    for u in r['untagged']:
        mu = re.search(rb'UID (\d+)', u)
        mf = re.search(rb'FLAGS \(([^)]*)\)', u)
        mb = re.search(rb'BODY\[\] \{(\d+)\}\r\n', u)
        if mu and mf and mb:
            out.append((int(mu.group(1)), frozenset(f for f in mf.group(1).split() if f != b'\\Recent'),
                        u[mb.end():mb.end() + int(mb.group(1))]))
    await o.cmd(b'CLOSE')
    return nxt, sorted(out)


async def maildir_world(layout):
    """the real MaildirBackend with the same starting point as the dict demo data: INBOX holds uids 101..104 (the UID
    list's next-uid field is set to 101 before the first delivery), Dest is empty"""
    import os
    from .imapdrv import MaildirWorld
    w = await MaildirWorld(layout=layout).start(users=(('alice', 'apass'),))
    a = await w.client('a', user=b'alice', pw=b'apass')
    await a.cmd(b'STATUS INBOX (UIDNEXT)')
    path = os.path.join(w.base, 'alice', 'dovecot-uidlist')
    with open(path) as f:
        lines = f.read().split('\n')
    lines[0] = re.sub(r' N\d+', ' N101', lines[0])
    with open(path, 'w') as f:
        f.write('\n'.join(lines))
    await a.cmd(b'LOGOUT')
    a = await w.client('a2', user=b'alice', pw=b'apass')
    for i, fl in enumerate((b'\\Seen', b'', b'\\Seen \\Flagged', b'\\Answered')):
        body = b'Subject: demo %d\r\n\r\ndemo message %d\r\n' % (i, i)
        await a.cmd(b'APPEND INBOX (' + fl + b') {%d+}\r\n' % len(body) + body)
    return w, a


async def run_program(prog, examine=False, backend='dict'):
    errors = []
    if backend == 'dict':
        w = await World().start()
        a = await w.client('a')
        o = None
    else:
        w, a = await maildir_world(backend)
        o = await w.client('o', user=b'alice', pw=b'apass')
    await a.cmd(b'CREATE Dest')
    model = Model()
    for name in ('INBOX', 'Dest'):
        model.boxes[name] = MBox()
        if backend == 'dict':
            for uid, flags, body in await dump_box(w, name):
                model.boxes[name].msgs.append(MMsg(uid, flags, body))
            mbx = await w.mailbox(name)
            model.boxes[name].next_uid = mbx._max_uid + 1
        else:
            nxt, msgs = await dump_box_proto(o, name)
            for uid, flags, body in msgs:
                model.boxes[name].msgs.append(MMsg(uid, flags, body))
            model.boxes[name].next_uid = nxt
    if backend != 'dict' and [m.uid for m in model.boxes['INBOX'].msgs] != [101, 102, 103, 104]:
        errors.append(f'harness: the maildir store does not start with uids 101..104: {[m.uid for m in model.boxes["INBOX"].msgs]}')
    r = await a.cmd(b'SELECT INBOX')
    model.selected = 'INBOX'
    view = ClientView()
    for u in r['untagged']:
        view.apply(u, 'select')
    sig = []
    b = None
    if any(c[0] == 'peer' for c in prog):
        b = await w.client('b', **({} if backend == 'dict' else dict(user=b'alice', pw=b'apass')))
        await b.cmd(b'SELECT INBOX')
    for step, cmd in enumerate(prog):
        line, lits = wire(cmd)
        if cmd[0] == 'peer':
            # the other session acts; the session under test is not polled (its next command must cope by itself)
            r = await b.cmd(line, lits or ())
            where = f'step {step} (other session) {line.decode()}'
            expect = apply_model(model, cmd)
            if not r['answered'] or r['tagged'].split()[1] != expect:
                errors.append(f'{where}: tagged {r["tagged"]!r} but the model says {expect.decode()}')
                break
            sig.append((b'peer ' + line, expect, 0))
            continue
        r = await a.cmd(line, lits or ())
        where = f'step {step} {line.decode()}'
        if not r['answered']:
            errors.append(f'{where}: no tagged response')
            break
        expect = apply_model(model, cmd)
        got = r['tagged'].split()[1]
        if got != expect:
            errors.append(f'{where}: tagged {got.decode()} but the model says {expect.decode()}')
        for u in r['untagged']:
            view.apply(u, where)
        errors.extend(view.errors)
        view.errors.clear()
        sig.append((line, got, len(r['untagged'])))
        # observable state: the session's own listing must equal the model
        rl = await a.cmd(b'FETCH 1:* (UID FLAGS)')
        for u in rl['untagged']:
            view.apply(u, where + ' listing')
        errors.extend(view.errors)
        view.errors.clear()
        listing = parse_listing(rl['untagged'])
        want = [(m.uid, frozenset(m.flags)) for m in model.box().msgs]
        if listing != want:
            errors.append(f'{where}: session lists {listing}, model has {want}')
        if errors:
            break
    if not errors:
        for name in ('INBOX', 'Dest'):
            if backend == 'dict':
                real = await dump_box(w, name)
                want = [(m.uid, frozenset(m.flags), m.body) for m in model.boxes[name].msgs]
            else:
                # the maildir backend stores LF line ends (known finding of C03): bodies are compared modulo CRLF/LF
                real = [(u, f, _norm(b)) for u, f, b in (await dump_box_proto(o, name))[1]]
                want = [(m.uid, frozenset(m.flags), _norm(m.body)) for m in model.boxes[name].msgs]
            if real != want:
                errors.append(f'final contents of {name}: real {[(u, sorted(f)) for u, f, _ in real]} '
                              f'model {[(u, sorted(f)) for u, f, _ in want]}' +
                              (' (bodies differ)' if [(u, f) for u, f, _ in real] == [(u, f) for u, f, _ in want] else ''))
    await w.close()
    if hasattr(w, 'cleanup'):
        w.cleanup()
    exc = a.exception()
    if exc is not None:
        errors.append(f'connection died: {exc!r}')
    return errors, tuple(sig)


def _worker(prog):
    backend = 'dict'
    if prog and isinstance(prog[0], str) and prog[0].startswith('@'):
        backend, prog = prog[0][1:], prog[1:]
    try:
        errs, sig = run(run_program(prog, backend=backend))
    except Exception as exc:    # noqa
        import traceback
        return prog, [f'harness exception {exc!r} {traceback.format_exc()[-300:]}'], ()
    return prog, errs, sig


def programs(tier, seed):
    import random
    al = alphabet(tier)
    for c in al:
        yield (c,)
    rnd = random.Random(seed)
    if tier == 'quick':
        # all pairs over a reduced alphabet + a seeded sample of the full pair space
        small = [c for c in al if c[0] in ('expunge', 'append') or (c[0] == 'store' and c[1] in (b'3:2', b'*', b'9:*')
                                                                     and c[2] in (b'FLAGS', b'+FLAGS'))
                 or (c[0] in ('copy', 'fetch') and c[1] in (b'*', b'200:*'))]
        for p in itertools.product(small, repeat=2):
            yield p
        for _ in range(1500):
            yield (rnd.choice(al), rnd.choice(al), rnd.choice(al))
        for p in peer_pairs(tier):
            yield p
    else:
        for p in peer_pairs(tier):
            yield p
        for p in itertools.product(al, repeat=2):
            yield p
        for _ in range(20000):
            yield tuple(rnd.choice(al) for _ in range(rnd.choice((3, 4))))


def bounded_refmodel(label, backend='dict'):
    from pyvc.prop import BoundedResult

    def fn(tier, seed):
        res = BoundedResult()
        progs = list(programs(tier, seed))
        if backend != 'dict':
            # the maildir backend (thread pool, real files): every single command, and a seeded sample of pairs and triples
            import random
            rnd = random.Random(seed)
            al = alphabet(tier)
            progs = [(c,) for c in al] + [tuple(rnd.choice(al) for _ in range(rnd.choice((2, 3)))) for _ in range(400 if tier == 'quick' else 6000)]
            pp = peer_pairs(tier)
            progs += pp if tier != 'quick' else pp[::3]
            progs = [('@' + backend,) + p for p in progs]
        res.exhaustive = False if tier == 'quick' else False
        res.note = 'single commands and pairs: exhaustive over the stated alphabet; longer programs: seeded sample'
        with mp.get_context('fork').Pool(16) as pool:
            for prog, errs, sig in pool.imap_unordered(_worker, progs, chunksize=16):
                res.evaluations += 1
                res.distinct.add(sig)
                if errs:
                    res.fail(f'{label}/agrees_with_reference_model',
                             [('(other session) ' if c[0] == 'peer' else '') + wire(c)[0].decode()
                              for c in prog if not isinstance(c, str)], errs[:3])
                elif len(res.samples) < 2:
                    res.samples.append(dict(program=[wire(c)[0].decode() for c in prog if not isinstance(c, str)], result='agrees'))
        return res
    return fn
