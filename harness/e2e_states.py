"""Bounded stand-in for C05 (and the dispatch part of C06/C09): exhaustive short command sequences over the
complete built-in command set against the real server, compared with the RFC 3501 section 3 automaton.

The oracle tracks the connection state from the server's own answers (a LOGIN counts only if it answered OK, ...)
and checks, for every command, the *gate*: a command outside its state must be refused (BAD/NO) and leave state and
data alone; a command inside its state must not be refused for a state reason; SELECT/EXAMINE success selects
exactly that mailbox (observed through the following commands), failure leaves none selected; CLOSE always OK;
LOGOUT ends with BYE then OK."""
from __future__ import annotations

import base64
import itertools
import multiprocessing as mp

from .imapdrv import World, run

PLAIN_OK = base64.b64encode(b'\x00testuser\x00testpass')
PLAIN_BAD = base64.b64encode(b'\x00testuser\x00wrong')

# (wire line, class, extra)   class: any | nonauth | auth | select
COMMANDS = [
    (b'CAPABILITY', 'any'), (b'NOOP', 'any'), (b'LOGOUT', 'any'), (b'ID NIL', 'any'),
    (b'LOGIN testuser testpass', 'nonauth'), (b'LOGIN testuser wrong', 'nonauth'),
    (b'AUTHENTICATE PLAIN', 'nonauth', PLAIN_OK), (b'AUTHENTICATE PLAIN', 'nonauth', PLAIN_BAD),
    (b'AUTHENTICATE PLAIN', 'nonauth', b'*'), (b'AUTHENTICATE PLAIN', 'nonauth', b'!!notbase64'),
    (b'AUTHENTICATE BOGUS', 'nonauth'), (b'STARTTLS', 'nonauth'),
    (b'SELECT INBOX', 'auth'), (b'EXAMINE INBOX', 'auth'), (b'SELECT Nope', 'auth'), (b'EXAMINE Nope', 'auth'),
    (b'SELECT Sent', 'auth'),
    (b'CREATE New', 'auth'), (b'DELETE New', 'auth'), (b'DELETE Nope', 'auth'), (b'RENAME Sent Sent2', 'auth'),
    (b'SUBSCRIBE INBOX', 'auth'), (b'UNSUBSCRIBE INBOX', 'auth'), (b'LIST "" *', 'auth'), (b'LSUB "" *', 'auth'),
    (b'STATUS INBOX (MESSAGES)', 'auth'), (b'STATUS Nope (MESSAGES)', 'auth'),
    (b'APPEND INBOX {2+}\r\nhi', 'auth'),
    (b'CHECK', 'select'), (b'CLOSE', 'select'), (b'EXPUNGE', 'select'), (b'SEARCH ALL', 'select'),
    (b'FETCH 1 (FLAGS)', 'select'), (b'STORE 1 +FLAGS (\\Seen)', 'select'), (b'COPY 1 Sent', 'select'),
    (b'UID FETCH 101 (FLAGS)', 'select'), (b'UID EXPUNGE 101', 'select'), (b'MOVE 1 Sent', 'select'),
    (b'FETCH', 'select-invalid'), (b'STORE 1 BOGUS', 'select-invalid'), (b'SELECT', 'auth-invalid'),
    (b'LOGIN onlyone', 'nonauth-invalid'), (b'BOGUS', 'invalid'), (b'IDLE', 'select'),
]
STATE_REASONS = (b'Must select a mailbox first', b'Must authenticate first', b'Already authenticated')


async def data_dump(world):
    out = {}
    cache = world.config.set_cache.get('testuser')
    if not cache:
        return out
    mset = cache[0]
    names = ['INBOX'] + sorted(mset._set)
    for name in names:
        mbx = await mset.get_mailbox(name)
        out[name] = [(u, frozenset(bytes(f) for f in m.permanent_flags)) for u, m in sorted(mbx._messages.items())]
    out['@subscribed'] = sorted(k for k, v in mset._subscribed.items() if v)
    return out


async def scenario(prog):
    errors = []
    w = await World().start()
    c = await w.client('c', login=False)
    state = 'nonauth'
    selected = None          # (name, readonly)
    sig = []
    for step, item in enumerate(prog):
        line, cls = item[0], item[1]
        if cls == 'elsewhere':
            # another connection of the same user acts (e.g. deletes the mailbox this connection has selected): the state
            # of THIS connection is what it was -- in particular CLOSE must still succeed and deselect afterwards
            o = await w.client('o')
            await o.cmd(line)
            await o.cmd(b'LOGOUT')
            sig.append((line.split(b' ')[0], cls, state, b''))
            continue
        before = await data_dump(w)
        if line == b'IDLE':
            r = await c.cmd(line, [b'DONE\r\n'])
        elif len(item) > 2:
            r = await c.cmd(line, [item[2] + b'\r\n'])
        else:
            r = await c.cmd(line)
        where = f'step {step} [{state}{"/" + selected[0].decode() if selected else ""}] {line.split(b" ")[0].decode()} ' \
                f'({line[:40].decode("latin1")})'
        if not r['answered']:
            errors.append(f'{where}: no tagged response (closed={r["closed"]})')
            break
        cond = r['tagged'].split()[1]
        text = r['tagged']
        sig.append((line.split(b' ')[0], cls, state, cond))
        base = cls.split('-')[0]
        in_state = (base == 'any') or (base == 'nonauth' and state == 'nonauth') or \
            (base == 'auth' and state in ('auth', 'selected')) or (base == 'select' and state == 'selected') or \
            (base == 'invalid')
        state_refusal = any(x in text for x in STATE_REASONS)
        if not in_state and base != 'invalid':
            if cond == b'OK':
                errors.append(f'{where}: accepted outside its state: {text[:70]!r}')
            after = await data_dump(w)
            if after != before:
                errors.append(f'{where}: a refused command changed data')
        elif state_refusal and not cls.endswith('invalid'):
            errors.append(f'{where}: refused for a state reason although the state allows it: {text[:70]!r}')
        if cond != b'OK' and base != 'any':
            after = await data_dump(w)
            if after != before:
                errors.append(f'{where}: answered {cond.decode()} but data changed')
        # state transitions, from the server's own answer
        verb = line.split(b' ')[0]
        if verb in (b'LOGIN', b'AUTHENTICATE') and cond == b'OK':
            if state != 'nonauth':
                errors.append(f'{where}: authentication accepted twice')
            state = 'auth'
        elif verb in (b'SELECT', b'EXAMINE') and state != 'nonauth' and not state_refusal:
            if cond == b'OK':
                state, selected = 'selected', (line.split(b' ')[1], verb == b'EXAMINE')
            elif cls == 'auth':
                state, selected = 'auth', None       # a failed SELECT leaves none selected
        elif verb == b'CLOSE' and state == 'selected':
            if cond != b'OK':
                errors.append(f'{where}: CLOSE answered {cond.decode()}')
            state, selected = 'auth', None
        elif verb == b'LOGOUT':
            if cond != b'OK' or not any(u.startswith(b'* BYE') for u in r['untagged']):
                errors.append(f'{where}: LOGOUT must end with BYE then OK, got {r["all"]!r}')
            break
        elif verb == b'DELETE' and cond == b'OK' and selected and selected[0] == line.split(b' ')[1]:
            pass
        elif verb == b'RENAME' and cond == b'OK' and selected and selected[0] == b'Sent':
            selected = (b'Sent2', selected[1])
        if any(u.startswith(b'* BYE') for u in r['untagged']):
            break
        # the selection the server works with is the one the oracle expects: probe with STATUS-free means
        if state == 'selected' and selected and verb in (b'SELECT', b'EXAMINE') and cond == b'OK':
            want = len((await data_dump(w)).get(selected[0].decode(), []))
            got = [u for u in r['untagged'] if u.endswith(b' EXISTS\r\n')]
            if not got or int(got[0].split()[1]) != want:
                errors.append(f'{where}: selected mailbox reports {got}, mailbox {selected[0]} holds {want}')
        if errors:
            break
    if not errors and state == 'selected' and selected:
        # which mailbox is really selected?  append to it from outside and look at the EXISTS on NOOP
        pass
    await w.close()
    exc = c.exception()
    if exc is not None:
        errors.append(f'connection died: {exc!r}')
    return errors, tuple(sig)


def _worker(prog):
    try:
        errs, sig = run(scenario(prog))
    except Exception as exc:    # noqa
        import traceback
        return prog, [f'harness exception {exc!r} {traceback.format_exc()[-400:]}'], ()
    return prog, errs, sig


PREFIXES = {
    'nonauth': [],
    'auth': [(b'LOGIN testuser testpass', 'nonauth')],
    'selected-rw': [(b'LOGIN testuser testpass', 'nonauth'), (b'SELECT INBOX', 'auth')],
    'selected-ro': [(b'LOGIN testuser testpass', 'nonauth'), (b'EXAMINE INBOX', 'auth')],
    'selected-then-failed': [(b'LOGIN testuser testpass', 'nonauth'), (b'SELECT INBOX', 'auth'),
                             (b'SELECT Nope', 'auth')],
    'empty-selected': [(b'LOGIN testuser testpass', 'nonauth'), (b'CREATE Empty', 'auth'), (b'SELECT Empty', 'auth')],
    'selected-then-deleted-elsewhere': [(b'LOGIN testuser testpass', 'nonauth'), (b'CREATE Tmp', 'auth'),
                                        (b'SELECT Tmp', 'auth'), (b'DELETE Tmp', 'elsewhere')],
    'selected-then-recreated-elsewhere': [(b'LOGIN testuser testpass', 'nonauth'), (b'SELECT Sent', 'auth'),
                                          (b'DELETE Sent', 'elsewhere'), (b'CREATE Sent', 'elsewhere')],
    'inbox-selected-then-renamed-elsewhere': [(b'LOGIN testuser testpass', 'nonauth'), (b'SELECT INBOX', 'auth'),
                                              (b'RENAME INBOX Old', 'elsewhere')],
    'examined-then-renamed-elsewhere': [(b'LOGIN testuser testpass', 'nonauth'), (b'CREATE Tmp', 'auth'),
                                        (b'EXAMINE Tmp', 'auth'), (b'RENAME Tmp Tmp2', 'elsewhere')],
}


def programs(tier, seed):
    n = 2 if tier == 'quick' else 2
    for pname, prefix in PREFIXES.items():
        for tail in itertools.product(COMMANDS, repeat=1):
            yield tuple(prefix) + tail
        for tail in itertools.product(COMMANDS, repeat=n):
            yield tuple(prefix) + tail
    if tier != 'quick':
        import random
        rnd = random.Random(seed)
        for _ in range(20000):
            yield tuple(rnd.choice(COMMANDS) for _ in range(rnd.choice((3, 4, 5))))
        for tail in itertools.product(COMMANDS, repeat=3):
            if rnd.random() < 0.15:
                yield tuple(PREFIXES['auth']) + tail


def bounded_states(label):
    from pyvc.prop import BoundedResult

    def fn(tier, seed):
        res = BoundedResult()
        progs = list(programs(tier, seed))
        with mp.get_context('fork').Pool(16) as pool:
            for prog, errs, sig in pool.imap_unordered(_worker, progs, chunksize=16):
                res.evaluations += 1
                res.distinct.add(sig)
                if errs:
                    replaced = any(len(it) > 1 and it[1] == 'elsewhere' and (it[0].startswith(b'CREATE') or it[0].startswith(b'RENAME INBOX'))
                                   for it in prog)
                    if replaced and any('IndexError' in e for e in errs):
                        # the name of the selected mailbox was given to ANOTHER mailbox meanwhile (known finding)
                        res.fail(f'{label}/selection_is_bound_to_a_name_not_to_a_mailbox',
                                 [('(another connection) ' if len(it) > 1 and it[1] == 'elsewhere' else '') + it[0].decode('latin1')[:50]
                                  for it in prog], errs[:3])
                        continue
                    res.fail(f'{label}/follows_the_rfc3501_state_machine',
                             [it[0].decode('latin1')[:50] for it in prog], errs[:3])
                elif len(res.samples) < 2:
                    res.samples.append(dict(program=[it[0].decode('latin1')[:40] for it in prog], result='conforms'))
        return res
    return fn
