"""Bounded (stress, NOT exhaustive) stand-in for C04's "all interleavings" on the maildir backend, whose commands run in
real threads (the threading subsystem, as `pymap ... maildir` sets it up): one session appends N messages to INBOX while
another keeps opening the same mailbox (STATUS, which runs get_mailbox -> reset -> adoption of files without a record) and a
third runs CHECK (cleanup: records without a file are pruned).  Afterwards: exactly N messages, each under exactly the UID its
APPENDUID announced, every UID 1..N visible, none twice."""
from __future__ import annotations

import asyncio
import multiprocessing as mp
import re

from .imapdrv import MaildirWorld, run


async def race(n, layout, with_check):
    errors = []
    # one lock acquisition may sleep through FileLock's whole retry sequence (10 s) before it is granted or refused, and a
    # command takes several: "no answer" is only declared well beyond that (the statement sets no time bound)
    w = await MaildirWorld(layout=layout, time_budget=90.0).start(users=(('alice', 'apass'),))
    try:
        w.config.apply_context()          # what pymap.main does: the threading subsystem for this backend
    except Exception:   # noqa
        pass
    from pymap.context import subsystem
    kind = subsystem.get().subsystem
    a = await w.client('a', user=b'alice', pw=b'apass')
    b = await w.client('b', user=b'alice', pw=b'apass')
    c = await w.client('c', user=b'alice', pw=b'apass')
    await c.cmd(b'SELECT INBOX')
    stop = False
    announced = {}
    refused = set()

    async def appender():
        for i in range(n):
            body = b'Subject: s%dx\n\nbody\n' % i
            r = await a.cmd(b'APPEND INBOX {%d+}\r\n' % len(body) + body, budget=200000)
            m = re.search(rb'APPENDUID \d+ (\d+)', r['tagged'] or b'')
            if not m and r['tagged'] and b' NO [TIMEOUT]' in r['tagged']:
                refused.add(i)          # the lock file stayed contended past FileLock's retries: refused, must leave nothing
                continue
            if not m:
                errors.append(f'APPEND {i} answered {r["tagged"]!r}')
                return
            announced[i] = int(m.group(1))

    async def poller(cl, line):
        while not stop:
            await cl.cmd(line, budget=200000)
            await asyncio.sleep(0)
    tasks = [asyncio.create_task(poller(b, b'STATUS INBOX (MESSAGES)'))]
    if with_check:
        tasks.append(asyncio.create_task(poller(c, b'CHECK')))
    await appender()
    stop = True
    for t in tasks:
        await t
    o = await w.client('o', user=b'alice', pw=b'apass')
    await o.cmd(b'EXAMINE INBOX')
    r = await o.cmd(b'UID FETCH 1:* (UID BODY.PEEK[HEADER.FIELDS (SUBJECT)])', budget=400000)
    by = {}
    for u in r['untagged']:
        mu = re.search(rb'UID (\d+)', u)
        ms = re.search(rb'Subject: s(\d+)x', u)
        if mu and ms:
            by.setdefault(int(ms.group(1)), []).append(int(mu.group(1)))
    for i, uid in sorted(announced.items()):
        got = by.get(i, [])
        if got != [uid]:
            errors.append(f'message {i}: APPENDUID announced uid {uid}, it is now present under uids {got} '
                          f'({"twice: one file, two UID records" if len(got) > 1 else "its record was replaced or pruned"})')
            if len(errors) > 3:
                break
    for i in sorted(refused):
        if by.get(i):
            errors.append(f'message {i}: APPEND was answered NO [TIMEOUT] but the message is in the mailbox under uids {by[i]}')
    await w.close()
    w.cleanup()
    return errors, (layout, kind, len(announced) + len(refused))


def _worker(args):
    try:
        return args, *run(race(*args))
    except Exception as exc:    # noqa
        import traceback
        return args, [f'harness exception {exc!r} {traceback.format_exc()[-500:]}'], ()


def bounded_race(label):
    from pyvc.prop import BoundedResult

    def fn(tier, seed):
        res = BoundedResult()
        res.exhaustive = False
        res.note = 'stress run in real threads: finds races with some probability, proves nothing'
        reps = 1 if tier == 'quick' else 6
        items = [(50 if tier == 'quick' else 300, lay, chk) for lay in ('++', 'fs') for chk in (False, True) for _ in range(reps)]
        with mp.get_context('fork').Pool(8) as pool:
            for args, errs, sig in pool.imap_unordered(_worker, items):
                res.evaluations += args[0]
                res.distinct.add(sig)
                if errs:
                    res.fail(f'{label}/appended_messages_keep_the_uid_they_were_given_under_concurrency',
                             dict(appends=args[0], layout=args[1], concurrent_check=args[2], threads=(sig[1] if sig else '?')), errs[:3])
                elif len(res.samples) < 2:
                    res.samples.append(dict(appends=args[0], layout=args[1], subsystem=sig[1], result='every message once, under its uid'))
        return res
    return fn
