"""Bounded stand-in for C13: SEARCH / UID SEARCH on the real server against an independent evaluator, over a mailbox of
crafted messages (flags, sizes, internal dates, sent dates, headers, bodies) and search programs up to nesting depth 2
built from every supported key; UID and sequence-number results must denote the same messages; logically equivalent
programs must return the same set; views with hidden expunged messages are included."""
from __future__ import annotations

import itertools
import multiprocessing as mp
import re
from datetime import date

from .imapdrv import World, run

MSGS = [
    # (flags, internal date, sent date header, from, to, cc, bcc, subject, extra header, body)
    dict(flags=[b'\\Seen'], idate='01-Jan-2020 10:00:00 +0000', sent='Wed, 01 Jan 2020 09:00:00 +0000',
         frm='alice@example.com', to='bob@example.com', cc='', bcc='', subject='hello world', xh='one',
         body='the quick brown fox\r\n'),
    dict(flags=[b'\\Flagged', b'\\Answered'], idate='15-Feb-2020 23:30:00 +0000', sent='Sat, 15 Feb 2020 08:00:00 +0000',
         frm='carol@example.org', to='alice@example.com', cc='dave@example.com', bcc='', subject='Re: HELLO again',
         xh='two', body='needle in the body\r\nsecond line\r\n' + 'x' * 600),
    dict(flags=[b'\\Deleted', b'\\Seen'], idate='02-Mar-2020 00:10:00 +0000', sent='Sun, 01 Mar 2020 12:00:00 +0000',
         frm='bob@example.com', to='carol@example.org', cc='', bcc='eve@example.net', subject='needle in subject',
         xh='three needle', body='plain body without it\r\n'),
    dict(flags=[b'\\Draft'], idate='02-Mar-2020 18:00:00 +0000', sent='Mon, 02 Mar 2020 18:00:00 +0000',
         frm='eve@example.net', to='bob@example.com', cc='alice@example.com', bcc='', subject='', xh='',
         body=''),
    dict(flags=[], idate='31-Dec-2019 12:00:00 +0000', sent='Tue, 31 Dec 2019 12:00:00 +0000',
         frm='dave@example.com', to='eve@example.net', cc='', bcc='', subject='Quick question', xh='five',
         body='fox fox fox\r\n' * 40),
    # dates near midnight with a zone offset: RFC 3501 compares the date as written, disregarding time and timezone
    dict(flags=[b'\\Seen'], idate='02-Mar-2020 00:30:00 +0200', sent='Sat, 15 Feb 2020 23:30:00 -0500',
         frm='frank@example.com', to='bob@example.com', cc='', bcc='', subject='zones', xh='six',
         body='east of greenwich\r\n'),
    dict(flags=[b'\\Flagged'], idate='14-Feb-2020 23:45:00 -0800', sent='Mon, 02 Mar 2020 00:15:00 +0300',
         frm='grace@example.org', to='eve@example.net', cc='', bcc='', subject='zones again', xh='',
         body='west of greenwich\r\n'),
]
_MON = dict(Jan=1, Feb=2, Mar=3, Apr=4, May=5, Jun=6, Jul=7, Aug=8, Sep=9, Oct=10, Nov=11, Dec=12)


def build(m):
    h = f'From: {m["frm"]}\r\nTo: {m["to"]}\r\n'
    if m['cc']:
        h += f'Cc: {m["cc"]}\r\n'
    if m['bcc']:
        h += f'Bcc: {m["bcc"]}\r\n'
    h += f'Subject: {m["subject"]}\r\nDate: {m["sent"]}\r\n'
    if m['xh']:
        h += f'X-Test: {m["xh"]}\r\n'
    return (h + '\r\n' + m['body']).encode('ascii')


def _d(s):
    m = re.search(r'(\d+)[- ]([A-Za-z]{3})[- ](\d{4})', s)
    return date(int(m.group(3)), _MON[m.group(2)], int(m.group(1)))


class Rec:
    def __init__(self, seq, uid, m, raw, recent):
        self.seq, self.uid, self.m, self.raw, self.recent = seq, uid, m, raw, recent
        self.flags = set(m['flags'])
        self.size = len(raw)
        self.idate = _d(m['idate'])
        self.sent = _d(m['sent'])


DATES = ['02-Mar-2020', '15-Feb-2020', '1-Jan-2020']
STRS = ['needle', 'HELLO', 'example.com', 'fox', 'zzz']
SIZES = [100, 700]


def leaf_keys():
    ks = [('ALL',), ('ANSWERED',), ('UNANSWERED',), ('DELETED',), ('UNDELETED',), ('DRAFT',), ('UNDRAFT',),
          ('FLAGGED',), ('UNFLAGGED',), ('SEEN',), ('UNSEEN',), ('RECENT',), ('OLD',), ('NEW',),
          ('KEYWORD', '$nope'), ('UNKEYWORD', '$nope')]
    for d in DATES:
        ks += [('BEFORE', d), ('ON', d), ('SINCE', d), ('SENTBEFORE', d), ('SENTON', d), ('SENTSINCE', d)]
    for s in STRS:
        ks += [('FROM', s), ('TO', s), ('CC', s), ('BCC', s), ('SUBJECT', s), ('BODY', s), ('TEXT', s),
               ('HEADER', 'X-Test', s), ('HEADER', 'Subject', s)]
    ks += [('HEADER', 'X-Test', ''), ('HEADER', 'Cc', '')]
    for n in SIZES:
        ks += [('LARGER', n), ('SMALLER', n)]
    ks += [('SEQ', '2:3'), ('SEQ', '*'), ('SEQ', '1,4:*'), ('SEQ', '9:*'), ('UIDSET', '102:103'), ('UIDSET', '*'),
           ('UIDSET', '1:102')]
    return ks


def wire(k):
    n = k[0]
    if n == 'SEQ':
        return k[1]
    if n == 'UIDSET':
        return 'UID ' + k[1]
    if n == 'NOT':
        return 'NOT ' + wire(k[1])
    if n == 'OR':
        return 'OR ' + wire(k[1]) + ' ' + wire(k[2])
    if n == 'AND':
        return '(' + ' '.join(wire(x) for x in k[1:]) + ')'
    if n == 'HEADER':
        return f'HEADER {k[1]} "{k[2]}"'
    if len(k) == 2:
        v = k[1]
        return f'{n} {v}' if isinstance(v, int) or n in ('BEFORE', 'ON', 'SINCE', 'SENTBEFORE', 'SENTON', 'SENTSINCE',
                                                         'KEYWORD', 'UNKEYWORD') else f'{n} "{v}"'
    return n


def seqset(text, mx):
    out = set()
    for part in text.split(','):
        if ':' in part:
            a, b = part.split(':')
            a = mx if a == '*' else int(a)
            b = mx if b == '*' else int(b)
            out.update(range(min(a, b), min(max(a, b), mx) + 1))
        else:
            v = mx if part == '*' else int(part)
            if v <= mx:
                out.add(v)
    return out


def has(sub, text):
    return sub.lower() in text.lower()


def ev(k, r: Rec, view):
    """RFC 3501 6.4.4 semantics of one key on one message (independent of pymap)"""
    n = k[0]
    flag = {'ANSWERED': b'\\Answered', 'DELETED': b'\\Deleted', 'DRAFT': b'\\Draft', 'FLAGGED': b'\\Flagged',
            'SEEN': b'\\Seen'}
    if n == 'ALL':
        return True
    if n in flag:
        return flag[n] in r.flags
    if n.startswith('UN') and n[2:] in flag:
        return flag[n[2:]] not in r.flags
    if n == 'RECENT':
        return r.recent
    if n == 'OLD':
        return not r.recent
    if n == 'NEW':
        return r.recent and b'\\Seen' not in r.flags
    if n == 'KEYWORD':
        return False
    if n == 'UNKEYWORD':
        return True
    if n in ('BEFORE', 'ON', 'SINCE'):
        d = _d(k[1])
        return r.idate < d if n == 'BEFORE' else (r.idate == d if n == 'ON' else r.idate >= d)
    if n in ('SENTBEFORE', 'SENTON', 'SENTSINCE'):
        d = _d(k[1])
        return r.sent < d if n == 'SENTBEFORE' else (r.sent == d if n == 'SENTON' else r.sent >= d)
    if n in ('FROM', 'TO', 'CC', 'BCC', 'SUBJECT'):
        field = {'FROM': 'frm', 'TO': 'to', 'CC': 'cc', 'BCC': 'bcc', 'SUBJECT': 'subject'}[n]
        return bool(r.m[field]) and has(k[1], r.m[field])
    if n == 'BODY':
        return has(k[1], r.m['body'])
    if n == 'TEXT':
        return has(k[1], r.raw.decode('ascii'))
    if n == 'HEADER':
        name = k[1].lower()
        vals = {'x-test': r.m['xh'], 'subject': r.m['subject'], 'cc': r.m['cc']}
        present = {'x-test': bool(r.m['xh']), 'subject': True, 'cc': bool(r.m['cc'])}[name]
        return present and has(k[2], vals[name])
    if n == 'LARGER':
        return r.size > k[1]
    if n == 'SMALLER':
        return r.size < k[1]
    if n == 'SEQ':
        return r.seq in seqset(k[1], len(view))
    if n == 'UIDSET':
        return r.uid in seqset(k[1], max(x.uid for x in view) if view else 0)
    if n == 'NOT':
        return not ev(k[1], r, view)
    if n == 'OR':
        return ev(k[1], r, view) or ev(k[2], r, view)
    if n == 'AND':
        return all(ev(x, r, view) for x in k[1:])
    raise ValueError(k)


_SEARCH = re.compile(rb'^\* SEARCH((?: \d+)*)\r\n$')


def parse_search(resp):
    for u in resp['untagged']:
        m = _SEARCH.match(u)
        if m:
            return [int(x) for x in m.group(1).split()]
    return None


def random_corpus(rnd):
    """a mailbox of 3..8 randomly generated messages: flags, sizes around the SMALLER/LARGER thresholds, internal and sent
    dates around the searched days at any time of day and in any zone, header and body text from pools that contain the
    searched strings in several letter cases"""
    days = [(31, 'Dec', 2019), (1, 'Jan', 2020), (2, 'Jan', 2020), (14, 'Feb', 2020), (15, 'Feb', 2020), (16, 'Feb', 2020),
            (1, 'Mar', 2020), (2, 'Mar', 2020), (3, 'Mar', 2020)]
    wd = {(31, 'Dec'): 'Tue', (1, 'Jan'): 'Wed', (2, 'Jan'): 'Thu', (14, 'Feb'): 'Fri', (15, 'Feb'): 'Sat', (16, 'Feb'): 'Sun',
          (1, 'Mar'): 'Sun', (2, 'Mar'): 'Mon', (3, 'Mar'): 'Tue'}
    addrs = ['alice@example.com', 'bob@example.com', 'carol@example.org', 'Needle@Example.COM', 'zed@zzz.net', 'fox@den.org', '']
    words = ['hello world', 'Re: HELLO again', 'needle in subject', '', 'Quick question', 'FOX', 'nothing here', 'zzz']
    bodies = ['the quick brown fox\r\n', 'NEEDLE\r\n', 'plain\r\n', '', 'hello example.com\r\n']

    def when():
        d, mon, y = rnd.choice(days)
        hh, mm = rnd.choice([(0, 5), (0, 30), (1, 59), (12, 0), (22, 1), (23, 30), (23, 59)])
        zone = rnd.choice(['+0000', '+0200', '-0500', '+1400', '-1200', '+0530', '-0330'])
        return d, mon, y, hh, mm, zone
    out = []
    for _ in range(rnd.randint(3, 8)):
        d, mon, y, hh, mm, zone = when()
        idate = f'{d:02d}-{mon}-{y} {hh:02d}:{mm:02d}:00 {zone}'
        d, mon, y, hh, mm, zone = when()
        sent = f'{wd[(d, mon)]}, {d:02d} {mon} {y} {hh:02d}:{mm:02d}:00 {zone}'
        body = rnd.choice(bodies) + 'x' * rnd.choice([0, 0, 40, 400, 900])
        out.append(dict(flags=sorted(rnd.sample([b'\\Seen', b'\\Flagged', b'\\Answered', b'\\Deleted', b'\\Draft'],
                                                rnd.randint(0, 3))),
                        idate=idate, sent=sent, frm=rnd.choice(addrs[:6]), to=rnd.choice(addrs[:6]), cc=rnd.choice(addrs),
                        bcc=rnd.choice(addrs), subject=rnd.choice(words), xh=rnd.choice(['', 'one', 'three needle', 'HELLO']),
                        body=body))
    return out


async def setup(hidden_expunge=False, msgs=None, backend='dict'):
    MSGS = msgs if msgs is not None else globals()['MSGS']
    if backend == 'dict':
        w = await World().start()
        c = await w.client('c')
    else:
        from .imapdrv import MaildirWorld
        w = await MaildirWorld(layout='++', time_budget=30.0).start()
        c = await w.client('c', user=b'alice', pw=b'apass')
    await c.cmd(b'CREATE Box')
    raws = []
    uids = []
    for m in MSGS:
        raw = build(m)
        raws.append(raw)
        fl = b' '.join(m['flags'])
        r = await c.cmd(b'APPEND Box (' + fl + b') "' + m['idate'].encode() + b'" {%d}' % len(raw), [raw + b'\r\n'])
        mu = re.search(rb'APPENDUID \d+ (\d+)', r['tagged'])
        uids.append(int(mu.group(1)) if mu else None)
    await c.cmd(b'SELECT Box')
    view = [Rec(i + 1, uids[i], m, raws[i], True) for i, m in enumerate(MSGS)]
    if backend != 'dict':
        # a maildir keeps the internal date as a point in time, not as the date-time text of the APPEND (the zone is not
        # stored): the session's view of INTERNALDATE and of \Recent is what FETCH serves, and SEARCH is held to that
        r = await c.cmd(b'FETCH 1:* (UID INTERNALDATE FLAGS)')
        served = {}
        for u in r['untagged']:
            mu = re.search(rb'UID (\d+)', u)
            md = re.search(rb'INTERNALDATE "([^"]+)"', u)
            mf = re.search(rb'FLAGS \(([^)]*)\)', u)
            if mu and md and mf:
                served[int(mu.group(1))] = (md.group(1).decode().strip(), b'\\Recent' in mf.group(1).split())
        view = [Rec(i + 1, uids[i], dict(m, idate=served[uids[i]][0]), raws[i], served[uids[i]][1]) for i, m in enumerate(MSGS)]
    if hidden_expunge:
        # another session expunges message 3 (already \Deleted); the searching session only issues non-UID commands,
        # so the expunge stays hidden and message 3 stays in its view
        o = await w.client('o')
        await o.cmd(b'SELECT Box')
        await o.cmd(b'EXPUNGE')
    return w, c, view


async def run_batch(programs, hidden, msgs=None, backend='dict'):
    errors = []
    w, c, view = await setup(hidden, msgs, backend)
    sigs = []
    for prog in programs:
        text = ' '.join(wire(k) for k in prog)
        want = [r.seq for r in view if all(ev(k, r, view) for k in prog)]
        r = await c.cmd(b'SEARCH ' + text.encode())
        got = parse_search(r)
        where = f'SEARCH {text}' + (' [hidden expunge]' if hidden else '') + (f' [{backend} backend]' if backend != 'dict' else '')
        if not r['answered'] or got is None:
            errors.append((prog, f'{where}: answered {r["tagged"]!r}'))
            continue
        if hidden:
            # the expunged message may be reported or not (EXPUNGEISSUED); all others must be exact
            gone = {3}
            if set(got) - gone != set(want) - gone:
                errors.append((prog, f'{where}: returned {got}, RFC semantics give {want}'))
        elif got != want:
            errors.append((prog, f'{where}: returned {got}, RFC semantics give {want}'))
        if not hidden:
            ru = await c.cmd(b'UID SEARCH ' + text.encode())
            gotu = parse_search(ru)
            if gotu is None or [view[s - 1].uid for s in got if s <= len(view)] != gotu:
                errors.append((prog, f'UID SEARCH {text}: returned {gotu}, SEARCH returned {got} '
                                     f'(uids {[view[s - 1].uid for s in got if s <= len(view)]})'))
        sigs.append((text, tuple(got)))
    await w.close()
    if hasattr(w, 'cleanup'):
        w.cleanup()         # the maildir world's temporary directory
    return errors, sigs


def _worker(args):
    progs, hidden = args[0], args[1]
    msgs = args[2] if len(args) > 2 else None
    backend = args[3] if len(args) > 3 else 'dict'
    try:
        errs, sigs = run(run_batch(progs, hidden, msgs, backend))
        if backend != 'dict':
            sigs = [(s[0] + ' @' + backend, s[1]) for s in sigs]
        if msgs is not None:
            errs = [(p, e + f'  [mailbox: {[(m["flags"], m["idate"], m["sent"], m["frm"], m["subject"]) for m in msgs]}]')
                    for p, e in errs]
            sigs = [(s[0] + ' @' + str(hash(str(msgs)) % 10007), s[1]) for s in sigs]
    except Exception as exc:    # noqa
        import traceback
        return [(progs[0], f'harness exception {exc!r} {traceback.format_exc()[-400:]}')], []
    return errs, sigs


_P61 = 2 ** 61 - 1        # CPython: hash(n) == hash(n + 2**61 - 1) for ints -- two different keys, one hash


def congruent_programs():
    """two DIFFERENT keys of the same kind whose arguments are numbers with the same CPython hash, in one program (they
    are ANDed): the answer must be that of the conjunction, whatever order they come in"""
    out = []
    for n in SIZES:
        for kind in ('SMALLER', 'LARGER'):
            a, b = (kind, n), (kind, n + _P61)
            out += [(a, b), (b, a), (('OR', a, b),), (('NOT', a), b), (b, ('NOT', a))]
    for a, b in ((('SEQ', '2'), ('SEQ', str(2 + _P61))), (('UIDSET', '102'), ('UIDSET', str(102 + _P61))),
                 (('SEQ', '2:3'), ('SEQ', f'{2 + _P61}:{3 + _P61}'))):
        out += [(a, b), (b, a), (('OR', a, b),), (('OR', b, a),)]
    return out


def programs(tier, seed):
    import random
    leaves = leaf_keys()
    progs = [(k,) for k in leaves]
    progs += [(('NOT', k),) for k in leaves]
    progs += congruent_programs()
    rnd = random.Random(seed)
    pick = lambda: rnd.choice(leaves)
    n2 = 1500 if tier == 'quick' else 12000
    for _ in range(n2):
        shape = rnd.choice(['and2', 'or', 'notor', 'group', 'ornot', 'and3', 'k-not-k', 'dup', 'nested'])
        a, b, c = pick(), pick(), pick()
        if shape == 'and2':
            progs.append((a, b))
        elif shape == 'or':
            progs.append((('OR', a, b),))
        elif shape == 'notor':
            progs.append((('NOT', ('OR', a, b)), c))
        elif shape == 'group':
            progs.append((('AND', a, b), c))
        elif shape == 'ornot':
            progs.append((('OR', ('NOT', a), b),))
        elif shape == 'and3':
            progs.append((a, b, c))
        elif shape == 'k-not-k':
            progs.append((a, ('NOT', a)))
            progs.append((('AND', a), ('AND', ('NOT', a))))
        elif shape == 'dup':
            progs.append((a, a))
            progs.append((('OR', a, a),))
            progs.append((('NOT', ('NOT', a)),))
        else:
            progs.append((('OR', ('AND', a, ('NOT', b)), ('OR', b, c)),))
    return progs


def bounded_search(label):
    from pyvc.prop import BoundedResult

    def fn(tier, seed):
        res = BoundedResult()
        res.exhaustive = False
        res.note = 'all single keys and their negations exhaustively; composite programs seeded'
        progs = programs(tier, seed)
        chunks = [(progs[i:i + 40], False) for i in range(0, len(progs), 40)]
        hp = [p for p in progs if len(p) == 1][:160]
        chunks += [(hp[i:i + 40], True) for i in range(0, len(hp), 40)]
        # randomly generated mailboxes (seeded): every leaf key and its negation plus a sample of composite programs on each
        import random
        rnd = random.Random(seed + 7)
        leaves = [p for p in progs if len(p) == 1]
        for _ in range(6 if tier == 'quick' else 80):
            corpus = random_corpus(rnd)
            sample = leaves[:] + rnd.sample(progs, 120 if tier == 'quick' else 400)
            chunks += [(sample[i:i + 80], False, corpus) for i in range(0, len(sample), 80)]
        # the maildir backend loads only as much of a message as the keys of the program declare they need: every leaf key
        # and its negation alone (so that nothing else in the program asks for more), on the fixed corpus
        chunks += [(leaves[i:i + 60], False, None, 'maildir') for i in range(0, len(leaves), 60)]
        with mp.get_context('fork').Pool(16) as pool:
            for errs, sigs in pool.imap_unordered(_worker, chunks):
                res.evaluations += len(sigs)
                for s in sigs:
                    res.distinct.add(s)
                for prog, e in errs:
                    res.fail(f'{label}/search_returns_exactly_the_matching_messages',
                             ' '.join(wire(k) for k in prog), [e])
                if sigs and len(res.samples) < 2:
                    res.samples.append(dict(program=sigs[0][0], result=list(sigs[0][1])))
        return res
    return fn
