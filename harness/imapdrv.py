"""In-process driver for the REAL pymap IMAP server (IMAPServer + DictBackend) over in-memory streams.

Used by the bounded stand-ins and the replay drivers.  Everything here runs the code of /repo; nothing is
modelled.  A scenario is a list of steps (client name, raw command line[, literal chunks]); each step is sent
and the driver waits (counting event-loop iterations, so a spin or a hang is detected) for the tagged
completion.  Responses are split into complete logical responses (literals included).
"""
from __future__ import annotations

import asyncio
import logging
import re
from argparse import Namespace

from proxyprotocol.sock import SocketInfoLocal
from pysasl.hashing import BuiltinHash

from pymap.backend.dict import DictBackend
from pymap.imap import IMAPServer
from pymap.sieve.manage import ManageSieveServer
from pymap.user import UserMetadata


logging.disable(logging.CRITICAL)     # the servers log every escaped exception; the harnesses observe them directly


class FakeArgs(Namespace):
    debug = False
    demo_data = 'pymap.backend.dict'
    demo_user = 'testuser'
    demo_password = 'testpass'

    def __init__(self, **kw):
        super().__init__()
        self.__dict__.update(kw)

    def __getattr__(self, key):
        return None


class _Sock:
    def __init__(self, fd):
        import socket
        self.fd = fd
        self.family = socket.AF_INET

    def fileno(self):
        return self.fd

    def getpeername(self):
        return ('127.0.0.1', 1234)

    def getsockname(self):
        return ('127.0.0.1', 143)


class FakeWriter:
    """StreamWriter stand-in: collects what the server writes; drain() can be held (back-pressure)"""

    def __init__(self, fd, peer=('1.2.3.4', 1234)):
        self.buf = bytearray()
        self.closed = False
        self.peer = peer
        self._sock = _Sock(fd)
        self.hold: asyncio.Event | None = None     # when set to an Event, drain() waits for it
        self.drains = 0

    def get_extra_info(self, name, default=None):
        if name == 'socket':
            return self._sock
        if name == 'peername':
            return self.peer
        if name == 'sockname':
            return ('5.6.7.8', 5678)
        return default

    def write(self, data):
        self.buf += bytes(data)

    def writelines(self, datas):
        for d in datas:
            self.write(d)

    async def drain(self):
        self.drains += 1
        if self.hold is not None:
            await self.hold.wait()

    def close(self):
        self.closed = True

    def is_closing(self):
        return self.closed

    async def wait_closed(self):
        return None

    async def start_tls(self, ctx):
        # no TLS in the harness -- unless a scenario asks for a handshake that "succeeds": then the transport is upgraded and,
        # exactly as with asyncio's StreamWriter.start_tls, whatever the StreamReader had buffered before stays buffered
        if not getattr(self, 'fake_tls_ok', False):
            raise ConnectionError('no TLS in the harness')
        self.tls_active = True


_LIT = re.compile(rb'\{(\d+)\}\r\n$')


def split_responses(buf: bytes):
    """-> (list of complete logical responses, rest).  A logical response is a line ending in CRLF whose
    embedded literals ({n}CRLF + n bytes) are included."""
    out = []
    pos = 0
    n = len(buf)
    while pos < n:
        start = pos
        ok = False
        while True:
            eol = buf.find(b'\r\n', pos)
            if eol < 0:
                break
            line_end = eol + 2
            m = _LIT.search(buf, start, line_end)
            if m and m.end() == line_end:
                ln = int(m.group(1))
                if line_end + ln > n:
                    break
                pos = line_end + ln
                continue
            out.append(bytes(buf[start:line_end]))
            pos = line_end
            ok = True
            break
        if not ok:
            return out, bytes(buf[start:])
    return out, b''


class Client:
    def __init__(self, world, name, server, peer=('1.2.3.4', 1234)):
        self.world = world
        self.name = name
        self.reader = asyncio.StreamReader()
        self.writer = FakeWriter(world.next_fd(), peer)
        self.tagn = 0
        self.consumed = 0
        self.log = []          # (sent line, [responses])
        self.task = asyncio.create_task(server(self.reader, self.writer, SocketInfoLocal(self.writer)))

    def new_tag(self):
        self.tagn += 1
        return f'{self.name}{self.tagn}'.encode()

    def pending(self):
        resps, rest = split_responses(bytes(self.writer.buf[self.consumed:]))
        return resps, rest

    def take(self):
        resps, rest = self.pending()
        self.consumed = len(self.writer.buf) - len(rest)
        return resps

    async def wait_for(self, pred, budget=None):
        """spin the loop until pred(responses so far) or the task ends; returns (responses, steps, done)"""
        budget = budget or self.world.step_budget
        import time
        deadline = None
        step = 0
        while True:
            resps, rest = self.pending()
            if pred(resps, rest):
                return self.take(), step, True
            if self.task.done():
                await asyncio.sleep(0)
                resps, rest = self.pending()
                return self.take(), step, pred(resps, rest)
            step += 1
            if step < budget:
                await asyncio.sleep(0)
            else:
                # work may be pending on a thread (password hashing): give it real time before calling it a hang
                if deadline is None:
                    deadline = time.time() + self.world.time_budget
                if time.time() > deadline:
                    return self.take(), step, False
                await asyncio.sleep(0.002)

    async def greeting(self):
        return await self.wait_for(lambda r, rest: len(r) >= 1)

    async def send_raw(self, data: bytes):
        self.reader.feed_data(data)

    async def cmd(self, line: bytes, literals=(), tag=None, budget=None):
        """send `tag line CRLF`; literal chunks are sent after each continuation request.
        returns dict(tag, untagged, tagged, steps, answered, closed)"""
        tag = tag or self.new_tag()
        try:
            self.reader.feed_data(tag + b' ' + line + b'\r\n')
        except AssertionError:
            return dict(tag=tag, line=line, untagged=[], tagged=None, steps=0, answered=False, closed=True, all=[])
        lits = list(literals)
        all_resps = []
        steps_total = 0
        while True:
            def pred(resps, rest, tag=tag):
                return any(r.startswith(tag + b' ') or r.startswith(b'+ ') or r.startswith(b'+\r') for r in resps)
            resps, steps, ok = await self.wait_for(pred, budget)
            steps_total += steps
            all_resps += resps
            if not ok:
                break
            if any(r.startswith(tag + b' ') for r in resps):
                break
            if lits:
                try:
                    self.reader.feed_data(lits.pop(0))
                except AssertionError:      # the harness already signalled EOF on this connection
                    break
            else:
                break
        tagged = [r for r in all_resps if r.startswith(tag + b' ')]
        res = dict(tag=tag, line=line, untagged=[r for r in all_resps if not r.startswith(tag + b' ')],
                   tagged=tagged[0] if tagged else None, steps=steps_total,
                   answered=bool(tagged), closed=self.task.done(), all=all_resps)
        self.log.append(res)
        return res

    async def eof(self):
        self.reader.feed_eof()
        for _ in range(50):
            if self.task.done():
                break
            await asyncio.sleep(0)

    def exception(self):
        if self.task.done() and not self.task.cancelled():
            return self.task.exception()
        return None


class World:
    """one real backend + server, any number of clients"""

    def __init__(self, step_budget=3000, time_budget=5.0):
        self.step_budget = step_budget
        self.time_budget = time_budget
        self._fd = 10
        self.clients = {}
        self.backend = None
        self.server = None

    def next_fd(self):
        self._fd += 1
        return self._fd

    async def start(self, extra_users=(), args=None, **overrides):
        hash_context = BuiltinHash(hash_name='sha1', salt_len=0, rounds=1)
        self.backend, self.config = await DictBackend.init(
            FakeArgs(**(args or {})), hash_context=hash_context, invalid_user_sleep=0.0, **overrides)
        self.server = IMAPServer(self.backend.login, self.config)
        for entry in extra_users:
            user, pw = entry[0], entry[1]
            roles = frozenset(entry[2]) if len(entry) > 2 else frozenset()
            from pymap.backend.dict import Identity
            from pymap.user import Passwords
            hashed = await Passwords(self.config).hash_password(pw)
            ident = Identity(user, self.backend.login, None, frozenset({'admin'}) if roles else frozenset())
            await ident.set(UserMetadata(self.config, user, password=hashed, roles=roles))
        return self

    async def client(self, name, login=True, user=b'testuser', pw=b'testpass', peer=('1.2.3.4', 1234)):
        c = Client(self, name, self.server, peer)
        self.clients[name] = c
        await c.greeting()
        if login:
            await c.cmd(b'LOGIN ' + user + b' ' + pw)
        return c

    async def mailbox(self, name='INBOX', user='testuser'):
        mset, fset = self.config.set_cache[user]
        return await mset.get_mailbox(name)

    async def close(self):
        for c in self.clients.values():
            if not c.task.done():
                c.reader.feed_eof()
        for _ in range(100):
            if all(c.task.done() for c in self.clients.values()):
                break
            await asyncio.sleep(0)
        for c in self.clients.values():
            if not c.task.done():
                c.task.cancel()
                try:
                    await c.task
                except BaseException:     # noqa
                    pass
            else:
                try:
                    c.task.exception()
                except BaseException:     # noqa
                    pass


def run(coro):
    """asyncio.run under CPython's DEFAULT recursion limit: the check process raises the limit for the symbolic executor,
    but the real server must meet RecursionError exactly where a production process would"""
    import sys
    old = sys.getrecursionlimit()
    sys.setrecursionlimit(1000)
    try:
        return asyncio.run(coro)
    finally:
        sys.setrecursionlimit(old)


# ---------------------------------------------------------------- a client-side model of one selected mailbox

_NUM = re.compile(rb'^\* (\d+) (EXISTS|EXPUNGE|RECENT|FETCH)\b(.*)$', re.S)
_UID = re.compile(rb'\bUID (\d+)')
_FLAGS = re.compile(rb'FLAGS \(([^)]*)\)')


class ClientView:
    """what an IMAP client that applies untagged responses in order believes: message count and, for every
    sequence number it has been told about, the UID / flags.  Raises ViewError when a response is
    inconsistent with the view (EXPUNGE out of range, EXISTS shrinking, FETCH of a non-existing number or
    contradicting a known UID)."""

    def __init__(self):
        self.uids = []      # index = seq-1 ; None = unknown
        self.flags = []
        self.errors = []

    def apply(self, resp: bytes, where=''):
        m = _NUM.match(resp)
        if not m:
            return
        n = int(m.group(1))
        kind = m.group(2)
        if kind == b'EXISTS':
            if n < len(self.uids):
                self.errors.append(f'{where}: EXISTS {n} shrinks the mailbox from {len(self.uids)}')
                del self.uids[n:], self.flags[n:]
            while len(self.uids) < n:
                self.uids.append(None)
                self.flags.append(None)
        elif kind == b'EXPUNGE':
            if not (1 <= n <= len(self.uids)):
                self.errors.append(f'{where}: EXPUNGE {n} out of range 1..{len(self.uids)}')
            else:
                del self.uids[n - 1], self.flags[n - 1]
        elif kind == b'FETCH':
            if not (1 <= n <= len(self.uids)):
                self.errors.append(f'{where}: FETCH {n} out of range 1..{len(self.uids)}')
                return
            mu = _UID.search(m.group(3))
            if mu:
                u = int(mu.group(1))
                if self.uids[n - 1] is not None and self.uids[n - 1] != u:
                    self.errors.append(f'{where}: FETCH {n} says UID {u}, client holds UID {self.uids[n - 1]}')
                self.uids[n - 1] = u
            mf = _FLAGS.search(m.group(3))
            if mf:
                self.flags[n - 1] = frozenset(mf.group(1).split())


# ---------------------------------------------------------------- the maildir backend

class MaildirWorld(World):
    """the real MaildirBackend on a temporary directory (commands run on its thread pool)"""

    def __init__(self, layout='++', base=None, **kw):
        super().__init__(**kw)
        self.layout = layout
        self.base = base
        self.users = {}

    async def start(self, users=(('alice', 'apass'), ('bob', 'bpass')), **overrides):
        import tempfile
        from pymap.backend.maildir import MaildirBackend, Identity
        from pymap.user import Passwords
        if self.base is None:
            self.base = tempfile.mkdtemp(prefix='pymap-md-')
            self.own_base = True
        args = FakeArgs(base_dir=self.base, layout=self.layout, colon=None, concurrency=2)
        overrides.setdefault('hash_context', BuiltinHash(hash_name='sha1', salt_len=0, rounds=1))
        overrides.setdefault('invalid_user_sleep', 0.0)
        self.backend, self.config = await MaildirBackend.init(args, **overrides)
        for user, pw in users:
            hashed = await Passwords(self.config).hash_password(pw)
            ident = Identity(self.config, self.backend.login.tokens, user, None, {'admin'})
            try:
                await ident.set(UserMetadata(self.config, user, password=hashed, params={'mailbox_path': user}))
            except Exception:   # noqa  (restart on an existing store: the user is already there)
                pass
            self.users[user] = pw
        self.server = IMAPServer(self.backend.login, self.config)
        return self

    def cleanup(self):
        import shutil
        if getattr(self, 'own_base', False):
            shutil.rmtree(self.base, ignore_errors=True)
