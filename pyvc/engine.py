"""pyvc engine: symbolic execution of the *real* pymap source (located in /repo on every run, parsed
with `ast`) against sidecar contracts, producing verification conditions for z3.

Path exploration is replay based: the function body is re-executed once per path under a decision
oracle; every fork (`decide`, `choose`) consults the oracle.  Loops are cut at their head by the
contract's invariant; calls to functions that have a contract are replaced by that contract
(assert requires, havoc modifies, assume ensures / raises) -- a caller never sees the body of a
callee that has a contract.  Helpers listed under `inline` are executed in place.

What the encoding assumes about Python is listed in ASSUMPTIONS (copied into the evidence).
"""
from __future__ import annotations

import ast
import builtins
import hashlib
import importlib
import os
import sys
import textwrap
import time

import z3

from .values import *  # noqa
from .values import _t, _b

REPO = os.environ.get('PYVC_REPO', '/repo')

ASSUMPTIONS = [
    'python ints are modelled as mathematical integers (exact: Python ints are unbounded)',
    'no operator overloading / __getattr__ side effects on modelled values; attribute reads are pure',
    'containers stored inside containers or record fields are uniquely owned (value semantics; '
    'local aliases are tracked as lvalue paths); declared record parameters of one sort are '
    'verified both aliased and non-aliased',
    'set / dict iteration order is arbitrary (a ghost enumeration with no order constraint)',
    'an atomic segment (code between two awaits that can suspend) runs without interference',
    'only the exceptions raised by modelled operations (KeyError, IndexError, ValueError from '
    'container operations; explicit raise; exceptions declared by callee contracts) can occur',
]


class PyRaise(Exception):
    def __init__(self, cls, payload=None):
        self.cls = cls          # real python exception class
        self.payload = payload


class ReturnEx(Exception):
    def __init__(self, value):
        self.value = value


class BreakEx(Exception):
    pass


class ContinueEx(Exception):
    pass


class PathEnd(Exception):
    """the current path was cut (loop body verified, or infeasible)"""


class Alias:
    __slots__ = ['loc']

    def __init__(self, loc):
        self.loc = loc


CONTAINERS = (VSet, VList, VMap)


def with_loc(v, loc):
    if isinstance(v, CONTAINERS):
        import copy
        w = copy.copy(v)
        w.loc = loc
        return w
    return v


# --------------------------------------------------------------------------- source access

_src_cache: dict = {}


def load_module_ast(relfile):
    path = os.path.join(REPO, relfile)
    if path not in _src_cache:
        with open(path, 'rb') as f:
            src = f.read().decode('utf-8')
        _src_cache[path] = (src, ast.parse(src))
    return _src_cache[path]


def find_function(relfile, qualname):
    src, tree = load_module_ast(relfile)
    parts = qualname.split('.')
    node = tree
    for p in parts:
        found = None
        for ch in ast.iter_child_nodes(node):
            if isinstance(ch, (ast.FunctionDef, ast.AsyncFunctionDef, ast.ClassDef)) and ch.name == p \
                    and found is None:
                found = ch          # the first definition (a property's getter precedes its setter)
        if found is None:
            raise Unsupported(f'{relfile}:{qualname} not found in the current tree (contract detached)')
        node = found
    seg = ast.get_source_segment(src, node)
    return node, hashlib.sha256(seg.encode()).hexdigest()[:16], seg


def module_of(relfile):
    name = relfile[:-3].replace('/', '.')
    if name.endswith('.__init__'):
        name = name[:-9]
    return importlib.import_module(name)


# --------------------------------------------------------------------------- state

class State:
    def __init__(self):
        self.store: dict[int, dict[str, object]] = {}
        self.cells: dict[int, object] = {}
        self.heap: dict[tuple, object] = {}
        self.heap_sorts: dict[tuple, Sort] = {}
        self.pc: list = []
        self.out = None             # ghost VList of yielded values (generators)
        self.ghost: dict[str, object] = {}
        self.events: list = []      # trace of effect events (names of effectful callees reached)
        self._next = 0
        self.rec_sorts: dict[int, RecS] = {}
        self.in_hook = False

    def snapshot(self):
        s = State.__new__(State)
        s.store = {k: dict(v) for k, v in self.store.items()}
        s.cells = dict(self.cells)
        s.heap = dict(self.heap)
        s.heap_sorts = self.heap_sorts
        s.pc = list(self.pc)
        s.out = self.out
        s.ghost = dict(self.ghost)
        s.events = list(self.events)
        s._next = self._next
        s.rec_sorts = self.rec_sorts
        s.in_hook = False
        return s

    def new_id(self):
        self._next += 1
        return self._next

    # -- locations
    def read(self, loc):
        k = loc[0]
        if k == 'cell':
            return with_loc(self.cells[loc[1]], loc)
        if k == 'field':
            return with_loc(self.store[loc[1]][loc[2]], loc)
        if k == 'item':
            parent = self.read(loc[1])
            return with_loc(parent.at(loc[2]), loc)
        if k == 'heap':
            arr = self.heap[(loc[1], loc[2])]
            return with_loc(self.heap_sorts[(loc[1], loc[2])].wrap(z3.Select(arr, loc[3])), loc)
        raise Unsupported(f'loc {loc}')

    def write(self, loc, value):
        k = loc[0]
        if k == 'cell':
            self.cells[loc[1]] = value
        elif k == 'field':
            old = self.store[loc[1]].get(loc[2])
            self.store[loc[1]][loc[2]] = value
            srt = self.rec_sorts.get(loc[1])
            hook = getattr(srt, 'hooks', {}).get(loc[2]) if srt is not None else None
            if hook is not None and not self.in_hook:
                self.in_hook = True
                try:
                    hook(self, VRec(loc[1], srt), old, value)
                finally:
                    self.in_hook = False
        elif k == 'item':
            parent = self.read(loc[1])
            self.write(loc[1], parent.store(loc[2], value))
        elif k == 'heap':
            key = (loc[1], loc[2])
            self.heap[key] = z3.Store(self.heap[key], loc[3], value.term())
        else:
            raise Unsupported(f'loc {loc}')

    def new_cell(self, value):
        cid = self.new_id()
        self.cells[cid] = value
        return ('cell', cid)

    def new_record(self, sort: RecS, name, values=None):
        rid = self.new_id()
        self.store[rid] = {}
        self.rec_sorts[rid] = sort
        for f, fs in sort.fields.items():
            if values is not None and f in values:
                v = values[f]
            elif isinstance(fs, RecS):
                v = self.new_record(fs, f'{name}.{f}')
            else:
                v = fs.fresh(f'{name}.{f}')
                if isinstance(v, VList):
                    self.pc.append(v.n >= 0)
            self.store[rid][f] = v
        return VRec(rid, sort)

    def heap_get(self, ref: VRef, attr):
        key = (ref.sort.name, attr)
        if key not in self.heap:
            if attr not in ref.sort.attrs:
                raise Unsupported(f'attribute {attr} of {ref.sort.name} is not declared in the contract')
            s = ref.sort.attrs[attr]
            self.heap_sorts[key] = s
            self.heap[key] = z3.Const(f'H.{ref.sort.name}.{attr}', z3.ArraySort(ref.sort.z3(), s.z3()))
        s = self.heap_sorts[key]
        v = s.wrap(z3.Select(self.heap[key], ref.t))
        return with_loc(v, ('heap', ref.sort.name, attr, ref.t))


# --------------------------------------------------------------------------- views for clauses

class RecView:
    def __init__(self, st: State, rec: VRec):
        object.__setattr__(self, '_st', st)
        object.__setattr__(self, '_rec', rec)

    def __getattr__(self, f):
        st, rec = self._st, self._rec
        if f not in st.store[rec.rid]:
            raise AttributeError(f)
        return view(st, st.store[rec.rid][f])

    def same(self, other):
        return self._rec.rid == other._rec.rid


class RefView:
    def __init__(self, st: State, ref: VRef):
        object.__setattr__(self, '_st', st)
        object.__setattr__(self, '_ref', ref)
        object.__setattr__(self, 't', ref.t)

    def __getattr__(self, f):
        return view(self._st, self._st.heap_get(self._ref, f))

    def term(self): return self._ref.t
    def eq(self, o): return self._ref.eq(o._ref if isinstance(o, RefView) else o)
    def __eq__(self, o): return self.eq(o)
    def __ne__(self, o): return ~self.eq(o)
    __hash__ = object.__hash__


class ContView:
    """a dict / list whose elements are opaque objects, bound to one state so that element attributes
    (heap arrays) can be read in clauses: s.self._messages[u].recent"""

    def __init__(self, st, v):
        object.__setattr__(self, '_st', st)
        object.__setattr__(self, '_v', v)

    def at(self, k):
        return view(self._st, self._v.at(unview(k)))

    def __getitem__(self, k):
        return self.at(k)

    def __getattr__(self, n):
        return getattr(self._v, n)

    def eq(self, o): return self._v.eq(unview(o))
    def __eq__(self, o): return self.eq(o)
    def __ne__(self, o): return ~self.eq(o)
    __hash__ = object.__hash__


def view(st, v):
    if isinstance(v, VRec):
        return RecView(st, v)
    if isinstance(v, VRef) and v.sort.attrs:
        return RefView(st, v)
    if isinstance(v, Alias):
        return view(st, st.read(v.loc))
    if isinstance(v, VMap) and isinstance(v.vs, RefS) and v.vs.attrs:
        return ContView(st, v)
    if isinstance(v, VList) and isinstance(v.elem, RefS) and v.elem.attrs:
        return ContView(st, v)
    return v


def unview(v):
    if isinstance(v, RecView):
        return v._rec
    if isinstance(v, RefView):
        return v._ref
    if isinstance(v, ContView):
        return v._v
    return v


class Scope:
    """what a contract clause sees: parameters / locals by attribute, `.old` (entry snapshot),
    `.result`, `.exc`, loop variables (`.k`, `.n`, `.seq`) and `.attr(ref, name)`."""

    def __init__(self, st, names, old=None, extra=None):
        object.__setattr__(self, '_st', st)
        object.__setattr__(self, '_names', names)
        object.__setattr__(self, 'old', old)
        object.__setattr__(self, '_extra', extra or {})

    def __getattr__(self, n):
        if n in self._extra:
            return view(self._st, self._extra[n])
        if n in self._names:
            return view(self._st, self._names[n])
        raise AttributeError(n)

    def has(self, n):
        return n in self._extra or n in self._names

    def wrap(self, v):
        """view an arbitrary value (e.g. a map element that is a Ref) in this scope's state"""
        return view(self._st, unview(v))

    @property
    def out(self):
        return self._st.out

    def ghost(self, n):
        return self._st.ghost[n]


# --------------------------------------------------------------------------- contracts

class Contract:
    """Sidecar contract of one real function.  See contracts/*.py for examples.

      file, qualname     where the function lives in /repo
      params             {name: Sort}   symbolic inputs (self included for methods)
      requires           [(label, clause)]
      ensures            [(label, clause)]            checked on every normal exit
      raises             {ExcClass: [(label, clause)]} checked on every exit raising ExcClass (subclass)
      raises_only        tuple of exception classes that may escape (others -> obligation `raises_only`)
      modifies           None (anything) or list of field paths 'self._x' that may change; every other
                         declared field gives a frame obligation
      loops              {ordinal: Loop(...)}
      calls              {callee key: Contract | callable model}
      inline             set of callee keys executed in place
      alias              list of parameter-name pairs that may denote the same record
      returns            Sort of the result when used as a callee (for havoc)
      yields             Sort of yielded elements (generators)
    """

    def __init__(self, prop, file, qualname, params, requires=(), ensures=(), raises=None,
                 raises_only=None, modifies=None, loops=None, calls=None, inline=(), alias=(),
                 returns=None, yields=None, typemap=None, globals=None, ghost_init=None,
                 callee_raises=None, trusted=False, note='', locals=None, ret_fresh=None,
                 pure=False, replay=None, atomic=None, variant=None):
        self.variant = variant
        self.prop = prop
        self.file = file
        self.qualname = qualname
        self.params = params
        self.requires = list(requires)
        self.ensures = list(ensures)
        self.raises = raises or {}
        self.raises_only = raises_only
        self.modifies = modifies
        self.loops = loops or {}
        self.calls = calls or {}
        self.inline = set(inline)
        self.alias = list(alias)
        self.returns = returns
        self.yields = yields
        self.typemap = typemap or {}
        self.globals = globals or {}
        self.ghost_init = ghost_init
        self.callee_raises = callee_raises or {}   # when used as a callee: {ExcClass: [(label, clause)]}
        self.trusted = trusted                     # contract of a dependency: assumed, never proved
        self.note = note
        self.locals = locals or {}
        self.pure = pure
        self.replay = replay
        self.atomic = atomic

    @property
    def name(self):
        mod = self.file[:-3].replace('/', '.')
        if mod.endswith('.__init__'):
            mod = mod[:-9]
        return f'{mod}.{self.qualname}' + (f'[{self.variant}]' if self.variant else '')


class Loop:
    def __init__(self, invariant=(), decreases=None, modifies=None, note='', ghost=()):
        self.ghost = list(ghost)        # ghost variables the loop body updates (havoced at the loop head)
        self.invariant = list(invariant)
        self.decreases = decreases
        self.modifies = modifies
        self.note = note


class Atomic:
    """yield-point reasoning for coroutines (rely/guarantee with yield-point invariants):
      shared      parameter names (records) other tasks may change while this one is suspended
      invariant   [(label, clause)]  must hold at every yield point and at exit; assumed after
      guarantee   [(label, clause)]  two-state (s.seg = state at the start of the atomic segment):
                                     what this task promises about each of its atomic segments
      rely        [(label, clause)]  two-state (s.seg = state before suspension): what other tasks
                                     may do while this task is suspended
    """

    def __init__(self, shared, invariant=(), guarantee=(), rely=(), may_cancel=False, shared_heap=(),
                 on_yield=None):
        self.on_yield = on_yield
        self.shared_heap = list(shared_heap)
        self.shared = list(shared)
        self.invariant = list(invariant)
        self.guarantee = list(guarantee)
        self.rely = list(rely)
        self.may_cancel = may_cancel


class Obligation:
    __slots__ = ['name', 'pc', 'goal', 'path', 'kind', 'inputs', 'site']

    def __init__(self, name, pc, goal, path, kind='assert', inputs=None, site=''):
        self.name = name
        self.pc = pc
        self.goal = goal
        self.path = path
        self.kind = kind       # assert | cover
        self.inputs = inputs
        self.site = site


# --------------------------------------------------------------------------- oracle

class Oracle:
    def __init__(self, prefix):
        self.prefix = list(prefix)
        self.pos = 0
        self.trace = []
        self.alternatives = []

    def choose(self, n, feasible=None):
        """pick one of n options; returns the index"""
        if self.pos < len(self.prefix):
            c = self.prefix[self.pos]
        else:
            opts = [i for i in range(n) if feasible is None or feasible[i]]
            if not opts:
                raise PathEnd()
            c = opts[0]
            for o in opts[1:]:
                self.alternatives.append(self.trace + [o])
        self.pos += 1
        self.trace.append(c)
        return c


# --------------------------------------------------------------------------- the executor

class Frame:
    def __init__(self, contract, fnode, module, env):
        self.contract = contract
        self.fnode = fnode
        self.module = module
        self.env = env
        self.loop_ord = 0
        self.call_ord = {}
        self.await_ord = 0


class SeqView:
    """normal form of every iterable: length term + element function of the index term"""

    def __init__(self, n, elem, elem_sort=None, facts=()):
        self.n = n
        self.elem = elem
        self.elem_sort = elem_sort
        self.facts = list(facts)


PURE_METHODS = {'get_flags', 'get', 'keys', 'values', 'items', 'copy', 'find', 'index', 'count', 'startswith',
                'endswith', 'lower', 'upper', 'is_set', 'issubset', 'isdisjoint', 'union', 'intersection',
                'difference', 'flatten', 'iter', 'decode', 'encode', 'join', 'split', 'strip'}
FEAS_TIMEOUT_MS = int(os.environ.get('PYVC_FEAS_MS', '300'))


class Executor:
    def __init__(self, contract: Contract, registry=None, alias_case=()):
        self.c = contract
        self.registry = registry or {}
        self.alias_case = alias_case
        self.obligations: list[Obligation] = []
        self.paths = 0
        self.exits = []
        self.feas_solver_time = 0.0
        self.inlined = set()
        self.used_contracts = set()
        self.havocs = 0
        self.path_log = []

    # ---- top level
    def run(self):
        fnode, sha, seg = find_function(self.c.file, self.c.qualname)
        self.sha = sha
        self.fnode = fnode
        self.module = module_of(self.c.file)
        work = [[]]
        while work:
            prefix = work.pop()
            self.oracle = Oracle(prefix)
            self.paths += 1
            if self.paths > 4000:
                raise Unsupported('path explosion (> 4000 paths)')
            try:
                self.run_path()
            except PathEnd:
                pass
            work.extend(self.oracle.alternatives)
        return self.obligations

    def init_state(self):
        st = State()
        names = {}
        shared = {}
        for a, b in self.alias_case:
            shared[b] = a
        for p, s in self.c.params.items():
            if p in shared:
                names[p] = names[shared[p]]
                continue
            if isinstance(s, RecS):
                names[p] = st.new_record(s, p)
            elif isinstance(s, (SetS, ListS, MapS)):
                v = s.fresh(p)
                names[p] = Alias(st.new_cell(v))
                if isinstance(v, VList):
                    st.pc.append(v.n >= 0)
            else:
                names[p] = s.fresh(p)
        if self.c.yields is not None:
            st.out = ListS(self.c.yields).empty()
        return st, names

    def run_path(self):
        st, names = self.init_state()
        self.st = st
        st.executor = self
        self.entry_names = dict(names)
        if self.c.ghost_init:
            self.c.ghost_init(st, Scope(st, names))
        old = st.snapshot()
        self.old_scope = Scope(old, dict(names))
        # non-aliased records of one sort are distinct objects: nothing to assume (ids differ)
        for label, cl in self.c.requires:
            st.pc.append(_b(cl(Scope(st, names, self.old_scope))))
        self.old_pc_len = len(st.pc)
        self.seg_scope = self.old_scope
        self.yields_seen = 0
        if self.c.atomic is not None:
            for label, cl in self.c.atomic.invariant:
                st.pc.append(_b(cl(Scope(st, names, self.old_scope, {'seg': self.old_scope}))))
        frame = Frame(self.c, self.fnode, self.module, dict(names))
        va = getattr(self.c, 'varargs', None)
        if va is not None:
            # `*name` of the real signature, verified for a fixed arity (one contract variant per arity)
            frame.env[va[0]] = VTuple([st.read(names[p].loc) if isinstance(names[p], Alias) else names[p]
                                       for p in va[1]])
        self.frames = [frame]
        # cover: the precondition must be satisfiable (vacuity guard)
        if not self.oracle.prefix:
            self.obligations.append(Obligation(f'{self.c.name}/requires/cover', list(st.pc),
                                               z3.BoolVal(True), tuple(self.oracle.trace), kind='cover'))
        outcome = ('return', VNone())
        try:
            self.exec_block(self.fnode.body, frame)
        except ReturnEx as r:
            outcome = ('return', r.value)
        except PyRaise as e:
            outcome = ('raise', e)
        self.at_exit(outcome, frame)

    def scope(self, frame=None, extra=None):
        frame = frame or self.frames[-1]
        names = dict(self.entry_names)
        names.update(frame.env)
        return Scope(self.st, names, self.old_scope, extra)

    def at_exit(self, outcome, frame):
        st = self.st
        path = tuple(self.oracle.trace)
        self.exits.append((outcome[0], path))
        base = self.c.name
        self.segment_end('exit', frame)
        if outcome[0] == 'return':
            sc = Scope(st, dict(self.entry_names), self.old_scope, {'result': outcome[1], 'seg': self.seg_scope})
            for label, cl in self.c.ensures:
                self.oblige(f'{base}/post/{label}', _b(cl(sc)))
            self.frame_obligations(sc)
            self.oblige_cover(f'{base}/exit/normal')
        else:
            e = outcome[1]
            sc = Scope(st, dict(self.entry_names), self.old_scope, {'exc': VConst(e.cls), 'seg': self.seg_scope})
            matched = False
            for cls, clauses in self.c.raises.items():
                if issubclass(e.cls, cls):
                    matched = True
                    for label, cl in clauses:
                        self.oblige(f'{base}/raises[{cls.__name__}]/{label}', _b(cl(sc)))
            if self.c.raises_only is not None:
                ok = any(issubclass(e.cls, c) for c in self.c.raises_only)
                self.oblige(f'{base}/raises_only', z3.BoolVal(ok),
                            site=f'{e.cls.__name__} escapes')
            elif not matched:
                self.oblige(f'{base}/raises_only', z3.BoolVal(False),
                            site=f'{e.cls.__name__} escapes (no raises clause)')

    def frame_obligations(self, sc):
        if self.c.modifies is None:
            return
        mods = set(self.c.modifies)
        seen = set()

        def walk(prefix, rec_old, rec_new):
            if rec_new.rid in seen:
                return
            seen.add(rec_new.rid)
            for f, fs in rec_new.sort.fields.items():
                p = f'{prefix}.{f}'
                vo = self.old_scope._st.store[rec_old.rid][f]
                vn = self.st.store[rec_new.rid][f]
                if isinstance(fs, RecS):
                    if p in mods:
                        continue
                    if not (isinstance(vn, VRec) and vn.rid == vo.rid):
                        self.oblige(f'{self.c.name}/frame/{p}', z3.BoolVal(False))
                    else:
                        walk(p, vo, vn)
                    continue
                if p in mods or any(p.startswith(m + '.') for m in mods):
                    continue
                if vo is vn:
                    continue
                self.oblige(f'{self.c.name}/frame/{p}', _b(vn.eq(vo)))
        for p, v in self.entry_names.items():
            if isinstance(v, VRec):
                walk(p, v, v)

    # ---- yield points
    def all_names(self, frame=None):
        frame = frame or self.frames[-1]
        names = dict(self.entry_names)
        names.update(frame.env)
        return names

    def site_ord(self, node, frame):
        top = self.frames[0].fnode if frame.fnode is self.frames[0].fnode else frame.fnode
        i = 0
        for n in ast.walk(top):
            if type(n) is type(node):
                if n is node:
                    return i
                i += 1
        return -1

    def segment_end(self, site, frame=None):
        at = self.c.atomic
        if at is None:
            return
        names = self.all_names(frame)
        sc = Scope(self.st, names, self.old_scope, {'seg': self.seg_scope})
        base = f'{self.c.name}/{site}'
        for label, cl in at.invariant:
            self.oblige(f'{base}/inv/{label}', _b(cl(sc)))
        for label, cl in at.guarantee:
            self.oblige(f'{base}/guar/{label}', _b(cl(sc)))

    def yield_point(self, site, frame=None):
        """a point where the coroutine may be suspended: end the atomic segment (assert invariant and
        guarantee), let the environment run (havoc shared records, assume invariant and rely)"""
        at = self.c.atomic
        if at is None:
            return
        frame = frame or self.frames[-1]
        self.segment_end(site, frame)
        names = self.all_names(frame)
        pre = Scope(self.st.snapshot(), dict(names))
        seen = set()

        def hv(rec):
            if rec.rid in seen:
                return
            seen.add(rec.rid)
            for f, cur in list(self.st.store[rec.rid].items()):
                if isinstance(cur, VRec):
                    hv(cur)
                else:
                    self.st.store[rec.rid][f] = self.fresh_like(cur, f)
        for p in at.shared:
            v = self.entry_names.get(p)
            if isinstance(v, VRec):
                hv(v)
        for key in list(self.st.heap):
            if key in at.shared_heap:  # mutable attributes of shared opaque objects
                self.st.heap[key] = z3.Const(fresh_name(f'H.{key[0]}.{key[1]}'), self.st.heap[key].sort())
        if at.on_yield is not None:
            at.on_yield(self)
        sc2 = Scope(self.st, names, self.old_scope, {'seg': pre})
        for label, cl in at.invariant:
            self.assume(cl(sc2))
        for label, cl in at.rely:
            self.assume(cl(sc2))
        self.seg_scope = Scope(self.st.snapshot(), dict(names))
        self.yields_seen += 1
        if at.may_cancel:
            if self.choose(2) == 1:
                import asyncio
                raise PyRaise(asyncio.CancelledError)

    # ---- obligations
    def lemma(self, name, formula):
        """assert-then-assume (a proof step supplied by the contract): the formula is an obligation of
        its own and is available afterwards"""
        self.oblige(name, _b(formula))
        self.assume(formula)

    def replaying(self):
        """still inside the decision prefix shared with the path this one was forked from: everything
        emitted here was already emitted there"""
        return self.oracle.pos < len(self.oracle.prefix)

    def drain_defs(self):
        from . import values
        if values.DEFS:
            self.st.pc.extend(values.DEFS)
            del values.DEFS[:]

    def oblige(self, name, goal, site=''):
        self.drain_defs()
        if self.replaying():
            return
        goal = z3.simplify(goal) if isinstance(goal, z3.ExprRef) else z3.BoolVal(bool(goal))
        if z3.is_true(goal):
            # still count it: trivially discharged on this path
            self.obligations.append(Obligation(name, None, goal, tuple(self.oracle.trace), site=site))
            return
        self.obligations.append(Obligation(name, list(self.st.pc), goal, tuple(self.oracle.trace),
                                           site=site, inputs=self.old_scope))

    def oblige_cover(self, name):
        self.drain_defs()
        if self.replaying():
            return
        self.obligations.append(Obligation(name, list(self.st.pc), z3.BoolVal(True),
                                           tuple(self.oracle.trace), kind='cover'))

    def assume(self, f):
        f = _b(f)
        self.drain_defs()
        self.st.pc.append(f)

    # ---- forking
    def feasible(self, cond):
        self.drain_defs()
        t0 = time.time()
        s = z3.Solver()
        s.set('timeout', FEAS_TIMEOUT_MS)
        s.add(*self.st.pc)
        s.add(cond)
        r = s.check()
        self.feas_solver_time += time.time() - t0
        return r != z3.unsat

    def decide(self, cond) -> bool:
        cond = _b(cond)
        self.drain_defs()
        if getattr(self, '_pure', 0) and not (z3.is_true(z3.simplify(cond)) or z3.is_false(z3.simplify(cond))):
            raise Unsupported('a fork inside a comprehension element (bound index variable)')
        sc = z3.simplify(cond)
        if z3.is_true(sc):
            return True
        if z3.is_false(sc):
            return False
        o = self.oracle
        if o.pos < len(o.prefix):
            c = o.choose(2)
        else:
            ft = self.feasible(cond)
            ff = self.feasible(z3.Not(cond))
            c = o.choose(2, [ft, ff])
        if c == 0:
            self.st.pc.append(cond)
            return True
        self.st.pc.append(z3.Not(cond))
        return False

    def choose(self, n):
        return self.oracle.choose(n)

    # ---- statements
    def exec_block(self, stmts, frame):
        for s in stmts:
            self.exec_stmt(s, frame)

    def exec_stmt(self, s, frame):
        m = getattr(self, 'st_' + type(s).__name__, None)
        if m is None:
            raise Unsupported(f'statement {type(s).__name__} at line {s.lineno}')
        m(s, frame)

    def st_Pass(self, s, frame):
        pass

    def st_Expr(self, s, frame):
        if isinstance(s.value, ast.Constant):
            return          # docstring
        self.eval(s.value, frame)

    def st_Return(self, s, frame):
        v = VNone() if s.value is None else self.eval(s.value, frame)
        rs = getattr(frame.contract, 'returns', None)
        if isinstance(v, VSet) and getattr(v, 'empty_literal', False) and isinstance(rs, SetS) \
                and frame is self.frames[0]:
            v = rs.empty()
        if isinstance(v, VList) and getattr(v, 'empty_literal', False) and isinstance(rs, ListS) \
                and frame is self.frames[0]:
            v = rs.empty()
        raise ReturnEx(v)

    def st_Break(self, s, frame):
        raise BreakEx()

    def st_Continue(self, s, frame):
        raise ContinueEx()

    def st_Assert(self, s, frame):
        v = self.eval(s.test, frame)
        if not self.decide(self.truth(v)):
            raise PyRaise(AssertionError)

    def st_Raise(self, s, frame):
        if s.exc is None:
            cur = getattr(frame, 'current_exc', None)
            if cur is None:
                raise Unsupported('bare raise outside handler')
            raise cur
        cls = self.resolve_exc(s.exc, frame)
        raise PyRaise(cls)

    def resolve_exc(self, node, frame):
        if isinstance(node, ast.Call):
            node = node.func
        if isinstance(node, ast.Name) and node.id in frame.env:
            v = frame.env[node.id]
            if isinstance(v, VConst) and isinstance(v.py, type):
                return v.py
            if isinstance(v, VConst) and isinstance(v.py, PyRaise):
                return v.py.cls         # re-raising a caught exception object kept in a local
            raise Unsupported('raise of a non-class local')
        try:
            obj = self.resolve_global(node, frame)
        except Unsupported:
            raise
        if isinstance(obj, type) and issubclass(obj, BaseException):
            return obj
        raise Unsupported(f'raise of {ast.unparse(node)}')

    def resolve_global(self, node, frame):
        if isinstance(node, ast.Name):
            if node.id in frame.contract.globals:
                return frame.contract.globals[node.id]
            mod = frame.module
            if hasattr(mod, node.id):
                return getattr(mod, node.id)
            if hasattr(builtins, node.id):
                return getattr(builtins, node.id)
            raise Unsupported(f'unknown name {node.id}')
        if isinstance(node, ast.Attribute):
            base = self.resolve_global(node.value, frame)
            return getattr(base, node.attr)
        raise Unsupported(f'cannot resolve {ast.unparse(node)}')

    def narrow_optional(self, test, frame, truth):
        """after `if x is not None:` / `if x is None:` the Optional local x is its value in the non-None branch"""
        if isinstance(test, ast.Compare) and isinstance(test.left, ast.Name) and len(test.ops) == 1 and \
                isinstance(test.comparators[0], ast.Constant) and test.comparators[0].value is None:
            is_not = isinstance(test.ops[0], ast.IsNot)
            is_ = isinstance(test.ops[0], ast.Is)
            if (is_not and truth) or (is_ and not truth):
                v = frame.env.get(test.left.id)
                if isinstance(v, VOpt):
                    frame.env[test.left.id] = v.val()

    def st_If(self, s, frame):
        v = self.eval(s.test, frame)
        if self.decide(self.truth(v)):
            self.narrow_optional(s.test, frame, True)
            self.exec_block(s.body, frame)
        else:
            self.narrow_optional(s.test, frame, False)
            self.exec_block(s.orelse, frame)

    def st_Assign(self, s, frame):
        v = self.eval(s.value, frame)
        for tgt in reversed(s.targets):
            v = self.assign(tgt, v, frame) or v

    def st_AnnAssign(self, s, frame):
        if s.value is None:
            return
        hint = self.parse_annotation(s.annotation, frame)
        v = self.eval(s.value, frame, hint=hint)
        if isinstance(hint, OptS):
            v = self.coerce(v, hint)
        self.assign(s.target, v, frame)

    def st_AugAssign(self, s, frame):
        cur = self.eval(s.target, frame)
        rhs = self.eval(s.value, frame)
        v = self.binop(s.op, cur, rhs)
        self.assign(s.target, v, frame)

    def st_Delete(self, s, frame):
        for t in s.targets:
            if isinstance(t, ast.Subscript):
                cont = self.eval(t.value, frame)
                key = self.eval(t.slice, frame)
                if isinstance(cont, VMap):
                    if not self.decide(cont.has(key)):
                        raise PyRaise(KeyError)
                    self.mutate(cont, cont.delete(key))
                    continue
            raise Unsupported(f'del {ast.unparse(t)}')

    def st_With(self, s, frame):
        self.with_common(s, frame, False)

    def st_AsyncWith(self, s, frame):
        self.with_common(s, frame, True)

    def with_common(self, s, frame, is_async):
        # contextlib.suppress(E1, ...): the body's exception of one of these classes ends the block silently
        if len(s.items) == 1 and isinstance(s.items[0].context_expr, ast.Call) and \
                isinstance(s.items[0].context_expr.func, ast.Name) and s.items[0].context_expr.func.id == 'suppress' and \
                s.items[0].optional_vars is None:
            import contextlib
            if self.resolve_global(s.items[0].context_expr.func, frame) is not contextlib.suppress:
                raise Unsupported('with suppress(...): not contextlib.suppress')
            classes = tuple(self.resolve_global(a, frame) for a in s.items[0].context_expr.args)
            try:
                self.exec_block(s.body, frame)
            except PyRaise as e:
                if not (classes and issubclass(e.cls, classes)):
                    raise
            return
        exits = []
        for item in s.items:
            key = ast.unparse(item.context_expr)
            model = self.lookup_call_model(item.context_expr, frame, ctx=True)
            if model is None:
                raise Unsupported(f'with {key}: no context-manager model in the contract')
            ex = model(self, frame, item, 'enter')
            exits.append((model, item))
        try:
            self.exec_block(s.body, frame)
        except (ReturnEx, BreakEx, ContinueEx, PyRaise):
            for model, item in reversed(exits):
                model(self, frame, item, 'exit')
            raise
        for model, item in reversed(exits):
            model(self, frame, item, 'exit')

    def st_Try(self, s, frame):
        def run_finally():
            if s.finalbody:
                self.exec_block(s.finalbody, frame)
        try:
            try:
                self.exec_block(s.body, frame)
            except PyRaise as e:
                for h in s.handlers:
                    if h.type is None:
                        classes = (BaseException,)
                    elif isinstance(h.type, ast.Tuple):
                        classes = tuple(self.resolve_global(x, frame) for x in h.type.elts)
                    else:
                        classes = (self.resolve_global(h.type, frame),)
                    if issubclass(e.cls, classes):
                        if h.name:
                            frame.env[h.name] = VConst(e)
                        prev = getattr(frame, 'current_exc', None)
                        frame.current_exc = e
                        try:
                            self.exec_block(h.body, frame)
                        finally:
                            frame.current_exc = prev
                        break
                else:
                    raise
            else:
                self.exec_block(s.orelse, frame)
        except (ReturnEx, BreakEx, ContinueEx, PyRaise):
            run_finally()
            raise
        run_finally()

    # ---- loops
    def loop_contract(self, frame, s):
        # the ordinal is syntactic (source order of the loop statements of the function), so that it is the
        # same on every path and unaffected by unrelated edits elsewhere in the file
        loops = sorted((n for n in ast.walk(frame.fnode)
                        if isinstance(n, (ast.For, ast.While, ast.AsyncFor))),
                       key=lambda n: (n.lineno, n.col_offset))
        i = next(idx for idx, n in enumerate(loops) if n is s)
        lc = frame.contract.loops.get(i)
        return i, lc

    def assigned_names(self, stmts):
        names = set()
        for s in stmts:
            for n in ast.walk(s):
                if isinstance(n, ast.Name) and isinstance(n.ctx, (ast.Store, ast.Del)):
                    names.add(n.id)
        return names

    def mutated_roots(self, stmts, frame):
        """syntactic over-approximation of the lvalue roots a loop body may mutate:
        returns (local names holding containers that may be mutated, {(root name, field)} )"""
        fields = set()
        locs = set()
        whole = set()

        def root_of(e):
            chain = []
            while isinstance(e, (ast.Attribute, ast.Subscript)):
                chain.append(e.attr if isinstance(e, ast.Attribute) else '[]')
                e = e.value
            if isinstance(e, ast.Name):
                return e.id, list(reversed(chain))
            if isinstance(e, ast.Call):
                # method call result used as a root, e.g. data.setdefault(..).update(..)
                return root_of(e.func.value) if isinstance(e.func, ast.Attribute) else (None, [])
            return None, []

        def touch(e, call=False):
            r, ch = root_of(e)
            if r is None:
                return
            if ch and ch[0] != '[]':
                fields.add((r, ch[0]))
            else:
                locs.add(r)
                if call:
                    whole.add(r)

        for s in stmts:
            for n in ast.walk(s):
                if isinstance(n, (ast.Attribute, ast.Subscript)) and isinstance(n.ctx, (ast.Store, ast.Del)):
                    touch(n)
                if isinstance(n, ast.Call) and isinstance(n.func, ast.Attribute):
                    if n.func.attr not in PURE_METHODS:
                        touch(n.func.value, call=True)
                        # a call may also mutate container / record arguments that are passed in
                        for a in list(n.args) + [k.value for k in n.keywords]:
                            if isinstance(a, (ast.Name, ast.Attribute)):
                                touch(a, call=True)
                if isinstance(n, ast.Call) and isinstance(n.func, ast.Name):
                    callee = frame.contract.calls.get(n.func.id)
                    if isinstance(callee, Contract) and (callee.pure or callee.modifies == []):
                        continue        # the callee's contract says it modifies nothing
                    if n.func.id in ('len', 'min', 'max', 'sorted', 'enumerate', 'range', 'reversed', 'isinstance',
                                     'frozenset', 'set', 'list', 'tuple', 'iter', 'next', 'any', 'all', 'bool',
                                     'int', 'bytes', 'memoryview', 'islice', 'chain', 'bisect_left', 'bisect_right'):
                        continue
                    target = getattr(frame, 'module_ns', {}).get(n.func.id) if hasattr(frame, 'module_ns') else None
                    if target is None:
                        try:
                            target = getattr(module_of(frame.contract.file), n.func.id, None)
                        except Exception:   # noqa
                            target = None
                    if isinstance(target, type) and issubclass(target, BaseException):
                        continue        # an exception constructor keeps references to its arguments, it mutates none
                    for a in list(n.args) + [k.value for k in n.keywords]:
                        if isinstance(a, (ast.Name, ast.Attribute)):
                            touch(a, call=True)
        self._whole = whole
        return locs, fields

    def havoc_for_loop(self, body, frame, lc):
        st = self.st
        self.havocs += 1
        for n in self.assigned_names(body):
            if n in frame.env:
                v = frame.env[n]
                if isinstance(v, Alias):
                    cur = st.read(v.loc)
                    # a rebound local container: give it a fresh cell
                    frame.env[n] = Alias(st.new_cell(self.fresh_like(cur, n)))
                elif isinstance(v, (VRec, VConst, VNone)):
                    raise Unsupported(f'loop assigns local {n} of unsupported kind {type(v).__name__}')
                else:
                    frame.env[n] = self.fresh_like(v, n)
        locs, fields = self.mutated_roots(body, frame)
        for n in locs:
            if n in frame.env and isinstance(frame.env[n], Alias):
                loc = frame.env[n].loc
                cur = st.read(loc)
                st.write(loc, self.fresh_like(cur, n))
        for r, f in fields:
            if r not in frame.env:
                continue
            v = frame.env[r]
            if isinstance(v, Alias):
                v = st.read(v.loc)
            if isinstance(v, VRec) and f not in st.store[v.rid]:
                # reached through a property (e.g. selected.session_flags.add_recent): a trivial getter
                # (`return self._x`) denotes that field; anything else havocs everything reachable from the record
                fld = self.trivial_getter_field(v.sort, f)
                if fld is not None and fld in st.store[v.rid]:
                    self.havoc_field(v, fld)
                else:
                    self.havoc_record_deep(v)
                continue
            self.havoc_field(v, f)
        for r in self._whole:
            v = frame.env.get(r)
            if isinstance(v, VRec):
                for f in list(st.store[v.rid]):
                    self.havoc_field(v, f)
        if self.st.out is not None and any(isinstance(n, (ast.Yield, ast.YieldFrom))
                                           for s in body for n in ast.walk(s)):
            self.st.out = self.fresh_like(self.st.out, 'out')
        for g in (lc.ghost if lc is not None else ()):
            cur = st.ghost[g]
            if isinstance(cur, Value):
                st.ghost[g] = self.fresh_like(cur, g)
            elif isinstance(cur, z3.ExprRef):
                st.ghost[g] = z3.Const(fresh_name(g), cur.sort())
            else:
                raise Unsupported(f'ghost {g} cannot be havoced')
        self._ghost_after_havoc = dict(st.ghost)

    def check_ghost_frame(self, lc, where):
        for g, v in self.st.ghost.items():
            if g not in lc.ghost and self._ghost_after_havoc_for.get(g) is not v:
                raise Unsupported(f'ghost variable {g} is updated inside {where} but not declared in Loop(ghost=...)')

    def trivial_getter_field(self, sort, name):
        m = self.find_method(sort, name)
        if m is None or not self.is_property(m[0]):
            return None
        body = [b for b in m[0].body if not (isinstance(b, ast.Expr) and isinstance(b.value, ast.Constant))]
        if len(body) == 1 and isinstance(body[0], ast.Return) and isinstance(body[0].value, ast.Attribute) and \
                isinstance(body[0].value.value, ast.Name) and body[0].value.value.id == 'self':
            return body[0].value.attr
        return None

    def havoc_record_deep(self, rec, seen=None):
        seen = seen if seen is not None else set()
        if rec.rid in seen:
            return
        seen.add(rec.rid)
        for f, cur in list(self.st.store[rec.rid].items()):
            if isinstance(cur, VRec):
                self.havoc_record_deep(cur, seen)
            else:
                self.st.store[rec.rid][f] = self.fresh_like(cur, f)

    def havoc_field(self, v, f, deep=True):
        st = self.st
        if isinstance(v, VRec):
            if f not in st.store[v.rid]:
                return
            cur = st.store[v.rid][f]
            if isinstance(cur, VRec):
                if deep:
                    for g in cur.sort.fields:
                        self.havoc_field(cur, g)
            else:
                st.store[v.rid][f] = self.fresh_like(cur, f)
                if f in v.sort.hooks:
                    for g in v.sort.ghost:
                        if g != f:
                            st.store[v.rid][g] = self.fresh_like(st.store[v.rid][g], g)
        elif isinstance(v, VRef):
            key = (v.sort.name, f)
            if f in v.sort.attrs:
                st.heap_get(v, f)
                st.heap[key] = z3.Const(fresh_name(f'H.{v.sort.name}.{f}'), st.heap[key].sort())

    def fresh_like(self, v, name):
        if isinstance(v, VList):
            w = ListS(v.elem).fresh(name)
            self.st.pc.append(w.n >= 0)
            return w
        if isinstance(v, VSet):
            return SetS(v.elem).fresh(name)
        if isinstance(v, VMap):
            return MapS(v.key, v.vs).fresh(name)
        if isinstance(v, (VInt, VBool, VRef, VOpt)):
            return v.sort.fresh(name)
        if isinstance(v, VTuple):
            return VTuple([self.fresh_like(i, name) for i in v.items], v.sort)
        if isinstance(v, (VNone, VConst)):
            return v
        raise Unsupported(f'havoc of {type(v).__name__}')

    def st_For(self, s, frame):
        i, lc = self.loop_contract(frame, s)
        it = self.eval(s.iter, frame, want_seq=True)
        seq = self.as_seq(it, frame)
        base = f'{frame.contract.name}/loop{i}'
        if lc is None:
            n = z3.simplify(seq.n)
            if z3.is_int_value(n) and n.as_long() <= 8:
                broke = False
                for k in range(n.as_long()):
                    self.bind_target(s.target, seq.elem(z3.IntVal(k)), frame)
                    try:
                        self.exec_block(s.body, frame)
                    except BreakEx:
                        broke = True
                        break
                    except ContinueEx:
                        continue
                if not broke:
                    self.exec_block(s.orelse, frame)
                return
            raise Unsupported(f'loop {i} of {frame.contract.qualname} (line {s.lineno}) has no invariant')
        for f in seq.facts:
            self.assume(f)
        self.assume(seq.n >= 0)
        hook = getattr(self.c, 'loop_entry_hooks', {}).get(i) if frame is self.frames[0] else None
        if hook is not None:
            hook(self, frame)
        k0 = VInt(0)
        pre = Scope(self.st.snapshot(), self.all_names(frame), self.old_scope)
        for label, cl in lc.invariant:
            self.oblige(f'{base}/entry/{label}', _b(cl(self.scope(frame, {'k': k0, 'n': VInt(seq.n), 'seq': seq, 'pre': pre}))))
        which = self.choose(2)
        self.havoc_for_loop(s.body + [ast.Assign(targets=[s.target], value=ast.Constant(0), lineno=0)], frame, lc)
        k = VInt(z3.Int(fresh_name('k')))
        ghost_snap = dict(self.st.ghost)
        if which == 0:
            # arbitrary iteration
            self.assume(z3.And(k.t >= 0, k.t < seq.n))
            for label, cl in lc.invariant:
                self.assume(cl(self.scope(frame, {'k': k, 'n': VInt(seq.n), 'seq': seq, 'pre': pre})))
            self.bind_target(s.target, seq.elem(k.t), frame)
            try:
                self.exec_block(s.body, frame)
            except ContinueEx:
                pass
            except BreakEx:
                return          # continue after the loop with the break state
            self._ghost_after_havoc_for = ghost_snap
            self.check_ghost_frame(lc, base)
            for label, cl in lc.invariant:
                self.oblige(f'{base}/preserve/{label}',
                            _b(cl(self.scope(frame, {'k': k + 1, 'n': VInt(seq.n), 'seq': seq, 'pre': pre}))))
            self.oblige_cover(f'{base}/body/cover')
            raise PathEnd()
        else:
            self.assume(k.t == seq.n)
            for label, cl in lc.invariant:
                self.assume(cl(self.scope(frame, {'k': k, 'n': VInt(seq.n), 'seq': seq, 'pre': pre})))
            self.exec_block(s.orelse, frame)

    def st_AsyncFor(self, s, frame):
        return self.st_For(s, frame)

    def st_While(self, s, frame):
        i, lc = self.loop_contract(frame, s)
        base = f'{frame.contract.name}/loop{i}'
        if lc is None:
            raise Unsupported(f'while loop {i} of {frame.contract.qualname} (line {s.lineno}) has no invariant')
        pre = Scope(self.st.snapshot(), self.all_names(frame), self.old_scope)
        for label, cl in lc.invariant:
            self.oblige(f'{base}/entry/{label}', _b(cl(self.scope(frame, {'pre': pre}))))
        which = self.choose(2)
        self.havoc_for_loop(s.body, frame, lc)
        for label, cl in lc.invariant:
            self.assume(cl(self.scope(frame, {'pre': pre})))
        c = self.truth(self.eval(s.test, frame))
        if which == 0:
            if not self.decide(c):
                raise PathEnd()
            v0 = None
            if lc.decreases is not None:
                v0 = _t(lc.decreases(self.scope(frame, {'pre': pre})))
                self.oblige(f'{base}/decreases/bounded', v0 >= 0)
            try:
                self.exec_block(s.body, frame)
            except ContinueEx:
                pass
            except BreakEx:
                return
            for label, cl in lc.invariant:
                self.oblige(f'{base}/preserve/{label}', _b(cl(self.scope(frame, {'pre': pre}))))
            if lc.decreases is not None:
                v1 = _t(lc.decreases(self.scope(frame, {'pre': pre})))
                self.oblige(f'{base}/decreases/strict', v1 < v0)
            self.oblige_cover(f'{base}/body/cover')
            raise PathEnd()
        else:
            if self.decide(c):
                raise PathEnd()
            self.exec_block(s.orelse, frame)

    def bind_target(self, tgt, v, frame):
        self.assign(tgt, v, frame)

    # ---- assignment
    def assign(self, tgt, v, frame):
        st = self.st
        if isinstance(tgt, ast.Name):
            if isinstance(v, CONTAINERS):
                loc = getattr(v, 'loc', None)
                if loc is None or getattr(v, 'frozen', False):
                    loc = st.new_cell(v)
                frame.env[tgt.id] = Alias(loc)
            else:
                frame.env[tgt.id] = v
            return
        if isinstance(tgt, (ast.Tuple, ast.List)):
            items = self.unpack(v, len(tgt.elts))
            for t, x in zip(tgt.elts, items):
                self.assign(t, x, frame)
            return
        if isinstance(tgt, ast.Attribute):
            base = self.eval(tgt.value, frame)
            if isinstance(base, VRec):
                if tgt.attr not in st.store[base.rid]:
                    # a property setter: inline its body from the real class
                    setter = self.find_setter(base.sort, tgt.attr)
                    if setter is not None:
                        self.inline_call(setter, [base, v], {}, frame, key=f'{base.sort.name}.{tgt.attr}.setter')
                        return
                    raise Unsupported(f'store to undeclared field {base.sort.name}.{tgt.attr}')
                decl = base.sort.fields[tgt.attr]
                v = self.coerce(v, decl)
                loc = ('field', base.rid, tgt.attr)
                self.store_container(loc, v, frame)
                return
            if isinstance(base, VRef):
                sm = getattr(frame.contract, 'store_models', {}).get((base.sort.name, tgt.attr))
                if sm is not None:
                    # contract-supplied model of an attribute store on an opaque object
                    sm(self, frame, base, v)
                    return
                st.heap_get(base, tgt.attr)
                decl = base.sort.attrs[tgt.attr]
                v = self.coerce(v, decl)
                st.write(('heap', base.sort.name, tgt.attr, base.t), v)
                return
            raise Unsupported(f'attribute store on {type(base).__name__}')
        if isinstance(tgt, ast.Subscript):
            cont = self.eval(tgt.value, frame)
            key = self.eval(tgt.slice, frame)
            if isinstance(cont, VMap):
                v = self.coerce(v, cont.vs)
                self.mutate(cont, cont.store(key, v))
                return
            if isinstance(cont, VList):
                idx = self.index(cont, key)
                self.mutate(cont, VList(cont.n, z3.Store(cont.arr, idx, _t(v)), cont.elem))
                return
            raise Unsupported(f'subscript store on {type(cont).__name__}')
        raise Unsupported(f'assignment target {type(tgt).__name__}')

    def store_container(self, loc, v, frame):
        st = self.st
        if isinstance(v, CONTAINERS):
            src = getattr(v, 'loc', None)
            st.write(loc, v)
            if src is not None and src[0] == 'cell' and not getattr(v, 'frozen', False):
                # the local list/set object now lives in the field: re-point local aliases
                for fr in self.frames:
                    for n, b in list(fr.env.items()):
                        if isinstance(b, Alias) and b.loc == src:
                            fr.env[n] = Alias(loc)
            elif src is not None and src != loc and not getattr(v, 'frozen', False):
                raise Unsupported('a mutable container would be shared between two owners')
        else:
            st.write(loc, v)

    def coerce(self, v, decl):
        if isinstance(decl, OptS):
            if isinstance(v, VNone):
                return decl.none()
            if isinstance(v, VOpt):
                return v
            return decl.some(v)
        return v

    def mutate(self, old, new):
        loc = getattr(old, 'loc', None)
        if loc is not None:
            self.st.write(loc, new)

    def unpack(self, v, n):
        if hasattr(v, 'unpack_model'):
            return v.unpack_model(self, n)
        if isinstance(v, VTuple):
            if len(v.items) != n:
                raise Unsupported('tuple arity')
            return v.items
        raise Unsupported(f'unpack of {type(v).__name__}')

    def index(self, lst: VList, key):
        """python index semantics (negative from the end); raises IndexError"""
        k = _t(key)
        idx = z3.If(k < 0, k + lst.n, k)
        if getattr(self, '_pure', 0):
            self._pure_raises.append((IndexError, z3.Not(z3.And(idx >= 0, idx < lst.n))))
            return z3.simplify(idx)
        if not self.decide(z3.And(idx >= 0, idx < lst.n)):
            raise PyRaise(IndexError)
        return z3.simplify(idx)

    # ---- truthiness
    def truth(self, v):
        if isinstance(v, Alias):
            v = self.st.read(v.loc)
        if isinstance(v, VRec) and v.sort.pyclass is not None:
            # `if obj:` on an instance is True only while its class defines neither __bool__ nor __len__
            for dunder in ('__bool__', '__len__'):
                if self.find_method(v.sort, dunder) is not None:
                    raise Unsupported(f'truthiness of {v.sort.name}: the class defines {dunder}')
        return v.truth()

    # ---- expressions
    def eval(self, e, frame, hint=None, want_seq=False):
        m = getattr(self, 'ex_' + type(e).__name__, None)
        if m is None:
            raise Unsupported(f'expression {type(e).__name__}: {ast.unparse(e)}')
        if type(e).__name__ in ('List', 'Set', 'Dict', 'Call', 'ListComp', 'SetComp', 'DictComp',
                                'GeneratorExp'):
            return m(e, frame, hint=hint, want_seq=want_seq)
        return m(e, frame)

    def ex_Constant(self, e, frame):
        v = e.value
        if v is None:
            return VNone()
        if isinstance(v, bool):
            return VBool(v)
        if isinstance(v, int):
            return VInt(v)
        if isinstance(v, bytes):
            return self.bytes_const(v)
        sc = getattr(frame.contract, 'str_consts', None)
        if sc and v in sc:
            return sc[v]
        return VConst(v)

    def bytes_const(self, b):
        arr = z3.K(z3.IntSort(), z3.IntVal(0))
        for i, x in enumerate(b):
            arr = z3.Store(arr, i, x)
        v = VList(len(b), arr, INT)
        v.frozen = True
        v.is_bytes = True
        return v

    def lift_py(self, obj, name='const'):
        """lift a python constant found in the module namespace"""
        if isinstance(obj, Value):
            return obj
        if obj is None:
            return VNone()
        if isinstance(obj, bool):
            return VBool(obj)
        if isinstance(obj, int):
            return VInt(obj)
        if isinstance(obj, bytes):
            return self.bytes_const(obj)
        if isinstance(obj, (frozenset, set)) and all(isinstance(x, int) for x in obj):
            s = SetS(INT).empty()
            for x in obj:
                s = s.add(x)
            s.frozen = True
            return s
        return VConst(obj)

    def ex_Name(self, e, frame):
        if e.id in frame.env:
            v = frame.env[e.id]
            if isinstance(v, Alias):
                return self.st.read(v.loc)
            return v
        if e.id in frame.contract.globals:
            g = frame.contract.globals[e.id]
            return g if isinstance(g, Value) else self.lift_py(g)
        obj = self.resolve_global(e, frame)
        return self.lift_py(obj, e.id)

    def ex_Attribute(self, e, frame):
        base = self.eval(e.value, frame)
        return self.getattr(base, e.attr, frame, e)

    def getattr(self, base, attr, frame, node=None):
        st = self.st
        if isinstance(base, VRec):
            if attr in st.store[base.rid]:
                v = st.store[base.rid][attr]
                return with_loc(v, ('field', base.rid, attr))
            am = getattr(frame.contract, 'attr_models', {}).get((base.sort.name, attr))
            if am is not None:
                return am(self, frame, base)
            # property: inline its body from the real class
            prop = self.find_method(base.sort, attr)
            if prop is not None and self.is_property(prop[0]):
                return self.inline_call(prop, [base], {}, frame, key=f'{base.sort.name}.{attr}')
            raise Unsupported(f'attribute {base.sort.name}.{attr} not declared')
        if isinstance(base, VRef):
            attr = getattr(base.sort, 'alias', {}).get(attr, attr)
            am = getattr(frame.contract, 'attr_models', {}).get((base.sort.name, attr))
            if am is not None:
                return am(self, frame, base)
            if attr in base.sort.attrs:
                return st.heap_get(base, attr)
            raise Unsupported(f'attribute {attr} of {base.sort.name} is not declared in the contract')
        if isinstance(base, VConst):
            if isinstance(base.py, PyRaise):
                # a data attribute of a caught exception object (exc.reason, exc.args ...): an opaque value
                return RefS('ExcAttr').fresh('exc_' + attr)
            try:
                return self.lift_py(getattr(base.py, attr))
            except AttributeError:
                raise Unsupported(f'attribute {attr} of constant {base.py!r}')
        if isinstance(base, VOpt):
            # attribute access on an Optional: None -> AttributeError is outside the model
            return self.getattr(base.val(), attr, frame, node)
        raise Unsupported(f'attribute {attr} on {type(base).__name__}')

    def find_setter(self, sort: RecS, name):
        if sort.pyclass is None:
            return None
        relfile, clsname = sort.pyclass
        src, tree = load_module_ast(relfile)
        for cls in ast.walk(tree):
            if isinstance(cls, ast.ClassDef) and cls.name == clsname:
                for fn in cls.body:
                    if isinstance(fn, ast.FunctionDef) and fn.name == name and any(
                            isinstance(d, ast.Attribute) and d.attr == 'setter' for d in fn.decorator_list):
                        return fn, module_of(relfile), relfile
        return None

    def is_property(self, fnode):
        for d in fnode.decorator_list:
            if isinstance(d, ast.Name) and d.id == 'property':
                return True
        return False

    def find_method(self, sort: RecS, name):
        """locate the real method of a record sort: (node, module, contract-for-typemap)"""
        if sort.pyclass is None:
            return None
        relfile, clsname = sort.pyclass
        try:
            node, sha, seg = find_function(relfile, f'{clsname}.{name}')
        except Unsupported:
            return None
        return node, module_of(relfile), relfile

    def ex_Subscript(self, e, frame):
        cont = self.eval(e.value, frame)
        if isinstance(e.slice, ast.Slice):
            return self.slice(cont, e.slice, frame)
        key = self.eval(e.slice, frame)
        if isinstance(cont, VMap) and isinstance(key, VOpt) and not isinstance(cont.key, OptS):
            key = key.val()         # None as a key of this dict is outside the model (path condition rules it out)
        if isinstance(cont, VMap):
            if getattr(self, '_pure', 0):
                # inside a comprehension (bound index variable): no forking; the raise condition is collected
                # and decided for the whole comprehension afterwards
                self._pure_raises.append((KeyError, z3.Not(_b(cont.has(key)))))
                return cont.at(key)
            if not self.decide(cont.has(key)):
                raise PyRaise(KeyError)
            v = cont.at(key)
            loc = getattr(cont, 'loc', None)
            if loc is not None:
                v = with_loc(v, ('item', loc, _t(key)))
            return v
        if isinstance(cont, VList):
            idx = self.index(cont, key)
            return cont.at(idx)
        if isinstance(cont, VTuple):
            k = z3.simplify(_t(key))
            if z3.is_int_value(k):
                kk = k.as_long()
                if -len(cont.items) <= kk < len(cont.items):
                    return cont.items[kk]
                raise PyRaise(IndexError)
            raise Unsupported('symbolic tuple index')
        raise Unsupported(f'subscript on {type(cont).__name__}')

    def slice(self, cont, sl, frame):
        if not isinstance(cont, VList):
            raise Unsupported('slice of non-list')
        if sl.step is not None:
            raise Unsupported('slice step')
        n = cont.n

        def norm(x, default):
            if x is None:
                return default
            v = _t(self.eval(x, frame))
            v = z3.If(v < 0, z3.If(v + n < 0, 0, v + n), z3.If(v > n, n, v))
            return v
        lo = norm(sl.lower, z3.IntVal(0))
        hi = norm(sl.upper, n)
        ln = z3.If(hi > lo, hi - lo, 0)
        j = z3.Int(fresh_name('j'))
        r = VList(z3.simplify(ln), z3.Lambda([j], cont.arr[j + lo]), cont.elem)
        r.slice_of = (cont, lo, hi)
        r.slice_bounds = (z3.simplify(lo), z3.simplify(hi))
        if getattr(cont, 'is_bytes', False):
            r.is_bytes = True
        return r

    def ex_Tuple(self, e, frame):
        return VTuple([self.eval(x, frame) for x in e.elts])

    def ex_List(self, e, frame, hint=None, want_seq=False):
        items = [self.eval(x, frame) for x in e.elts]
        if items:
            es = items[0].sort
        elif isinstance(hint, ListS):
            es = hint.elem
        else:
            es = self.local_hint(frame, e) or INT
        v = ListS(es).empty()
        for x in items:
            v = v.append(x)
        if not items and not isinstance(hint, ListS):
            v.empty_literal = True
        return v

    def local_hint(self, frame, e):
        return None

    def ex_Set(self, e, frame, hint=None, want_seq=False):
        items = [self.eval(x, frame) for x in e.elts]
        if any(isinstance(i, VConst) for i in items):
            raise Unsupported('set literal of python-level constants (declare them in the contract globals)')
        v = SetS(items[0].sort).empty()
        for x in items:
            v = v.add(x)
        return v

    def ex_Dict(self, e, frame, hint=None, want_seq=False):
        if e.keys:
            opaque = getattr(frame.contract, 'opaque_dict_literal', None)
            if opaque is not None:
                # the literal's values are evaluated (calls inside them happen), the mapping itself is an opaque value
                for v in e.values:
                    self.eval(v, frame)
                return opaque.fresh('dictlit')
            raise Unsupported('non-empty dict literal')
        if isinstance(hint, MapS):
            return hint.empty()
        raise Unsupported('dict literal without a type annotation')

    def ex_UnaryOp(self, e, frame):
        v = self.eval(e.operand, frame)
        if isinstance(e.op, ast.Not):
            return ~self.truth(v)
        if isinstance(e.op, ast.USub):
            return -v
        raise Unsupported('unary op')

    def ex_BoolOp(self, e, frame):
        # short-circuit with python value semantics: fork
        is_and = isinstance(e.op, ast.And)
        v = None
        for i, x in enumerate(e.values):
            v = self.eval(x, frame)
            if i == len(e.values) - 1:
                return v
            t = self.truth(v)
            if is_and:
                if not self.decide(t):
                    return v
            else:
                if self.decide(t):
                    return v
        return v

    def ex_IfExp(self, e, frame):
        if self.decide(self.truth(self.eval(e.test, frame))):
            return self.eval(e.body, frame)
        return self.eval(e.orelse, frame)

    def ex_BinOp(self, e, frame):
        a = self.eval(e.left, frame)
        b = self.eval(e.right, frame)
        return self.binop(e.op, a, b)

    def binop(self, op, a, b):
        # an Optional[int] used arithmetically: python raises TypeError on None (outside the model: the
        # path condition of the real code rules None out); use the value
        if isinstance(a, VOpt) and isinstance(a.sort.inner, IntS):
            a = a.val()
        if isinstance(b, VOpt) and isinstance(b.sort.inner, IntS):
            b = b.val()
        hook = getattr(self.frames[-1].contract, 'binop_model', None) if self.frames else None
        if hook is not None:
            r = hook(self, op, a, b)
            if r is not None:
                return r
        if isinstance(a, VInt) and isinstance(b, VInt):
            if isinstance(op, ast.Add):
                return a + b
            if isinstance(op, ast.Sub):
                return a - b
            if isinstance(op, ast.Mult):
                return a * b
            raise Unsupported(f'int op {type(op).__name__}')
        for x in (a, b):
            if isinstance(x, VRef) and x.sort.name == 'Bytes' and isinstance(op, (ast.Add, ast.Mod)):
                return x.sort.fresh('bytes')        # opaque byte strings: concatenation / formatting is opaque
        if isinstance(a, VRec):
            dunder = {ast.BitAnd: '__and__', ast.BitOr: '__or__', ast.Sub: '__sub__', ast.Add: '__add__'}.get(type(op))
            m = self.find_method(a.sort, dunder) if dunder else None
            if m is not None:
                return self.inline_call(m, [a, b], {}, self.frames[-1], key=f'{a.sort.name}.{dunder}')
            raise Unsupported(f'operator {type(op).__name__} on record {a.sort.name}')
        if isinstance(a, VSet) and isinstance(b, VSet):
            if getattr(a, 'empty_literal', False) and not getattr(b, 'empty_literal', False):
                a = SetS(b.elem).empty()
            elif getattr(b, 'empty_literal', False) and not getattr(a, 'empty_literal', False):
                b = SetS(a.elem).empty()
            if isinstance(op, ast.BitOr):
                r = a | b
            elif isinstance(op, ast.BitAnd):
                r = a & b
            elif isinstance(op, ast.Sub):
                r = a - b
            else:
                raise Unsupported('set op')
            return r
        if isinstance(a, VList) and isinstance(b, VList) and isinstance(op, ast.Add):
            j = z3.Int(fresh_name('j'))
            return VList(a.n + b.n, z3.Lambda([j], z3.If(j < a.n, a.arr[j], b.arr[j - a.n])), a.elem)
        raise Unsupported(f'binop {type(op).__name__} on {type(a).__name__},{type(b).__name__}')

    def ex_Compare(self, e, frame):
        left = self.eval(e.left, frame)
        res = None
        for op, rn in zip(e.ops, e.comparators):
            right = self.eval(rn, frame)
            r = self.compare(op, left, right)
            res = r if res is None else (res & r)
            left = right
        return res

    def compare(self, op, a, b):
        if isinstance(op, (ast.Eq, ast.Is)):
            return self.equal(a, b)
        if isinstance(op, (ast.NotEq, ast.IsNot)):
            return ~self.equal(a, b)
        if isinstance(op, ast.In) or isinstance(op, ast.NotIn):
            hook = getattr(self.frames[-1].contract, 'in_model', None)
            if hook is not None:
                r = hook(self, a, b)
                if r is not None:
                    return r if isinstance(op, ast.In) else ~r
            if isinstance(b, VTuple):
                r = VBool(False)
                for item in b.items:
                    r = r | self.equal(a, item)
                return r if isinstance(op, ast.In) else ~r
            if isinstance(b, (VSet, VMap)):
                r = b.has(a)
            elif isinstance(b, VList) and isinstance(a, VList):
                # bytes in bytes: substring test for a needle of concrete length
                m = z3.simplify(a.n)
                if not z3.is_int_value(m):
                    raise Unsupported('substring test with a needle of symbolic length')
                m = m.as_long()
                i = z3.Int(fresh_name('i'))
                r = VBool(z3.Exists([i], z3.And(i >= 0, i + m <= b.n,
                                                *[z3.Select(b.arr, i + j) == z3.Select(a.arr, j) for j in range(m)])))
            elif isinstance(b, VList):
                i = z3.Int(fresh_name('i'))
                r = VBool(z3.Exists([i], z3.And(i >= 0, i < b.n, b.arr[i] == _t(a))))
            else:
                raise Unsupported(f'in on {type(b).__name__}')
            return r if isinstance(op, ast.In) else ~r
        if isinstance(a, VOpt) and isinstance(a.sort.inner, IntS):
            a = a.val()
        if isinstance(b, VOpt) and isinstance(b.sort.inner, IntS):
            b = b.val()
        if isinstance(a, VInt) and isinstance(b, VInt):
            if isinstance(op, ast.Lt):
                return a < b
            if isinstance(op, ast.LtE):
                return a <= b
            if isinstance(op, ast.Gt):
                return a > b
            if isinstance(op, ast.GtE):
                return a >= b
        raise Unsupported(f'compare {type(op).__name__} on {type(a).__name__},{type(b).__name__}')

    def equal(self, a, b):
        hook = getattr(self.frames[-1].contract, 'equal_model', None) if self.frames else None
        if hook is not None:
            r = hook(self, a, b)
            if r is not None:
                return r
        if isinstance(b, VNone) and not isinstance(a, (VNone, VOpt)):
            return VBool(False)
        if isinstance(a, VNone):
            return a.eq(b)
        if isinstance(a, VOpt) or isinstance(b, VOpt):
            return a.eq(b) if isinstance(a, VOpt) else b.eq(a)
        if type(a) is not type(b) and not (isinstance(a, VConst) or isinstance(b, VConst)):
            raise Unsupported(f'== between {type(a).__name__} and {type(b).__name__}')
        return a.eq(b)

    # ---- comprehensions / generators: handled through SeqView
    def ex_GeneratorExp(self, e, frame, hint=None, want_seq=False):
        return ('genexp', e)

    def comp_seq(self, e, frame):
        """evaluate a single-generator comprehension into (seq, elem_fn(k)->Value, cond_fn(k)->BoolRef)"""
        if len(e.generators) != 1:
            raise Unsupported('nested comprehension')
        g = e.generators[0]
        it = self.eval(g.iter, frame, want_seq=True)
        seq = self.as_seq(it, frame)
        return seq, g

    def eval_pure_at(self, seq, g, exprs, frame, k):
        """evaluate expression(s) with the comprehension target bound to seq[k]; no forking allowed"""
        saved_env = dict(frame.env)
        saved_oracle = self.oracle
        self._pure_raises = []
        try:
            self.bind_target(g.target, seq.elem(k), frame)
            conds = [self.pure_truth(c, frame) for c in g.ifs]
            vals = [self.pure_eval(x, frame) for x in exprs]
        finally:
            frame.env = saved_env
        cond = z3.And(*conds) if conds else z3.BoolVal(True)
        raises, self._pure_raises = self._pure_raises, []
        for cls, rc in raises:
            if self.decide(z3.Exists([k], z3.And(k >= 0, k < seq.n, cond, rc))):
                raise PyRaise(cls)
        return vals, cond

    def pure_eval(self, e, frame):
        self._pure = getattr(self, '_pure', 0) + 1
        try:
            return self.eval(e, frame)
        finally:
            self._pure -= 1

    def pure_truth(self, e, frame):
        return _b(self.truth(self.pure_eval(e, frame)))

    def ex_ListComp(self, e, frame, hint=None, want_seq=False):
        if len(e.generators) == 1:
            src = self.eval(e.generators[0].iter, frame, want_seq=True)
            if isinstance(src, VTuple) and len(src.items) <= 6:
                # a python-level tuple of known arity (e.g. *args): unroll, forking on the filter per item
                g = e.generators[0]
                picked = []
                saved = dict(frame.env)
                for item in src.items:
                    self.assign(g.target, item, frame)
                    if all(self.decide(self.truth(self.eval(c, frame))) for c in g.ifs):
                        picked.append(self.eval(e.elt, frame))
                frame.env = saved
                return VTuple(picked)
        seq, g = self.comp_seq(e, frame)
        k = z3.Int(fresh_name('ck'))
        (val,), cond = self.eval_pure_at(seq, g, [e.elt], frame, k)
        for f in seq.facts:
            self.assume(f)
        if z3.is_true(z3.simplify(cond)):
            return VList(seq.n, z3.Lambda([k], _t(val)), val.sort)
        # filtered: result is the order-preserving subsequence; ghost source-index function
        res = ListS(val.sort).fresh('comp')
        src = z3.Function(fresh_name('src'), z3.IntSort(), z3.IntSort())
        inv = z3.Function(fresh_name('inv'), z3.IntSort(), z3.IntSort())
        j, j2 = z3.Int(fresh_name('j')), z3.Int(fresh_name('j2'))
        cond_at = lambda t: z3.substitute(cond, (k, t))
        val_at = lambda t: z3.substitute(_t(val), (k, t))
        self.assume(res.n >= 0)
        self.assume(res.n <= seq.n)
        self.assume(z3.ForAll([j], z3.Implies(z3.And(j >= 0, j < res.n), z3.And(
            src(j) >= 0, src(j) < seq.n, cond_at(src(j)), res.arr[j] == val_at(src(j)),
            inv(src(j)) == j))))
        self.assume(z3.ForAll([j, j2], z3.Implies(z3.And(j >= 0, j < j2, j2 < res.n), src(j) < src(j2))))
        self.assume(z3.ForAll([j], z3.Implies(z3.And(j >= 0, j < seq.n, cond_at(j)), z3.And(
            inv(j) >= 0, inv(j) < res.n, src(inv(j)) == j))))
        res.comp = (src, inv, seq)
        return res

    def ex_SetComp(self, e, frame, hint=None, want_seq=False):
        seq, g = self.comp_seq(e, frame)
        k = z3.Int(fresh_name('ck'))
        (val,), cond = self.eval_pure_at(seq, g, [e.elt], frame, k)
        for f in seq.facts:
            self.assume(f)
        res = SetS(val.sort).fresh('setcomp')
        w = z3.Function(fresh_name('wit'), val.sort.z3(), z3.IntSort())
        y = z3.Const(fresh_name('y'), val.sort.z3())
        self.assume(z3.ForAll([k], z3.Implies(z3.And(k >= 0, k < seq.n, cond), res.arr[_t(val)])))
        self.assume(z3.ForAll([y], z3.Implies(res.arr[y], z3.And(
            w(y) >= 0, w(y) < seq.n, z3.substitute(cond, (k, w(y))),
            z3.substitute(_t(val), (k, w(y))) == y))))
        return res

    def ex_DictComp(self, e, frame, hint=None, want_seq=False):
        seq, g = self.comp_seq(e, frame)
        k = z3.Int(fresh_name('ck'))
        (key, val), cond = self.eval_pure_at(seq, g, [e.key, e.value], frame, k)
        for f in seq.facts:
            self.assume(f)
        res = MapS(key.sort, val.sort).fresh('dictcomp')
        w = z3.Function(fresh_name('wit'), key.sort.z3(), z3.IntSort())
        y = z3.Const(fresh_name('y'), key.sort.z3())
        k2 = z3.Int(fresh_name('k2'))
        at = lambda term, t: z3.substitute(term, (k, t))
        self.assume(z3.ForAll([k], z3.Implies(z3.And(k >= 0, k < seq.n, cond), res.dom[_t(key)])))
        # w(y) is the last index producing key y
        self.assume(z3.ForAll([y], z3.Implies(res.dom[y], z3.And(
            w(y) >= 0, w(y) < seq.n, at(cond, w(y)), at(_t(key), w(y)) == y,
            res.val[y] == at(_t(val), w(y))))))
        self.assume(z3.ForAll([y, k2], z3.Implies(z3.And(res.dom[y], k2 > w(y), k2 < seq.n, at(cond, k2)),
                                                  at(_t(key), k2) != y)))
        return res

    # ---- sequences
    def as_seq(self, it, frame) -> SeqView:
        if isinstance(it, SeqView):
            return it
        if isinstance(it, Alias):
            it = self.st.read(it.loc)
        if isinstance(it, VList):
            sv = SeqView(it.n, lambda k, it=it: it.elem.wrap(z3.Select(it.arr, k)), it.elem)
            if hasattr(it, 'sorted_of'):
                sv.of_set, sv.pos, sv.order = it.sorted_of
                sv.lst = it
            return sv
        if isinstance(it, VSet):
            return self.enum_set(it)
        if isinstance(it, VTuple):
            items = it.items
            if not items:
                return SeqView(z3.IntVal(0), lambda k: VInt(0), INT)

            def el(k, items=items):
                kk = z3.simplify(k)
                if z3.is_int_value(kk):
                    return items[kk.as_long()]
                raise Unsupported('symbolic index into a python tuple')
            return SeqView(z3.IntVal(len(items)), el, items[0].sort)
        if isinstance(it, tuple) and it and it[0] == 'genexp':
            raise Unsupported('generator expression as an iterable')
        if isinstance(it, VMap):
            return self.enum_set(it.keys())
        raise Unsupported(f'iteration over {type(it).__name__}')

    def enum_set(self, s: VSet, order=None):
        """ghost enumeration of a set: a duplicate-free list with exactly the set's elements"""
        lst = ListS(s.elem).fresh('enum')
        pos = z3.Function(fresh_name('pos'), s.elem.z3(), z3.IntSort())
        i, j = z3.Int(fresh_name('i')), z3.Int(fresh_name('j'))
        x = z3.Const(fresh_name('x'), s.elem.z3())
        facts = [lst.n >= 0,
                 z3.ForAll([i], z3.Implies(z3.And(i >= 0, i < lst.n),
                                           z3.And(s.arr[lst.arr[i]], pos(lst.arr[i]) == i))),
                 z3.ForAll([x], z3.Implies(s.arr[x], z3.And(pos(x) >= 0, pos(x) < lst.n,
                                                           lst.arr[pos(x)] == x)))]
        from . import builtins_model as bm
        facts.append(lst.n == bm.card_term(s).t)        # a duplicate-free enumeration has |s| elements
        if order == 'inc':
            facts.append(z3.ForAll([i, j], z3.Implies(z3.And(i >= 0, i < j, j < lst.n),
                                                      lst.arr[i] < lst.arr[j])))
        elif order == 'dec':
            facts.append(z3.ForAll([i, j], z3.Implies(z3.And(i >= 0, i < j, j < lst.n),
                                                      lst.arr[i] > lst.arr[j])))
        sv = SeqView(lst.n, lambda k: s.elem.wrap(z3.Select(lst.arr, k)), s.elem, facts)
        sv.lst = lst
        sv.pos = pos
        sv.of_set = s
        return sv

    # ---- calls
    def ex_Await(self, e, frame):
        frame.await_ord += 1
        v = self.eval(e.value, frame)
        hook = getattr(getattr(v, 'sort', None), 'await_hook', None)
        if hook is not None:
            # awaiting an object the contract models (a task, a future): its result or its exception
            return hook(self, frame, v)
        return v

    def ex_Yield(self, e, frame):
        v = self.eval(e.value, frame) if e.value is not None else VNone()
        if self.st.out is None:
            raise Unsupported('yield in a function whose contract declares no `yields` sort')
        if isinstance(v, VNone):
            v = VInt(0)         # a bare `yield` (context-manager body): only the event matters
        self.st.out = self.st.out.append(v)
        hook = getattr(self.c, 'on_yield_value', None)
        if hook is not None:
            hook(self, frame, v)
        return VNone()

    def call_key(self, fnode):
        return ast.unparse(fnode)

    def lookup_call_model(self, callnode, frame, ctx=False):
        """contract-supplied model for a syntactic callee"""
        if isinstance(callnode, ast.Call):
            key = ast.unparse(callnode.func)
            fn = callnode.func
        else:
            key = ast.unparse(callnode)
            fn = callnode
        m = frame.contract.calls.get(key)
        if m is None and isinstance(fn, ast.Attribute):
            m = frame.contract.calls.get('*.' + fn.attr)
        return m

    def ex_Call(self, e, frame, hint=None, want_seq=False):
        from . import builtins_model as bm
        key = ast.unparse(e.func)
        c = frame.contract
        # 1. explicit model / contract for this syntactic callee
        target = self.lookup_call_model(e, frame)
        if target is not None:
            if isinstance(target, Contract):
                return self.call_contract(target, e, frame)
            return target(self, frame, e)
        # 2. methods
        if isinstance(e.func, ast.Attribute):
            base = self.eval(e.func.value, frame)
            meth = e.func.attr
            if isinstance(base, VOpt) and isinstance(base.sort.inner, RefS):
                base = base.val()       # a method call on None is an AttributeError outside the model
            if isinstance(base, (VRec, VRef)):
                sname = base.sort.name
                target = self.registry.get((sname, meth)) or c.calls.get(f'{sname}.{meth}')
                if target is not None:
                    if isinstance(target, Contract):
                        return self.call_contract(target, e, frame, self_val=base)
                    return target(self, frame, e, base)
                if isinstance(base, VRec) and (f'{sname}.{meth}' in c.inline or '*' in c.inline):
                    m = self.find_method(base.sort, meth)
                    if m is not None:
                        args, kw = self.eval_args(e, frame)
                        return self.inline_call(m, [base] + args, kw, frame, key=f'{sname}.{meth}')
                raise Unsupported(f'call {key}: no contract for {sname}.{meth}')
            r = bm.method(self, frame, e, base, meth, hint)
            if r is not bm.NOPE:
                return r
            raise Unsupported(f'method {meth} on {type(base).__name__} ({key})')
        # 3. builtins / library by name
        if isinstance(e.func, ast.Name):
            name = e.func.id
            if name in frame.env:
                raise Unsupported(f'call of local {name}')
            if name in c.inline:
                obj = None
                try:
                    node, sha, seg = find_function(c.file, name)
                    args, kw = self.eval_args(e, frame)
                    return self.inline_call((node, frame.module, c.file), args, kw, frame, key=name)
                except Unsupported:
                    raise
            r = bm.function(self, frame, e, name, hint, want_seq)
            if r is not bm.NOPE:
                return r
        raise Unsupported(f'call {key}: no contract / model')

    def eval_args(self, e, frame):
        args = []
        for a in e.args:
            if isinstance(a, ast.Starred):
                raise Unsupported('*args at a call site')
            args.append(self.eval(a, frame))
        kw = {}
        for k in e.keywords:
            if k.arg is None:
                raise Unsupported('**kwargs at a call site')
            kw[k.arg] = self.eval(k.value, frame)
        return args, kw

    def bind_params(self, fnode, args, kw, frame_module, frame):
        a = fnode.args
        names = [x.arg for x in a.posonlyargs + a.args]
        env = {}
        if len(args) > len(names):
            raise Unsupported('too many positional args')
        for n, v in zip(names, args):
            env[n] = v
        defaults = dict(zip(reversed(names), reversed(a.defaults)))
        kwnames = [x.arg for x in a.kwonlyargs]
        kwdefaults = {n.arg: d for n, d in zip(a.kwonlyargs, a.kw_defaults) if d is not None}
        for n, v in kw.items():
            if n not in names and n not in kwnames:
                raise Unsupported(f'unknown keyword {n}')
            env[n] = v
        for n in names + kwnames:
            if n not in env:
                d = defaults.get(n) if n in defaults else kwdefaults.get(n)
                if d is None:
                    raise Unsupported(f'missing argument {n}')
                env[n] = self.eval(d, frame)
        out = {}
        for n, v in env.items():
            if isinstance(v, CONTAINERS):
                loc = getattr(v, 'loc', None)
                if loc is None:
                    loc = self.st.new_cell(v)
                out[n] = Alias(loc)
            else:
                out[n] = v
        return out

    def inline_call(self, m, args, kw, frame, key):
        node, module, relfile = m
        self.inlined.add(key)
        if len(self.frames) > 12:
            raise Unsupported('inline depth')
        env = self.bind_params(node, args, kw, module, frame)
        sub = Frame(frame.contract, node, module, env)
        # loop contracts of inlined helpers are keyed '<key>#<ordinal>'
        sub.contract = _SubContract(frame.contract, key)
        self.frames.append(sub)
        try:
            self.exec_block(node.body, sub)
            return VNone()
        except ReturnEx as r:
            return r.value
        finally:
            self.frames.pop()

    def call_contract(self, callee: Contract, e, frame, self_val=None):
        """modular call: assert requires, havoc modifies, assume ensures (or a declared raise)"""
        self.used_contracts.add(callee.name + (' [trusted]' if callee.trusted else ''))
        args, kw = self.eval_args(e, frame)
        pnames = list(callee.params)
        env = {}
        if self_val is not None:
            env[pnames[0]] = self_val
            pnames = pnames[1:]
        elif pnames and pnames[0] in ('self', 'cls') and isinstance(e.func, ast.Attribute):
            sv = self.eval(e.func.value, frame)
            env[pnames[0]] = sv
            pnames = pnames[1:]
        for n, v in zip(pnames, args):
            env[n] = v
        for n, v in kw.items():
            env[n] = v
        for n in callee.params:
            if n not in env:
                dflt = getattr(callee, 'defaults', {}).get(n) if hasattr(callee, 'defaults') else None
                if dflt is None:
                    raise Unsupported(f'call of {callee.name}: argument {n} not supplied')
                env[n] = dflt
        names = {}
        for n, v in env.items():
            if isinstance(v, CONTAINERS):
                loc = getattr(v, 'loc', None)
                if loc is None:
                    loc = self.st.new_cell(v)
                names[n] = Alias(loc)
            else:
                names[n] = v
        st = self.st
        ordn = frame.call_ord.get(callee.qualname, 0)
        frame.call_ord[callee.qualname] = ordn + 1
        site = f'{frame.contract.name}/call:{callee.qualname}#{ordn}'
        old = Scope(st.snapshot(), dict(names))
        sc0 = Scope(st, names, old)
        for label, cl in callee.requires:
            self.oblige(f'{site}/requires/{label}', _b(cl(sc0)))
        # choose outcome
        excs = list(callee.callee_raises.items())
        which = self.choose(1 + len(excs)) if excs else 0
        # havoc
        self.havoc_modifies(callee, names)
        result = None
        if which == 0:
            if callee.returns is not None:
                rs = callee.returns
                if isinstance(rs, RecS):
                    result = st.new_record(rs, 'ret')
                elif isinstance(rs, (ListS, SetS, MapS)):
                    result = rs.fresh('ret')
                    if isinstance(result, VList):
                        self.assume(result.n >= 0)
                elif isinstance(rs, NoneS):
                    result = VNone()
                else:
                    result = rs.fresh('ret')
            else:
                result = VNone()
            sc = Scope(st, names, old, {'result': result})
            for label, cl in callee.ensures:
                self.assume(cl(sc))
            if not self.feasible(z3.BoolVal(True)):
                raise PathEnd()
            return result
        cls, clauses = excs[which - 1]
        sc = Scope(st, names, old, {'exc': VConst(cls)})
        for label, cl in clauses:
            self.assume(cl(sc))
        if not self.feasible(z3.BoolVal(True)):
            raise PathEnd()
        raise PyRaise(cls)

    def havoc_modifies(self, callee, names):
        st = self.st
        if callee.modifies is None:
            if callee.pure:
                return
            raise Unsupported(f'callee {callee.name} has no modifies clause')
        for path in callee.modifies:
            parts = path.split('.')
            v = names[parts[0]]
            if len(parts) == 1:
                if isinstance(v, Alias):
                    cur = st.read(v.loc)
                    st.write(v.loc, self.fresh_like(cur, parts[0]))
                continue
            if isinstance(v, Alias):
                v = st.read(v.loc)
            for p in parts[1:-1]:
                if isinstance(v, VRec):
                    v = st.store[v.rid][p]
                else:
                    raise Unsupported(f'modifies path {path}')
            self.havoc_field(v, parts[-1])

    # ---- annotations
    def parse_annotation(self, a, frame):
        tm = frame.contract.typemap if hasattr(frame.contract, 'typemap') else {}
        try:
            txt = ast.unparse(a)
        except Exception:
            return None
        if isinstance(a, ast.Constant) and isinstance(a.value, str):
            txt = a.value
            try:
                a = ast.parse(txt, mode='eval').body
            except SyntaxError:
                return None
        if txt in tm:
            return tm[txt]
        if isinstance(a, ast.Name):
            if a.id in tm:
                return tm[a.id]
            return {'int': INT, 'bool': BOOL}.get(a.id)
        if isinstance(a, ast.Subscript) and isinstance(a.value, ast.Name):
            head = a.value.id
            sl = a.slice
            args = sl.elts if isinstance(sl, ast.Tuple) else [sl]
            subs = [self.parse_annotation(x, frame) for x in args]
            if any(s is None for s in subs):
                return None
            if head in ('list', 'List', 'Sequence', 'MutableSequence'):
                return ListS(subs[0])
            if head in ('set', 'frozenset', 'Set', 'MutableSet', 'AbstractSet'):
                return SetS(subs[0])
            if head in ('dict', 'Dict', 'Mapping', 'MutableMapping'):
                return MapS(subs[0], subs[1])
            if head == 'tuple':
                return TupleS(*subs)
        if isinstance(a, ast.BinOp) and isinstance(a.op, ast.BitOr):
            l, r = a.left, a.right
            if isinstance(r, ast.Constant) and r.value is None:
                inner = self.parse_annotation(l, frame)
                return OptS(inner) if inner is not None and not isinstance(inner, (ListS, SetS, MapS)) else None
        return None


class _SubContract:
    """view of the top-level contract for an inlined helper: loop ordinals are namespaced"""

    def __init__(self, parent, key):
        self._p = parent._p if isinstance(parent, _SubContract) else parent
        self._key = key
        self.loops = {int(k.split('#')[1]): v for k, v in self._p.loops.items()
                      if isinstance(k, str) and k.split('#')[0] == key}

    def __getattr__(self, n):
        return getattr(self._p, n)

    @property
    def name(self):
        return f'{self._p.name}>{self._key}'
