"""Discharge verification conditions with z3 in a fork()ed process pool (one process per VC, hard
timeouts); extract counter-models as plain python data for the CPython replay."""
from __future__ import annotations

import multiprocessing as mp
import os
import time

import z3

from .values import *  # noqa
from .engine import Alias, Obligation, State

_OBLIGS: list = []
_TIMEOUT_MS = 20000


def model_ints(model):
    ints = set()
    for d in model.decls():
        try:
            v = model[d]
        except Exception:
            continue
        if z3.is_int_value(v):
            ints.add(v.as_long())
    return ints


def concretize(model, v, st: State, window, depth=0):
    ev = lambda t: model.eval(t, model_completion=True)
    if isinstance(v, Alias):
        v = st.read(v.loc)
    if hasattr(v, 'concretize_model'):
        return v.concretize_model(ev)
    if isinstance(v, VInt):
        r = ev(v.t)
        return r.as_long() if z3.is_int_value(r) else None
    if isinstance(v, VBool):
        return z3.is_true(ev(v.t))
    if isinstance(v, VNone):
        return None
    if isinstance(v, VOpt):
        if z3.is_true(ev(v.is_none().t)):
            return None
        return concretize(model, v.val(), st, window, depth)
    if isinstance(v, VTuple):
        return tuple(concretize(model, i, st, window, depth) for i in v.items)
    if isinstance(v, VRef):
        r = ev(v.t)
        out = {'@ref': str(r)}
        if depth < 2:
            for a, s in v.sort.attrs.items():
                key = (v.sort.name, a)
                if s is None:
                    continue
                try:
                    # the entry-state heap array of an attribute is the constant H.<sort>.<attr>
                    arr = st.heap.get(key)
                    if arr is None:
                        arr = z3.Const(f'H.{v.sort.name}.{a}', z3.ArraySort(v.sort.z3(), s.z3()))
                    out[a] = concretize(model, s.wrap(z3.Select(arr, v.t)), st, window, depth + 1)
                except Exception:   # noqa
                    pass
        return out
    if isinstance(v, VList):
        n = ev(v.n)
        if not z3.is_int_value(n) or n.as_long() > 64 or n.as_long() < 0:
            return {'@toolong': str(n)}
        return [concretize(model, v.at(i), st, window, depth) for i in range(n.as_long())]
    if isinstance(v, VSet):
        if isinstance(v.elem, IntS):
            return sorted(i for i in window if z3.is_true(ev(z3.Select(v.arr, z3.IntVal(i)))))
        uni = model.get_universe(v.elem.z3()) or []
        return [concretize(model, v.elem.wrap(u), st, window, depth) for u in uni
                if z3.is_true(ev(z3.Select(v.arr, u)))]
    if isinstance(v, VMap):
        out = {}
        if isinstance(v.key, IntS):
            for i in window:
                if z3.is_true(ev(z3.Select(v.dom, z3.IntVal(i)))):
                    out[i] = concretize(model, v.at(i), st, window, depth)
        else:
            for u in (model.get_universe(v.key.z3()) or []):
                if z3.is_true(ev(z3.Select(v.dom, u))):
                    out[str(u)] = concretize(model, v.at(u), st, window, depth)
        return out
    if isinstance(v, VRec):
        return {f: concretize(model, fv, st, window, depth) for f, fv in st.store[v.rid].items()}
    if isinstance(v, VConst):
        return repr(v.py)
    return None


def _small_constraints(scope):
    out = []
    st = scope._st
    seen = set()

    def walk(v):
        if isinstance(v, Alias):
            v = st.read(v.loc)
        if isinstance(v, VList):
            out.append(lambda b, v=v: v.n <= b)
        elif isinstance(v, VInt):
            out.append(lambda b, v=v: z3.And(v.t <= 100 + b * 2, v.t >= -2))
        elif isinstance(v, VRec) and v.rid not in seen:
            seen.add(v.rid)
            for f in st.store[v.rid].values():
                walk(f)
    for v in scope._names.values():
        walk(v)
    return out


def _check(idx):
    ob: Obligation = _OBLIGS[idx]
    t0 = time.time()
    if ob.pc is None:
        return idx, 'unsat', 0.0, None
    s = z3.Solver()
    s.set('timeout', _TIMEOUT_MS)
    for p in ob.pc:
        s.add(p)
    if ob.kind == 'cover':
        s.set('timeout', min(_TIMEOUT_MS, 2500))
        r = s.check()
        return idx, str(r), time.time() - t0, None
    s.add(z3.Not(ob.goal))
    r = s.check()
    data = None
    if r == z3.sat and ob.inputs is not None:
        try:
            m = s.model()
            # prefer a small counter-model (short lists, small numbers): it can be rebuilt as real objects
            small = _small_constraints(ob.inputs)
            if small:
                for bound in (4, 8, 16):
                    s.push()
                    s.set('timeout', 3000)
                    s.add(*[c(bound) for c in small])
                    if s.check() == z3.sat:
                        m = s.model()
                        s.pop()
                        break
                    s.pop()
            ints = model_ints(m)
            ints = {i for i in ints if -1000 <= i <= 100000}
            window = set()
            for i in ints:
                window.update((i - 1, i, i + 1))
            window.update(range(-1, 4))
            if len(window) > 400:
                window = set(sorted(window)[:400])
            scope = ob.inputs
            data = {}
            for n, v in scope._names.items():
                data[n] = concretize(m, v, scope._st, sorted(window))
        except Exception as exc:  # the model could not be turned into data: still a failed VC
            data = {'@error': repr(exc)}
    reason = ''
    if r == z3.unknown:
        reason = s.reason_unknown()
    return idx, str(r), time.time() - t0, (data if r == z3.sat else reason)


def discharge(obligations, timeout_s=20, procs=None):
    """returns list of (status, seconds, data) aligned with obligations"""
    global _OBLIGS, _TIMEOUT_MS
    _OBLIGS = obligations
    _TIMEOUT_MS = int(timeout_s * 1000)
    procs = procs or min(16, os.cpu_count() or 4)
    results = [None] * len(obligations)
    todo = []
    for i, ob in enumerate(obligations):
        if ob.pc is None:
            results[i] = ('unsat', 0.0, None)
        else:
            todo.append(i)
    if not todo:
        return results
    ctx = mp.get_context('fork')
    with ctx.Pool(min(procs, max(1, len(todo)))) as pool:
        asyncs = [(i, pool.apply_async(_check, (i,))) for i in todo]
        deadline_each = timeout_s * 3 + 10
        for i, a in asyncs:
            try:
                idx, status, secs, data = a.get(timeout=deadline_each + timeout_s * len(todo) / procs)
                results[i] = (status, secs, data)
            except mp.TimeoutError:
                results[i] = ('unknown', float(timeout_s), 'hard timeout')
            except Exception as exc:
                results[i] = ('unknown', 0.0, f'worker error {exc!r}')
        pool.terminate()
    return results
