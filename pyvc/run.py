"""Run the executor over a set of contracts and discharge the obligations."""
from __future__ import annotations

import time
import traceback

from .engine import Executor, Contract, Unsupported
from .solve import discharge


class FunctionReport:
    def __init__(self, contract):
        self.contract_name = contract.name
        self.sha = None
        self.paths = 0
        self.vcs = 0
        self.by_name = {}       # obligation name -> dict(status, vcs, time, data, site)
        self.undecided_reason = None
        self.inlined = set()
        self.used = set()
        self.solver_time = 0.0
        self.gen_time = 0.0
        self.covers_bad = []


def verify(contract: Contract, registry=None, timeout_s=20, procs=None) -> FunctionReport:
    rep = FunctionReport(contract)
    t0 = time.time()
    cases = [()]
    if contract.alias:
        cases.append(tuple(contract.alias))
    obligations = []
    try:
        for case in cases:
            ex = Executor(contract, registry, alias_case=case)
            obs = ex.run()
            tag = '' if not case else '[aliased]'
            for o in obs:
                if tag:
                    o.site = (o.site + ' ' + tag).strip()
            obligations.extend(obs)
            rep.sha = ex.sha
            rep.paths += ex.paths
            rep.inlined |= ex.inlined
            rep.used |= ex.used_contracts
    except Unsupported as u:
        rep.undecided_reason = f'outside the modelled subset: {u}'
        rep.gen_time = time.time() - t0
        return rep
    except RecursionError:
        rep.undecided_reason = 'engine recursion limit'
        return rep
    except Exception as exc:    # noqa  -- an engine limitation must never look like a verdict
        tb = traceback.format_exc().strip().splitlines()
        rep.undecided_reason = f'engine error while executing the real source symbolically: {exc!r} ({tb[-3].strip() if len(tb) > 2 else ""})'
        rep.gen_time = time.time() - t0
        return rep
    rep.gen_time = time.time() - t0
    rep.vcs = len(obligations)
    results = discharge(obligations, timeout_s=timeout_s, procs=procs)
    for ob, (status, secs, data) in zip(obligations, results):
        rep.solver_time += secs
        e = rep.by_name.setdefault(ob.name, dict(status='unsat', vcs=0, time=0.0, data=None, site='',
                                                 kind=ob.kind, covered=False))
        e['vcs'] += 1
        e['time'] += secs
        if ob.kind == 'cover':
            if status == 'sat' or status == 'unknown':
                e['covered'] = True
            continue
        if status == 'sat':
            if e['status'] != 'sat':
                e['status'] = 'sat'
                e['data'] = data
                e['site'] = ob.site
                e['path'] = ob.path
        elif status != 'unsat':
            if e['status'] == 'unsat':
                e['status'] = 'unknown'
                e['data'] = data
                e['site'] = ob.site
    for name, e in rep.by_name.items():
        if e['kind'] == 'cover' and not e['covered']:
            rep.covers_bad.append(name)
    return rep
