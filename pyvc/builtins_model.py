"""Models (axiomatised contracts) of the Python built-ins and library functions the verified
functions use.  Each model is an assumption about CPython; `selfcheck.py` cross-checks them against
CPython by running the symbolic executor on concrete inputs (see DESIGN.md section 10).
"""
from __future__ import annotations

import ast
import z3

from .values import *  # noqa
from .values import _t, _b
from . import engine as E

NOPE = object()

AXIOMS = [
    'len/min/max/range/enumerate/reversed/islice/chain: defining equations',
    'sorted(set): strictly monotone duplicate-free enumeration of exactly the set (ghost position function)',
    'set(list)/frozenset(list): exactly the elements of the list (ghost witness function)',
    'bisect_left/bisect_right on a sorted list: partition point (only assumed when the list is sorted)',
    'list.insert/append/remove/pop, dict.get/pop/setdefault/del, set.add/discard/remove/update: '
    'functional updates; KeyError/IndexError/ValueError exactly when CPython raises them',
    'bytes.find(single byte, start, end): first index in range or -1',
    'card(set) (len of a set / dict): uninterpreted with card>=0, card==0 <=> empty, +-1 on add/discard',
]

_card_fns = {}


def card(ex, s):
    """len() of a set: uninterpreted cardinality with a few instantiated facts"""
    key = str(s.elem.z3())
    if key not in _card_fns:
        _card_fns[key] = z3.Function(f'card_{key}', SetS(s.elem).z3(), z3.IntSort())
    c = _card_fns[key](s.arr)
    ex.assume(c >= 0)
    ex.assume((c == 0) == s.is_empty().t)
    return VInt(c)


def card_term(s):
    key = str(s.elem.z3())
    if key not in _card_fns:
        _card_fns[key] = z3.Function(f'card_{key}', SetS(s.elem).z3(), z3.IntSort())
    return VInt(_card_fns[key](s.arr))


def _seq_to_list(ex, seq):
    k = z3.Int(fresh_name('mk'))
    for f in seq.facts:
        ex.assume(f)
    if hasattr(seq, 'lst'):
        return seq.lst
    el = seq.elem(k)
    return VList(seq.n, z3.Lambda([k], _t(el)), el.sort)


def _set_of_seq(ex, seq, elem_sort=None):
    for f in seq.facts:
        ex.assume(f)
    if hasattr(seq, 'of_set'):
        return seq.of_set
    k = z3.Int(fresh_name('sk'))
    el = seq.elem(k)
    es = el.sort
    res = SetS(es).fresh('setof')
    w = z3.Function(fresh_name('wit'), es.z3(), z3.IntSort())
    y = z3.Const(fresh_name('y'), es.z3())
    ex.assume(z3.ForAll([k], z3.Implies(z3.And(k >= 0, k < seq.n), res.arr[_t(el)])))
    ex.assume(z3.ForAll([y], z3.Implies(res.arr[y], z3.And(
        w(y) >= 0, w(y) < seq.n, z3.substitute(_t(el), (k, w(y))) == y))))
    return res


def _kw(e, name):
    for k in e.keywords:
        if k.arg == name:
            return k.value
    return None


def _unopt(v):
    if isinstance(v, VOpt) and isinstance(v.sort.inner, IntS):
        return v.val()
    return v


def function(ex, frame, e, name, hint, want_seq):
    ev = lambda n, **kw: _unopt(ex.eval(n, frame, **kw))
    A = e.args
    if name == 'len':
        v = ev(A[0])
        if isinstance(v, VList):
            return v.len
        if isinstance(v, VSet):
            return card(ex, v)
        if isinstance(v, VMap):
            return card(ex, v.keys())
        if isinstance(v, VTuple):
            return VInt(len(v.items))
        if isinstance(v, E.SeqView):
            return VInt(v.n)
        raise Unsupported(f'len of {type(v).__name__}')
    if name in ('min', 'max') and len(A) == 2:
        a, b = ev(A[0]), ev(A[1])
        if isinstance(a, VInt) and isinstance(b, VInt):
            c = (a.t <= b.t) if name == 'min' else (a.t >= b.t)
            return VInt(z3.If(c, a.t, b.t))
        raise Unsupported('min/max of non-ints')
    if name == 'range':
        if len(A) == 1:
            lo, hi = VInt(0), ev(A[0])
        elif len(A) == 2:
            lo, hi = ev(A[0]), ev(A[1])
        else:
            raise Unsupported('range with step')
        n = z3.If(hi.t > lo.t, hi.t - lo.t, 0)
        sv = E.SeqView(n, lambda k, lo=lo: VInt(lo.t + k), INT)
        sv.range = (lo, hi)
        return sv
    if name == 'enumerate':
        seq = ex.as_seq(ev(A[0], want_seq=True), frame)
        start = ev(A[1]) if len(A) > 1 else (ev(_kw(e, 'start')) if _kw(e, 'start') else VInt(0))
        sv = E.SeqView(seq.n, lambda k, seq=seq, start=start: VTuple([VInt(start.t + k), seq.elem(k)]),
                       None, seq.facts)
        return sv
    if name == 'reversed':
        seq = ex.as_seq(ev(A[0], want_seq=True), frame)
        return E.SeqView(seq.n, lambda k, seq=seq: seq.elem(seq.n - 1 - k), seq.elem_sort, seq.facts)
    if name == 'islice':
        seq = ex.as_seq(ev(A[0], want_seq=True), frame)
        if len(A) == 2:
            a, b = VInt(0), ev(A[1])
        else:
            a, b = ev(A[1]), ev(A[2])
        hi = z3.If(b.t < seq.n, b.t, seq.n)
        n = z3.If(hi > a.t, hi - a.t, 0)
        sv = E.SeqView(n, lambda k, seq=seq, a=a: seq.elem(a.t + k), seq.elem_sort,
                       seq.facts + [a.t >= 0])
        return sv
    if name == 'chain':
        seqs = [ex.as_seq(ev(x, want_seq=True), frame) for x in A]
        if len(seqs) != 2:
            raise Unsupported('chain arity')
        s1, s2 = seqs

        def el(k):
            a, b = s1.elem(k), s2.elem(k - s1.n)
            return ite(VBool(k < s1.n), a, b)
        sv = E.SeqView(s1.n + s2.n, el, s1.elem_sort, s1.facts + s2.facts + [s1.n >= 0, s2.n >= 0])
        sv.chain = (s1, s2)
        return sv
    if name == 'sorted':
        v = ev(A[0], want_seq=True)
        rev = _kw(e, 'reverse')
        order = 'inc'
        if rev is not None:
            r = ev(rev)
            rs = z3.simplify(_b(r))
            if z3.is_true(rs):
                order = 'dec'
            elif not z3.is_false(rs):
                raise Unsupported('symbolic reverse=')
        if _kw(e, 'key') is not None:
            raise Unsupported('sorted(key=)')
        if isinstance(v, VMap):
            v = v.keys()
        if isinstance(v, E.SeqView) or isinstance(v, VList):
            v = _set_of_seq_dups(ex, ex.as_seq(v, frame))
            if v is None:
                raise Unsupported('sorted() of a sequence that may contain duplicates')
        if not isinstance(v, VSet):
            raise Unsupported(f'sorted of {type(v).__name__}')
        sv = ex.enum_set(v, order)
        for f in sv.facts:
            ex.assume(f)
        lst = sv.lst
        lst.sorted_of = (v, sv.pos, order)
        return lst
    if name in ('set', 'frozenset'):
        if not A:
            es = hint.elem if isinstance(hint, SetS) else INT
            r = SetS(es).empty()
            if not isinstance(hint, SetS):
                r.empty_literal = True      # element sort unknown: adapts to the set it is combined with
        else:
            v = ev(A[0], want_seq=True)
            if isinstance(v, VSet):
                r = VSet(v.arr, v.elem)
            elif isinstance(v, VMap):
                r = v.keys()
            else:
                r = _set_of_seq(ex, ex.as_seq(v, frame))
                r = VSet(r.arr, r.elem)
        if name == 'frozenset':
            r.frozen = True
        return r
    if name == 'list':
        if not A:
            es = hint.elem if isinstance(hint, ListS) else INT
            return ListS(es).empty()
        v = ev(A[0], want_seq=True)
        if isinstance(v, VList):
            return VList(v.n, v.arr, v.elem)
        return _seq_to_list(ex, ex.as_seq(v, frame))
    if name == 'isinstance':
        v = ev(A[0])
        cls = ex.resolve_global(A[1], frame) if not isinstance(A[1], ast.Tuple) else \
            tuple(ex.resolve_global(x, frame) for x in A[1].elts)
        return isinstance_model(ex, v, cls)
    if name in ('bisect_left', 'bisect_right'):
        lst = ev(A[0])
        x = ev(A[1])
        lo = ev(A[2]) if len(A) > 2 else VInt(0)
        hi = ev(A[3]) if len(A) > 3 else lst.len
        return bisect(ex, lst, x, lo, hi, name == 'bisect_right')
    if name == 'bool':
        return ex.truth(ev(A[0]))
    if name in ('any', 'all') and len(A) == 1 and isinstance(A[0], ast.GeneratorExp):
        g = A[0]
        seq, gen = ex.comp_seq(g, frame)
        k = z3.Int(fresh_name('ak'))
        (val,), cond = ex.eval_pure_at(seq, gen, [g.elt], frame, k)
        for f in seq.facts:
            ex.assume(f)
        tv = _b(ex.truth(val))
        rng = z3.And(k >= 0, k < seq.n, cond)
        if name == 'any':
            return VBool(z3.Exists([k], z3.And(rng, tv)))
        return VBool(z3.ForAll([k], z3.Implies(rng, tv)))
    if name == 'iter' and len(A) == 1:
        return ex.as_seq(ev(A[0], want_seq=True), frame)
    if name == 'next' and len(A) in (1, 2):
        seq = ex.as_seq(ev(A[0], want_seq=True), frame)
        for f in seq.facts:
            ex.assume(f)
        if ex.decide(seq.n > 0):
            return seq.elem(z3.IntVal(0))
        if len(A) == 2:
            return ev(A[1])
        raise E.PyRaise(StopIteration)
    if name == 'memoryview' and len(A) == 1:
        return ev(A[0])
    if name in ('bytes', 'bytearray') and len(A) == 1:
        v = ev(A[0])
        if isinstance(v, VList):
            return v
    if name in ('bytes', 'bytearray') and len(A) == 0:
        return ex.bytes_const(b'')
    return NOPE


def _set_of_seq_dups(ex, seq):
    if hasattr(seq, 'of_set'):
        return seq.of_set
    return None


def isinstance_model(ex, v, cls):
    classes = cls if isinstance(cls, tuple) else (cls,)
    pyt = None
    if hasattr(v, 'isinstance_model'):
        return v.isinstance_model(ex, classes)
    if isinstance(v, VRef) and hasattr(v.sort, 'isinstance_hook'):
        return v.sort.isinstance_hook(ex, v, classes)
    if isinstance(v, VBool):
        pyt = bool
    elif isinstance(v, VInt):
        pyt = int
    elif isinstance(v, VTuple):
        pyt = tuple
    elif isinstance(v, VNone):
        pyt = type(None)
    elif isinstance(v, VSet):
        pyt = frozenset if getattr(v, 'frozen', False) else set
    elif isinstance(v, VMap):
        pyt = dict
    elif isinstance(v, VList):
        pyt = bytes if getattr(v, 'is_bytes', False) else list
    elif isinstance(v, VConst):
        return VBool(isinstance(v.py, classes))
    elif isinstance(v, VRec) and v.sort.pyclass is not None:
        relfile, clsname = v.sort.pyclass
        real = getattr(E.module_of(relfile), clsname.split('.')[0])
        return VBool(issubclass(real, classes))
    elif isinstance(v, VRef) and getattr(v.sort, 'pyclass', None) is not None:
        return VBool(issubclass(v.sort.pyclass, classes))
    elif hasattr(v, 'isinstance_model'):
        return v.isinstance_model(classes)
    if pyt is None:
        raise Unsupported(f'isinstance on {type(v).__name__}')
    return VBool(issubclass(pyt, classes))


def sorted_fact(lst, lo, hi):
    i, j = z3.Int(fresh_name('i')), z3.Int(fresh_name('j'))
    return z3.ForAll([i, j], z3.Implies(z3.And(lo <= i, i < j, j < hi), lst.arr[i] <= lst.arr[j]))


def bisect(ex, lst, x, lo, hi, right):
    r = z3.Int(fresh_name('bis'))
    i = z3.Int(fresh_name('i'))
    lo, hi, x = _t(lo), _t(hi), _t(x)
    ex.assume(z3.And(r >= lo, r <= hi))
    srt = sorted_fact(lst, lo, hi)
    if right:
        part = z3.And(z3.ForAll([i], z3.Implies(z3.And(lo <= i, i < r), lst.arr[i] <= x)),
                      z3.ForAll([i], z3.Implies(z3.And(r <= i, i < hi), lst.arr[i] > x)))
    else:
        part = z3.And(z3.ForAll([i], z3.Implies(z3.And(lo <= i, i < r), lst.arr[i] < x)),
                      z3.ForAll([i], z3.Implies(z3.And(r <= i, i < hi), lst.arr[i] >= x)))
    ex.assume(z3.Implies(srt, part))
    return VInt(r)


def method(ex, frame, e, base, meth, hint):
    ev = lambda n, **kw: ex.eval(n, frame, **kw)
    A = e.args
    if isinstance(base, VSet):
        if meth in ('add', 'discard', 'remove', 'update', 'clear', 'difference_update') \
                and getattr(base, 'frozen', False):
            raise Unsupported(f'{meth} on a frozenset')
        if meth == 'add':
            x = ev(A[0])
            new = base.add(x)
            ex.assume(card_term(new).t == card_term(base).t + z3.If(base.has(x).t, 0, 1))
            ex.mutate(base, new)
            return VNone()
        if meth == 'discard':
            x = ev(A[0])
            new = base.discard(x)
            ex.assume(card_term(new).t == card_term(base).t - z3.If(base.has(x).t, 1, 0))
            ex.mutate(base, new)
            return VNone()
        if meth == 'remove':
            x = ev(A[0])
            if not ex.decide(base.has(x)):
                raise E.PyRaise(KeyError)
            new = base.discard(x)
            ex.assume(card_term(new).t == card_term(base).t - 1)
            ex.mutate(base, new)
            return VNone()
        if meth == 'update':
            new = base
            for a in A:
                v = ev(a, want_seq=True)
                if isinstance(v, VMap):
                    v = v.keys()
                if not isinstance(v, VSet):
                    v = _set_of_seq(ex, ex.as_seq(v, frame))
                new = new | v
            ex.mutate(base, new)
            return VNone()
        if meth == 'clear':
            ex.mutate(base, SetS(base.elem).empty())
            return VNone()
        if meth == 'copy':
            return VSet(base.arr, base.elem)
        if meth in ('isdisjoint', 'issubset', 'issuperset') and len(A) == 1:
            o = ev(A[0], hint=SetS(base.elem))
            if not isinstance(o, VSet):
                o = _set_of_seq(ex, ex.as_seq(o, frame))
            x = z3.Const(E.fresh_name('sx'), base.elem.z3())
            if meth == 'isdisjoint':
                return VBool(z3.ForAll([x], z3.Not(z3.And(base.arr[x], o.arr[x]))))
            if meth == 'issubset':
                return VBool(z3.ForAll([x], z3.Implies(base.arr[x], o.arr[x])))
            return VBool(z3.ForAll([x], z3.Implies(o.arr[x], base.arr[x])))
        return NOPE
    if isinstance(base, VList):
        if meth == 'append':
            ex.mutate(base, base.append(ex.coerce(ev(A[0]), base.elem)))
            return VNone()
        if meth == 'extend':
            v = ev(A[0], want_seq=True)
            other = v if isinstance(v, VList) else _seq_to_list(ex, ex.as_seq(v, frame))
            j = z3.Int(fresh_name('j'))
            new = VList(base.n + other.n, z3.Lambda([j], z3.If(j < base.n, base.arr[j],
                                                               other.arr[j - base.n])), base.elem)
            ex.mutate(base, new)
            return VNone()
        if meth == 'insert':
            i = _t(ev(A[0]))
            x = _t(ev(A[1]))
            i = z3.If(i < 0, z3.If(i + base.n < 0, 0, i + base.n), z3.If(i > base.n, base.n, i))
            j = z3.Int(fresh_name('j'))
            new = VList(base.n + 1, z3.Lambda([j], z3.If(j < i, base.arr[j],
                                                         z3.If(j == i, x, base.arr[j - 1]))), base.elem)
            new.inserted_at = i
            new.inserted_val = x
            ex.mutate(base, new)
            return VNone()
        if meth == 'remove':
            x = _t(ev(A[0]))
            i = z3.Int(fresh_name('i'))
            present = z3.Exists([i], z3.And(i >= 0, i < base.n, base.arr[i] == x))
            if not ex.decide(present):
                raise E.PyRaise(ValueError)
            idx = z3.Int(fresh_name('rmidx'))
            ex.assume(z3.And(idx >= 0, idx < base.n, base.arr[idx] == x,
                             z3.ForAll([i], z3.Implies(z3.And(i >= 0, i < idx), base.arr[i] != x))))
            j = z3.Int(fresh_name('j'))
            new = VList(base.n - 1, z3.Lambda([j], z3.If(j < idx, base.arr[j], base.arr[j + 1])), base.elem)
            new.removed_at = idx
            ex.mutate(base, new)
            return VNone()
        if meth == 'clear':
            ex.mutate(base, ListS(base.elem).empty())
            return VNone()
        if meth == 'copy':
            return VList(base.n, base.arr, base.elem)
        if meth in ('startswith', 'endswith') and len(A) == 1:
            needle = ev(A[0])
            nn = z3.simplify(needle.n) if isinstance(needle, VList) else None
            if nn is None or not z3.is_int_value(nn):
                raise Unsupported(f'bytes.{meth} of a needle of symbolic length')
            m = nn.as_long()
            off = z3.IntVal(0) if meth == 'startswith' else base.n - m
            return VBool(z3.And(base.n >= m, *[z3.Select(base.arr, off + j) == z3.Select(needle.arr, j) for j in range(m)]))
        if meth == 'find' and getattr(base, 'is_bytes', False) or meth == 'find':
            needle = ev(A[0])
            nn = z3.simplify(needle.n) if isinstance(needle, VList) else None
            if nn is None or not z3.is_int_value(nn) or nn.as_long() != 1:
                raise Unsupported('bytes.find of a needle that is not one byte')
            b = needle.arr[0]
            start = _t(ev(A[1])) if len(A) > 1 else z3.IntVal(0)
            end = _t(ev(A[2])) if len(A) > 2 else base.n
            # python clamps
            cl = lambda v: z3.If(v < 0, z3.If(v + base.n < 0, 0, v + base.n), z3.If(v > base.n, base.n, v))
            s, t = cl(start), cl(end)
            r = z3.Int(fresh_name('find'))
            i = z3.Int(fresh_name('i'))
            ex.assume(z3.Or(
                z3.And(r == -1, z3.ForAll([i], z3.Implies(z3.And(s <= i, i < t), base.arr[i] != b))),
                z3.And(r >= s, r < t, base.arr[r] == b,
                       z3.ForAll([i], z3.Implies(z3.And(s <= i, i < r), base.arr[i] != b)))))
            return VInt(r)
        return NOPE
    if isinstance(base, VMap):
        loc = getattr(base, 'loc', None)

        def item(k):
            v = base.at(k)
            if loc is not None:
                v = E.with_loc(v, ('item', loc, _t(k)))
            return v
        if meth == 'get':
            k = ev(A[0])
            if ex.decide(base.has(k)):
                return item(k)
            return ev(A[1], hint=base.vs) if len(A) > 1 else VNone()
        if meth == 'pop':
            k = ev(A[0])
            if ex.decide(base.has(k)):
                v = base.at(k)
                ex.mutate(base, base.delete(k))
                return v
            if len(A) > 1:
                return ev(A[1], hint=base.vs)
            raise E.PyRaise(KeyError)
        if meth == 'setdefault':
            k = ev(A[0])
            if ex.decide(base.has(k)):
                return item(k)
            d = ev(A[1], hint=base.vs) if len(A) > 1 else VNone()
            d = ex.coerce(d, base.vs)
            new = base.store(k, d)
            ex.mutate(base, new)
            v = new.at(k)
            if loc is not None:
                v = E.with_loc(v, ('item', loc, _t(k)))
            return v
        if meth == 'keys':
            return base.keys()
        if meth in ('values', 'items'):
            sv = ex.enum_set(base.keys())
            if meth == 'values':
                r = E.SeqView(sv.n, lambda k, sv=sv: base.at(sv.elem(k)), base.vs, sv.facts)
            else:
                r = E.SeqView(sv.n, lambda k, sv=sv: VTuple([sv.elem(k), base.at(sv.elem(k))]), None, sv.facts)
            r.keys_enum = sv
            r.of_map = base
            return r
        if meth == 'copy':
            return VMap(base.dom, base.val, base.key, base.vs)
        if meth == 'clear':
            ex.mutate(base, MapS(base.key, base.vs).empty())
            return VNone()
        return NOPE
    if isinstance(base, VConst) and meth == 'from_iterable' and getattr(base.py, '__name__', '') == 'chain':
        return NOPE
    return NOPE
