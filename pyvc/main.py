from __future__ import annotations

import argparse
import importlib
import json
import os
import sys
import traceback

sys.setrecursionlimit(10000)


def main():
    ap = argparse.ArgumentParser()
    ap.add_argument('prop')
    ap.add_argument('--tier', default=os.environ.get('VERIF_TIER', 'quick'))
    ap.add_argument('--replay')
    ap.add_argument('--only')
    a = ap.parse_args()
    seed = int(os.environ.get('VERIF_SEED', '0'))
    tier = a.tier if a.tier in ('quick', 'thorough') else 'quick'
    try:
        mod = importlib.import_module(f'contracts.{a.prop}')
        prop = mod.PROPERTY
        from .prop import run_property
        if a.replay:
            with open(a.replay) as f:
                r = json.load(f)
            print(json.dumps(r, indent=1)[:4000])
            a.only = None
        rc = run_property(prop, tier=tier, seed=seed, only=a.only)
    except SystemExit:
        raise
    except BaseException:   # noqa
        traceback.print_exc()
        print(f'CRASH property={a.prop}', file=sys.stderr)
        sys.exit(3)
    sys.exit(rc)


if __name__ == '__main__':
    main()
