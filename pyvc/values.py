"""Sorts and symbolic values of the pyvc verification-condition generator.

Every Python value the engine manipulates is one of the V* classes below; each wraps z3 terms.
Lists / bytes are (length, Array Int->elem) pairs, sets are Array elem->Bool, dicts are
(dom: Array key->Bool, val: Array key->elem).  No z3 Seq is used (see DESIGN.md section 1).

The same classes are the vocabulary of the contract clauses: clauses are Python lambdas that
combine V* values with the overloaded operators and the helpers `forall`, `exists`, `implies`,
`ite`; applied to symbolic values they yield formulas, applied to *constant* values (a concrete
pre/post state lifted into z3 literals) they yield closed formulas that the solver evaluates --
one text, two interpretations.
"""
from __future__ import annotations

import itertools
import z3

_counter = itertools.count()
DEFS: list = []          # definitional axioms of fresh symbols introduced by value operations


def fresh_name(base: str) -> str:
    return f'{base}!{next(_counter)}'


class Unsupported(Exception):
    """Raised when the real source uses something outside the modelled subset: the obligation is
    *undecided*, never a violation."""


# --------------------------------------------------------------------------- sorts

class Sort:
    def z3(self):
        raise NotImplementedError

    def fresh(self, name):
        return self.wrap(z3.Const(fresh_name(name), self.z3()))

    def wrap(self, term):
        raise NotImplementedError

    def __repr__(self):
        return self.__class__.__name__


class IntS(Sort):
    def z3(self): return z3.IntSort()
    def wrap(self, term): return VInt(term)


class BoolS(Sort):
    def z3(self): return z3.BoolSort()
    def wrap(self, term): return VBool(term)


_ref_sorts: dict[str, z3.SortRef] = {}


class RefS(Sort):
    """An opaque object sort (message, flag, name, ...).  Attributes of such objects live in
    per-attribute heap arrays held by the engine state."""

    truth_fn = None         # value-like opaque sorts (str, bytes, frozenset ...): term -> z3 Bool; None: always truthy

    def __init__(self, name, **attrs):
        self.name = name
        self.attrs = attrs      # attr name -> Sort

    def z3(self):
        if self.name not in _ref_sorts:
            _ref_sorts[self.name] = z3.DeclareSort(self.name)
        return _ref_sorts[self.name]

    def wrap(self, term): return VRef(term, self)
    def __repr__(self): return f'Ref({self.name})'


_ref_truth: dict = {}       # sort name -> truth function (registered once per value-like sort)
TRUTH_AUDIT: set = set()    # opaque sorts whose instances were truth-tested as always-true objects
_opt_sorts: dict[str, tuple] = {}


class OptS(Sort):
    def __init__(self, inner: Sort):
        self.inner = inner

    def _dt(self):
        key = str(self.inner.z3())
        if key not in _opt_sorts:
            dt = z3.Datatype(f'Opt_{key}'.replace(' ', '_').replace('(', '_').replace(')', '_'))
            dt.declare('none')
            dt.declare('some', ('val', self.inner.z3()))
            _opt_sorts[key] = dt.create()
        return _opt_sorts[key]

    def z3(self): return self._dt()
    def wrap(self, term): return VOpt(term, self)
    def none(self): return VOpt(self._dt().none, self)
    def some(self, v): return VOpt(self._dt().some(v.term()), self)
    def __repr__(self): return f'Opt({self.inner})'


_tuple_sorts: dict[str, tuple] = {}


class TupleS(Sort):
    def __init__(self, *items: Sort):
        self.items = list(items)

    def _dt(self):
        key = ','.join(str(s.z3()) for s in self.items)
        if key not in _tuple_sorts:
            nm = 'Tup_' + key.replace(' ', '_').replace('(', '_').replace(')', '_').replace(',', '_')
            dt = z3.Datatype(nm)
            dt.declare('mk', *[(f'f{i}', s.z3()) for i, s in enumerate(self.items)])
            _tuple_sorts[key] = dt.create()
        return _tuple_sorts[key]

    def z3(self): return self._dt()

    def wrap(self, term):
        dt = self._dt()
        return VTuple([s.wrap(z3.simplify(dt.accessor(0, i)(term)) if False else dt.accessor(0, i)(term))
                       for i, s in enumerate(self.items)], self)

    def pack(self, items):
        return self._dt().mk(*[i.term() for i in items])

    def __repr__(self): return f'Tuple{self.items}'


class SetS(Sort):
    def __init__(self, elem: Sort):
        self.elem = elem
    def z3(self): return z3.ArraySort(self.elem.z3(), z3.BoolSort())
    def wrap(self, term): return VSet(term, self.elem)
    def empty(self): return VSet(z3.K(self.elem.z3(), z3.BoolVal(False)), self.elem)
    def __repr__(self): return f'Set({self.elem})'


class ListS(Sort):
    def __init__(self, elem: Sort):
        self.elem = elem
    def z3(self): raise Unsupported('list as a single term')
    def fresh(self, name):
        n = z3.Int(fresh_name(name + '.len'))
        a = z3.Const(fresh_name(name + '.arr'), z3.ArraySort(z3.IntSort(), self.elem.z3()))
        v = VList(n, a, self.elem)
        if getattr(self, 'bytes', False):
            v.is_bytes = True
        return v
    def empty(self):
        return VList(z3.IntVal(0), z3.Const(fresh_name('emptyarr'),
                                            z3.ArraySort(z3.IntSort(), self.elem.z3())), self.elem)
    def __repr__(self): return f'List({self.elem})'


class MapS(Sort):
    def __init__(self, key: Sort, val: Sort):
        self.key = key
        self.val = val
    def z3(self): raise Unsupported('dict as a single term')
    def fresh(self, name):
        d = z3.Const(fresh_name(name + '.dom'), z3.ArraySort(self.key.z3(), z3.BoolSort()))
        v = z3.Const(fresh_name(name + '.val'), z3.ArraySort(self.key.z3(), self.val.z3()))
        return VMap(d, v, self.key, self.val)
    def empty(self):
        v = z3.Const(fresh_name('emptyval'), z3.ArraySort(self.key.z3(), self.val.z3()))
        return VMap(z3.K(self.key.z3(), z3.BoolVal(False)), v, self.key, self.val)
    def __repr__(self): return f'Map({self.key},{self.val})'


class RecS(Sort):
    """A mutable record (an instance of a pymap class) with declared fields.  Records are held by
    identity in the engine store; two parameters of one record sort give rise to an aliased and a
    non-aliased verification run."""

    def __init__(self, name, pyclass=None, **fields):
        self.name = name
        self.fields = fields
        self.pyclass = pyclass
        self.hooks = {}             # field -> fn(state, rec, old, new): ghost updates on writes
        self.ghost = {}             # ghost field -> fn(real object) -> plain data (concrete abstraction)

    def z3(self): raise Unsupported('record as a term')
    def __repr__(self): return f'Rec({self.name})'


class NoneS(Sort):
    def fresh(self, name): return VNone()


class OpaqueS(Sort):
    """A value the verifier knows nothing about and never inspects (passed through only)."""
    _s = None
    def __init__(self, name='Opaque'):
        self.name = name
    def z3(self):
        if self.name not in _ref_sorts:
            _ref_sorts[self.name] = z3.DeclareSort(self.name)
        return _ref_sorts[self.name]
    def wrap(self, term): return VRef(term, RefS(self.name))


INT = IntS()
BOOL = BoolS()


# --------------------------------------------------------------------------- values

def _t(x):
    """coerce python / V value to z3 term"""
    if isinstance(x, Value):
        return x.term()
    if hasattr(x, '_ref'):
        return x._ref.term()
    if isinstance(x, bool):
        return z3.BoolVal(x)
    if isinstance(x, int):
        return z3.IntVal(x)
    if isinstance(x, z3.ExprRef):
        return x
    raise Unsupported(f'cannot coerce {x!r}')


def _b(x):
    if isinstance(x, VBool):
        return x.t
    if isinstance(x, bool):
        return z3.BoolVal(x)
    if isinstance(x, z3.BoolRef):
        return x
    if isinstance(x, Value):
        return x.truth().t
    raise Unsupported(f'cannot coerce to bool {x!r}')


class Value:
    sort: Sort

    def term(self):
        raise Unsupported(f'{type(self).__name__} has no single term')

    def truth(self) -> 'VBool':
        raise Unsupported(f'truthiness of {type(self).__name__}')

    def eq(self, other) -> 'VBool':
        if isinstance(other, VNone):
            return VBool(z3.BoolVal(False))
        return VBool(self.term() == _t(other))

    def ne(self, other):
        return ~self.eq(other)

    def __eq__(self, other): return self.eq(other)
    def __ne__(self, other): return self.ne(other)
    __hash__ = object.__hash__


class VNone(Value):
    sort = NoneS()
    def truth(self): return VBool(z3.BoolVal(False))
    def eq(self, other):
        if isinstance(other, VNone):
            return VBool(z3.BoolVal(True))
        if isinstance(other, VOpt):
            return other.is_none()
        return VBool(z3.BoolVal(False))
    def __repr__(self): return 'VNone'


class VInt(Value):
    sort = INT
    def __init__(self, t):
        self.t = z3.IntVal(t) if isinstance(t, int) else t
    def term(self): return self.t
    def truth(self): return VBool(self.t != 0)
    def __add__(self, o): return VInt(self.t + _t(o))
    def __radd__(self, o): return VInt(_t(o) + self.t)
    def __sub__(self, o): return VInt(self.t - _t(o))
    def __rsub__(self, o): return VInt(_t(o) - self.t)
    def __mul__(self, o): return VInt(self.t * _t(o))
    def __rmul__(self, o): return VInt(_t(o) * self.t)
    def __neg__(self): return VInt(-self.t)
    def __lt__(self, o): return VBool(self.t < _t(o))
    def __le__(self, o): return VBool(self.t <= _t(o))
    def __gt__(self, o): return VBool(self.t > _t(o))
    def __ge__(self, o): return VBool(self.t >= _t(o))
    def eq(self, o):
        if isinstance(o, (VNone,)):
            return VBool(z3.BoolVal(False))
        if isinstance(o, VOpt):
            return o.eq(self)
        return VBool(self.t == _t(o))
    def __repr__(self): return f'VInt({self.t})'
    __hash__ = object.__hash__
    __eq__ = Value.__eq__
    __ne__ = Value.__ne__


class VBool(Value):
    sort = BOOL
    def __init__(self, t):
        self.t = z3.BoolVal(t) if isinstance(t, bool) else t
    def term(self): return self.t
    def truth(self): return self
    def __and__(self, o): return VBool(z3.And(self.t, _b(o)))
    def __rand__(self, o): return VBool(z3.And(_b(o), self.t))
    def __or__(self, o): return VBool(z3.Or(self.t, _b(o)))
    def __ror__(self, o): return VBool(z3.Or(_b(o), self.t))
    def __invert__(self): return VBool(z3.Not(self.t))
    def implies(self, o): return VBool(z3.Implies(self.t, _b(o)))
    def iff(self, o): return VBool(self.t == _b(o))
    def eq(self, o): return VBool(self.t == _b(o))
    def __repr__(self): return f'VBool({self.t})'
    __hash__ = object.__hash__
    __eq__ = Value.__eq__
    __ne__ = Value.__ne__

    def __bool__(self):
        s = z3.simplify(self.t)
        if z3.is_true(s):
            return True
        if z3.is_false(s):
            return False
        raise Unsupported('python bool() of a symbolic VBool (use & | ~ in clauses)')


class VRef(Value):
    def __init__(self, t, sort: RefS):
        self.t = t
        self.sort = sort
    def term(self): return self.t
    def truth(self):
        fn = _ref_truth.get(self.sort.name) or self.sort.truth_fn
        if fn is not None:
            return VBool(fn(self.t))
        if self.sort.name not in TRUTH_AUDIT:
            TRUTH_AUDIT.add(self.sort.name)
            import os
            if os.environ.get('PYVC_TRUTH_AUDIT'):
                with open(os.environ['PYVC_TRUTH_AUDIT'], 'a') as f:
                    f.write(self.sort.name + '\n')
        return VBool(True)
    def __repr__(self): return f'VRef({self.t})'
    __hash__ = object.__hash__
    __eq__ = Value.__eq__
    __ne__ = Value.__ne__


class VOpt(Value):
    def __init__(self, t, sort: OptS):
        self.t = t
        self.sort = sort
    def term(self): return self.t
    def is_none(self): return VBool(self.sort._dt().is_none(self.t))
    def val(self): return self.sort.inner.wrap(self.sort._dt().val(self.t))
    def truth(self):
        return VBool(z3.And(z3.Not(self.is_none().t), self.val().truth().t))
    def eq(self, o):
        if isinstance(o, VNone):
            return self.is_none()
        if isinstance(o, VOpt):
            return VBool(self.t == o.t)
        return VBool(z3.And(z3.Not(self.is_none().t), self.val().eq(o).t))
    def __repr__(self): return f'VOpt({self.t})'
    __hash__ = object.__hash__
    __eq__ = Value.__eq__
    __ne__ = Value.__ne__


class VTuple(Value):
    def __init__(self, items, sort: TupleS | None = None):
        self.items = list(items)
        self.sort = sort or TupleS(*[i.sort for i in self.items])
    def term(self): return self.sort.pack(self.items)
    def truth(self): return VBool(len(self.items) > 0)
    def __getitem__(self, i): return self.items[i]
    def __len__(self): return len(self.items)
    def eq(self, o):
        if isinstance(o, VTuple) and len(o.items) == len(self.items):
            r = VBool(True)
            for a, b in zip(self.items, o.items):
                r = r & a.eq(b)
            return r
        return VBool(self.term() == _t(o))
    def __repr__(self): return f'VTuple({self.items})'
    __hash__ = object.__hash__
    __eq__ = Value.__eq__
    __ne__ = Value.__ne__


class VSet(Value):
    def __init__(self, arr, elem: Sort):
        self.arr = arr
        self.elem = elem
        self.sort = SetS(elem)
    def term(self): return self.arr
    def has(self, x): return VBool(z3.Select(self.arr, _t(x)))
    def truth(self):
        x = z3.Const(fresh_name('ne'), self.elem.z3())
        return VBool(z3.Exists([x], self.arr[x]))
    def is_empty(self):
        x = z3.Const(fresh_name('em'), self.elem.z3())
        return VBool(z3.ForAll([x], z3.Not(self.arr[x])))
    def add(self, x): return VSet(z3.Store(self.arr, _t(x), z3.BoolVal(True)), self.elem)
    def discard(self, x): return VSet(z3.Store(self.arr, _t(x), z3.BoolVal(False)), self.elem)
    def _lam(self, f):
        # a fresh array constant with a defining axiom (collected in DEFS and added to the path condition by
        # the engine) instead of a lambda term: lambda arrays stored inside other arrays make z3 give up
        x = z3.Const(fresh_name('x'), self.elem.z3())
        r = z3.Const(fresh_name('setop'), z3.ArraySort(self.elem.z3(), z3.BoolSort()))
        DEFS.append(z3.ForAll([x], r[x] == f(x)))
        return VSet(r, self.elem)
    def __or__(self, o): return self._lam(lambda x: z3.Or(self.arr[x], o.arr[x]))
    def __and__(self, o): return self._lam(lambda x: z3.And(self.arr[x], o.arr[x]))
    def __sub__(self, o): return self._lam(lambda x: z3.And(self.arr[x], z3.Not(o.arr[x])))
    def subset(self, o):
        x = z3.Const(fresh_name('x'), self.elem.z3())
        return VBool(z3.ForAll([x], z3.Implies(self.arr[x], o.arr[x])))
    def eq(self, o):
        if isinstance(o, VNone):
            return VBool(False)
        x = z3.Const(fresh_name('x'), self.elem.z3())
        return VBool(z3.ForAll([x], self.arr[x] == o.arr[x]))
    def __repr__(self): return f'VSet({self.arr})'
    __hash__ = object.__hash__
    __eq__ = Value.__eq__
    __ne__ = Value.__ne__


class VList(Value):
    def __init__(self, n, arr, elem: Sort):
        self.n = z3.IntVal(n) if isinstance(n, int) else n
        self.arr = arr
        self.elem = elem
        self.sort = ListS(elem)
    @property
    def len(self): return VInt(self.n)
    def truth(self): return VBool(self.n > 0)
    def at(self, i): return self.elem.wrap(z3.Select(self.arr, _t(i)))
    def __getitem__(self, i): return self.at(i)
    def inb(self, i): return VBool(z3.And(_t(i) >= 0, _t(i) < self.n))
    def append(self, x):
        return VList(self.n + 1, z3.Store(self.arr, self.n, _t(x)), self.elem)
    def eq(self, o):
        if isinstance(o, VNone):
            return VBool(False)
        i = z3.Int(fresh_name('i'))
        return VBool(z3.And(self.n == o.n, z3.ForAll([i], z3.Implies(
            z3.And(i >= 0, i < self.n), self.arr[i] == o.arr[i]))))
    def __repr__(self): return f'VList({self.n},{self.arr})'
    __hash__ = object.__hash__
    __eq__ = Value.__eq__
    __ne__ = Value.__ne__


class VMap(Value):
    def __init__(self, dom, val, key: Sort, vs: Sort):
        self.dom = dom
        self.val = val
        self.key = key
        self.vs = vs
        self.sort = MapS(key, vs)
    def has(self, k): return VBool(z3.Select(self.dom, _t(k)))
    def truth(self):
        x = z3.Const(fresh_name('ne'), self.key.z3())
        return VBool(z3.Exists([x], self.dom[x]))
    def at(self, k): return self.vs.wrap(z3.Select(self.val, _t(k)))
    def __getitem__(self, k): return self.at(k)
    def keys(self): return VSet(self.dom, self.key)
    def store(self, k, v):
        return VMap(z3.Store(self.dom, _t(k), z3.BoolVal(True)), z3.Store(self.val, _t(k), _t(v)),
                    self.key, self.vs)
    def delete(self, k):
        return VMap(z3.Store(self.dom, _t(k), z3.BoolVal(False)), self.val, self.key, self.vs)
    def eq(self, o):
        if isinstance(o, VNone):
            return VBool(False)
        x = z3.Const(fresh_name('k'), self.key.z3())
        return VBool(z3.ForAll([x], z3.And(self.dom[x] == o.dom[x],
                                           z3.Implies(self.dom[x], self.val[x] == o.val[x]))))
    def __repr__(self): return f'VMap({self.dom},{self.val})'
    __hash__ = object.__hash__
    __eq__ = Value.__eq__
    __ne__ = Value.__ne__


class VRec(Value):
    """A pointer to a record in the engine store."""
    def __init__(self, rid: int, sort: RecS):
        self.rid = rid
        self.sort = sort
    def truth(self): return VBool(True)
    def eq(self, o):
        if isinstance(o, VRec):
            return VBool(self.rid == o.rid)
        return VBool(False)
    def __repr__(self): return f'VRec({self.sort.name}#{self.rid})'
    __hash__ = object.__hash__
    __eq__ = Value.__eq__
    __ne__ = Value.__ne__


class VConst(Value):
    """A python-level constant the engine keeps concrete (str, bytes, enum member, class, function)."""
    def __init__(self, py):
        self.py = py
    def truth(self): return VBool(bool(self.py))
    def eq(self, o):
        if isinstance(o, VConst):
            return VBool(self.py == o.py)
        if isinstance(o, VNone):
            return VBool(self.py is None)
        return VBool(False)
    def __repr__(self): return f'VConst({self.py!r})'
    __hash__ = object.__hash__
    __eq__ = Value.__eq__
    __ne__ = Value.__ne__


# --------------------------------------------------------------------------- clause helpers

def forall(f, sort: Sort = INT, n: int = 1):
    """forall(lambda x: <VBool>)  -- bound variable(s) of the given sort."""
    xs = [z3.Const(fresh_name('q'), sort.z3()) for _ in range(n)]
    body = f(*[sort.wrap(x) for x in xs])
    return VBool(z3.ForAll(xs, _b(body)))


def exists(f, sort: Sort = INT, n: int = 1):
    xs = [z3.Const(fresh_name('e'), sort.z3()) for _ in range(n)]
    body = f(*[sort.wrap(x) for x in xs])
    return VBool(z3.Exists(xs, _b(body)))


def implies(a, b):
    return VBool(z3.Implies(_b(a), _b(b)))


def conj(*xs):
    return VBool(z3.And(*[_b(x) for x in xs])) if xs else VBool(True)


def disj(*xs):
    return VBool(z3.Or(*[_b(x) for x in xs])) if xs else VBool(False)


def ite(c, a, b):
    if isinstance(a, (VInt, int)) or isinstance(b, (VInt,)):
        return VInt(z3.If(_b(c), _t(a), _t(b)))
    if isinstance(a, (VBool, bool)):
        return VBool(z3.If(_b(c), _b(a), _b(b)))
    if isinstance(a, VSet):
        return VSet(z3.If(_b(c), a.arr, b.arr), a.elem)
    if isinstance(a, VRef):
        return VRef(z3.If(_b(c), a.t, b.t), a.sort)
    if isinstance(a, VOpt):
        return VOpt(z3.If(_b(c), a.t, b.t), a.sort)
    if isinstance(a, VList):
        return VList(z3.If(_b(c), a.n, b.n), z3.If(_b(c), a.arr, b.arr), a.elem)
    if isinstance(a, VMap):
        return VMap(z3.If(_b(c), a.dom, b.dom), z3.If(_b(c), a.val, b.val), a.key, a.vs)
    raise Unsupported(f'ite over {type(a).__name__}')


def strictly_increasing(lst: VList, lo=0, hi=None):
    hi = lst.n if hi is None else _t(hi)
    i, j = z3.Int(fresh_name('i')), z3.Int(fresh_name('j'))
    return VBool(z3.ForAll([i, j], z3.Implies(z3.And(_t(lo) <= i, i < j, j < hi),
                                              lst.arr[i] < lst.arr[j])))


def elems(lst: VList):
    """the set of elements of a list (as a lambda array with an existential -- use sparingly)"""
    x = z3.Const(fresh_name('x'), lst.elem.z3())
    i = z3.Int(fresh_name('i'))
    return VSet(z3.Lambda([x], z3.Exists([i], z3.And(i >= 0, i < lst.n, lst.arr[i] == x))), lst.elem)


def is_none(v):
    if isinstance(v, VNone):
        return VBool(True)
    if isinstance(v, VOpt):
        return v.is_none()
    return VBool(False)


def when_some(v, f, none=True):
    """f(value) when v is not None; `none` when it is (python-level for VNone, symbolic for VOpt)"""
    if isinstance(v, VNone):
        return VBool(none)
    if isinstance(v, VOpt):
        return VBool(z3.If(v.is_none().t, z3.BoolVal(none), _b(f(v.val()))))
    return f(v)


def _literal_set_count(arr):
    """number of elements of a literal set term Store(...K(false)...) or None if not a literal"""
    keys = {}
    t = arr
    while True:
        if z3.is_store(t):
            a, k, v = t.arg(0), t.arg(1), t.arg(2)
            ks = k.sexpr()
            if ks not in keys:
                if not (z3.is_true(v) or z3.is_false(v)):
                    return None
                keys[ks] = z3.is_true(v)
            t = a
        elif z3.is_const_array(t):
            if z3.is_false(t.arg(0)):
                return sum(1 for x in keys.values() if x)
            return None
        else:
            return None


def card_is(s: 'VSet', n):
    """|s| == n.  Symbolically this is the engine's uninterpreted cardinality (the same term len(set)
    evaluates to); on a literal (concrete) set it is counted."""
    from . import builtins_model as bm
    c = _literal_set_count(z3.simplify(s.arr))
    if c is not None:
        return VBool(z3.IntVal(c) == _t(n))
    return VBool(bm.card_term(s).t == _t(n))
