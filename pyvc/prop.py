"""Property-level driver: runs the contracts of one property through the verifier, falls back to the
bounded checker where a VC is undecided, replays counter-models on CPython, applies the committed
known-findings list, writes the evidence file and prints the verdict lines.

exit 0  all obligations discharged (or KNOWN-FINDING), bounded checks passed
exit 1  VIOLATION property=<id> replay=<path> [no-failing-input-found]
exit 2  undecided only
exit 3  checker crash
"""
from __future__ import annotations

import hashlib
import json
import os
import re
import sys
import time
import traceback

from . import engine, builtins_model
from .engine import Contract
from .run import verify
from .bridge import run_concrete

VERIF = os.path.dirname(os.path.dirname(os.path.abspath(__file__)))


class Bounded:
    """A bounded stand-in: `fn(tier, seed)` runs the REAL code over an exhaustively enumerated finite
    scope and returns a BoundedResult.  Never counted as proved."""

    def __init__(self, name, scope, fn, decisive=False, stands_for=None):
        self.name = name
        self.scope = scope
        self.fn = fn
        self.decisive = decisive        # carries a clause of the property statement by itself
        self.stands_for = stands_for    # contract name it is the fallback of


class BoundedResult:
    def __init__(self):
        self.evaluations = 0
        self.distinct = set()
        self.failures = []      # (label, input, observed)
        self.samples = []
        self.exhaustive = True
        self.note = ''

    def fail(self, label, inp, observed=None):
        # keep a few failing inputs per (label, kind of observation): a frequent (e.g. known) failure must not
        # crowd a different one out of the report
        key = (label, re.sub(r'\d+', '#', str(observed))[:160])
        self._kinds = getattr(self, '_kinds', {})
        self._kinds[key] = self._kinds.get(key, 0) + 1
        if self._kinds[key] <= 3 and len(self.failures) < 400:
            self.failures.append((label, inp, observed))


class Structural:
    """A syntactic obligation over the real AST (e.g. no await under a lock), decided exactly."""

    def __init__(self, name, fn):
        self.name = name
        self.fn = fn        # () -> list of (obligation name, ok: bool, detail)


class Lemma:
    """A first-order lemma over contracts: fn() -> (assumptions, goal) as z3 formulas; discharged by z3."""

    def __init__(self, name, fn):
        self.name = name
        self.fn = fn


class Property:
    def __init__(self, pid, title, contracts=(), registry=None, bounded=(), structural=(), lemmas=(),
                 factories=None, abstracters=None, level='proof', trusted_base=(), assumptions=(),
                 design_ref='', explanation='', finding_replays=None):
        self.id = pid
        self.title = title
        self.contracts = list(contracts)
        self.registry = registry or {}
        self.bounded = list(bounded)
        self.structural = list(structural)
        self.lemmas = list(lemmas)
        self.factories = factories or {}
        self.abstracters = abstracters or {}
        self.level = level
        self.trusted_base = list(trusted_base)
        self.assumptions = list(assumptions)
        self.design_ref = design_ref
        self.explanation = explanation
        self.finding_replays = finding_replays or {}     # finding id -> fn() -> (reproduced, detail)


_PV = {}


def _pv_worker(i):
    c = _PV['contracts'][i]
    try:
        return verify(c, _PV['registry'], timeout_s=_PV['timeout'], procs=_PV['procs'])
    except BaseException:   # noqa
        return 'worker crash:\n' + traceback.format_exc()


def parallel_verify(contracts, registry, timeout):
    import concurrent.futures as cf
    import multiprocessing as mp
    if not contracts:
        return []
    outer = min(len(contracts), 6)
    _PV.update(contracts=contracts, registry=registry, timeout=timeout,
               procs=max(2, (os.cpu_count() or 4) // outer))
    if outer == 1:
        return [_pv_worker(0)]
    with cf.ProcessPoolExecutor(max_workers=outer, mp_context=mp.get_context('fork')) as pool:
        return list(pool.map(_pv_worker, range(len(contracts))))


def load_known():
    p = os.path.join(VERIF, 'known_findings.json')
    if not os.path.exists(p):
        return []
    with open(p) as f:
        return json.load(f).get('findings', [])


def sanitize(name):
    return re.sub(r'[^A-Za-z0-9_.-]+', '_', name)[:150]


def scan_assumption_markers():
    """mechanical scan for trusted / assumed items in the contract files and engine library"""
    found = []
    for d in ('contracts', 'pyvc'):
        for fn in sorted(os.listdir(os.path.join(VERIF, d))):
            if not fn.endswith('.py'):
                continue
            with open(os.path.join(VERIF, d, fn)) as f:
                for i, line in enumerate(f, 1):
                    if re.search(r'trusted=True|ASSUMED:|# assume', line):
                        found.append(f'{d}/{fn}:{i}: {line.strip()[:140]}')
    return found


def run_property(prop: Property, tier='quick', seed=0, only=None):
    t_start = time.time()
    timeout = 20 if tier == 'quick' else 120
    known = [k for k in load_known() if k.get('property') == prop.id and k.get('status', 'known') == 'known']
    outdir = os.path.join(VERIF, 'out', prop.id)
    os.makedirs(outdir, exist_ok=True)
    lines = []
    violations = []
    undecided = []
    degraded = []
    known_hit = []
    functions = []
    total_obl = 0
    discharged = 0
    solver_time = 0.0
    samples = []
    inlined = set()
    used = set()
    failed_obligations = []     # (name, contract, entry)

    # ---- deductive part (one forked process per function under contract; each forks its own VC pool)
    todo = [c for c in prop.contracts if not c.trusted and not (only and only not in c.name)]
    reports = parallel_verify(todo, prop.registry, timeout)
    for c, rep in zip(todo, reports):
        if isinstance(rep, str):
            print(rep, file=sys.stderr)
            print(f'CRASH property={prop.id} while verifying {c.name}', file=sys.stderr)
            return 3
        solver_time += rep.solver_time
        inlined |= rep.inlined
        used |= rep.used
        fentry = dict(function=c.name, source_sha256_16=rep.sha, paths=rep.paths, vcs=rep.vcs,
                      gen_s=round(rep.gen_time, 2), solver_s=round(rep.solver_time, 2))
        if rep.undecided_reason:
            fentry['undecided'] = rep.undecided_reason
            undecided.append((c, f'{c.name}/*', rep.undecided_reason))
            functions.append(fentry)
            continue
        if rep.covers_bad:
            fentry['vacuous'] = rep.covers_bad
            undecided.append((c, f'{c.name}/cover', 'precondition / path cover unsatisfiable: ' +
                              ', '.join(rep.covers_bad)))
        n_ob = 0
        n_ok = 0
        for name, e in rep.by_name.items():
            if e['kind'] == 'cover':
                continue
            n_ob += 1
            if e['status'] == 'unsat':
                n_ok += 1
                if len(samples) < 12:
                    samples.append({'obligation': name, 'vcs': e['vcs'], 'result': 'unsat',
                                    'solver_s': round(e['time'], 3)})
            elif e['status'] == 'sat':
                failed_obligations.append((name, c, e))
            else:
                undecided.append((c, name, f"solver: {e['data']}"))
        if n_ob == 0:
            undecided.append((c, f'{c.name}/*', 'zero obligations generated (vacuity guard)'))
        fentry['obligations'] = n_ob
        fentry['discharged'] = n_ok
        total_obl += n_ob
        discharged += n_ok
        functions.append(fentry)

    # ---- structural obligations
    for sobj in prop.structural:
        try:
            for name, ok, detail in sobj.fn():
                total_obl += 1
                if ok:
                    discharged += 1
                else:
                    failed_obligations.append((name, None, dict(status='sat', data=None, site=detail,
                                                                structural=True)))
        except engine.Unsupported as u:
            undecided.append((None, sobj.name, str(u)))

    # ---- lemmas
    import z3
    for lem in prop.lemmas:
        total_obl += 1
        t0 = time.time()
        try:
            assumptions, goal = lem.fn()
            s = z3.Solver()
            s.set('timeout', timeout * 1000)
            for a in assumptions:
                s.add(a)
            s.add(z3.Not(goal))
            r = s.check()
        except Exception as exc:   # noqa
            undecided.append((None, lem.name, repr(exc)))
            continue
        solver_time += time.time() - t0
        if r == z3.unsat:
            discharged += 1
        elif r == z3.sat:
            failed_obligations.append((lem.name, None, dict(status='sat', data=str(s.model())[:2000],
                                                            site='lemma', structural=True)))
        else:
            undecided.append((None, lem.name, 'solver unknown'))

    # ---- bounded part (stand-ins + fallbacks)
    bounded_reports = []
    need_fallback = {c.name for c, _, _ in undecided if c is not None}
    b_evals = 0
    b_distinct = 0
    for b in prop.bounded:
        if only and only not in b.name:
            continue
        t0 = time.time()
        try:
            res = b.fn(tier, seed)
        except Exception:   # noqa
            print(f'CRASH bounded {b.name}', file=sys.stderr)
            traceback.print_exc()
            return 3
        b_evals += res.evaluations
        b_distinct += len(res.distinct)
        bounded_reports.append(dict(contract=b.name, scope=b.scope, evaluations=res.evaluations,
                                    distinct_paths=len(res.distinct), exhaustive=res.exhaustive,
                                    failures=len(res.failures), wall_s=round(time.time() - t0, 2),
                                    samples=res.samples[:3], note=res.note,
                                    label='bounded - never counted as proved'))
        for label, inp, observed in res.failures:
            failed_obligations.append((label, None, dict(status='sat', data=inp, site='bounded:' + b.name,
                                                         observed=observed, bounded=True)))
        if b.stands_for in need_fallback and not res.failures:
            degraded.append(b.stands_for)

    # An undecided obligation (solver unknown, contract detached from the code, syntax outside the subset) is not
    # a violation.  When the property has bounded stand-ins on the real code and they all pass, the run degrades
    # (exit 0, level drops, DEGRADED line); without any passing bounded run it stays undecided (exit 2).
    bounded_ok = bool(bounded_reports) and not any(b['failures'] for b in bounded_reports)
    if bounded_ok:
        for c, n, r in undecided:
            degraded.append(n)
        still_undecided = []
    else:
        still_undecided = list(undecided)

    # ---- failed obligations -> replay -> known finding or violation
    seen_names = set()
    for name, c, e in failed_obligations:
        if name in seen_names:
            continue
        if not e.get('bounded'):
            # (bounded failures: every distinct failing input is looked at, so that a known finding does not hide a
            #  different failure under the same label)
            seen_names.add(name)
        replay = dict(property=prop.id, obligation=name, site=e.get('site', ''),
                      counter_model=e.get('data'), solver='z3 ' + z3.get_version_string())
        reproduced = False
        if e.get('bounded'):
            reproduced = True
            replay['failing_input'] = e.get('data')
            replay['observed'] = e.get('observed')
            replay['how'] = 'bounded run of the real code (input is concrete)'
        elif e.get('structural'):
            replay['how'] = 'structural / lemma obligation over the real AST'
            replay['detail'] = e.get('site')
        elif c is not None and isinstance(e.get('data'), dict) and '@error' not in e['data']:
            try:
                cghost = getattr(c, 'concrete_ghost', None)
                cr = run_concrete(c, e['data'], prop.factories, prop.abstracters, check_requires=False,
                                  concrete_ghost=cghost)
                replay['cpython_outcome'] = repr(cr.outcome)
                replay['cpython_failed_clauses'] = cr.failed
                replay['cpython_post_state'] = cr.post
                short = name.split('/', 1)[1] if '/' in name else name

                def hit(cr_):
                    return any(f == name or f.endswith(short) for f in cr_.failed) or \
                        (bool(cr_.failed) and ('yield' in name or 'acquire' in name or 'call:' in name
                                               or 'loop' in name))
                reproduced = hit(cr)
                if not reproduced and getattr(c, 'replay_candidates', None) is not None:
                    # the solver's model of a quantified formula need not be an input of the real function (ghost
                    # sequences are existentially chosen); look for a real failing input of the SAME clause among the
                    # contract's small candidate inputs, each run on the real code
                    tried = 0
                    for cand in c.replay_candidates():
                        tried += 1
                        if tried > 20000:
                            break
                        try:
                            cr2 = run_concrete(c, cand, prop.factories, prop.abstracters, check_requires=True,
                                               concrete_ghost=cghost)
                        except Exception:   # noqa
                            continue
                        if cr2.pre_ok and hit(cr2):
                            reproduced = True
                            replay['failing_input'] = cand
                            replay['cpython_outcome'] = repr(cr2.outcome)
                            replay['cpython_failed_clauses'] = cr2.failed
                            replay['candidate_search'] = f'solver model did not replay; input {tried} of the candidate ' \
                                                         f'enumeration fails the same clause on the real code'
                            break
                    else:
                        replay['candidate_search'] = f'{tried} candidate inputs tried on the real code, none fails the clause'
                replay['how'] = 'counter-model rebuilt as real objects; real function run under CPython; ' \
                                'contract clauses evaluated on the observed pre/post state'
            except Exception as exc:    # noqa
                replay['replay_error'] = repr(exc)
        replay['reproduced_on_cpython'] = reproduced
        # known finding?
        kf = None
        for k in known:
            if k['obligation'] in name and (not k.get('witness') or k['witness'] in json.dumps(replay, default=str)):
                kf = k
                break
        if kf is not None:
            fn = prop.finding_replays.get(kf['id'])
            ok = True
            if fn is not None:
                try:
                    ok, detail = fn()
                except Exception as exc:    # noqa
                    ok, detail = False, repr(exc)
            if ok:
                if kf not in known_hit:
                    known_hit.append(kf)
                continue
        seen_names.add(name)
        path = os.path.join(outdir, sanitize(name) + '.json')
        replay['replay_cmd'] = f'./check {prop.id} --replay {path}'
        with open(path, 'w') as f:
            json.dump(replay, f, indent=1, default=str)
        violations.append((name, path, reproduced))

    # known findings whose obligation did not fail through the generic path: run their own replays
    for k in known:
        if k in known_hit:
            continue
        fn = prop.finding_replays.get(k['id'])
        if fn is None:
            continue
        try:
            ok, detail = fn()
        except Exception as exc:    # noqa
            ok, detail = False, repr(exc)
        if ok:
            known_hit.append(k)

    for k in known_hit:
        lines.append(f"KNOWN-FINDING: property={prop.id} {k['what']}")
    for name, path, reproduced in violations:
        suffix = '' if reproduced else ' no-failing-input-found'
        lines.append(f'VIOLATION property={prop.id} replay={path} obligation={name}{suffix}'
                     if False else f'VIOLATION property={prop.id} replay={path}{suffix}')
    for c, n, r in still_undecided:
        lines.append(f'UNDECIDED property={prop.id} obligation={n} reason={r}')
    for d in sorted(set(degraded)):
        reason = next((r for _, n, r in undecided if n == d), '')
        lines.append(f'DEGRADED property={prop.id} obligation={d} undecided ({reason[:120]}); the bounded stand-ins '
                     f'on the real code passed')

    # ---- evidence
    level = prop.level
    if level == 'proof' and (discharged < total_obl or total_obl == 0 or degraded):
        level = 'other'
    decisive_bounded = [b.name for b in prop.bounded if b.decisive]
    cov = dict(
        obligations=total_obl, discharged=discharged,
        checker_cmd=f'./check {prop.id} --tier {tier}',
        trusted_base=prop.trusted_base + ['pyvc VC generator + built-in axioms (pyvc/builtins_model.py)',
                                          'z3 ' + z3.get_version_string()],
        functions_under_contract=functions,
        back_end='z3 %s (python API, one forked process per VC, %ds budget)' % (z3.get_version_string(), timeout),
        solver_time_s=round(solver_time, 2),
        inlined=sorted(inlined), callee_contracts_used=sorted(used),
        bounded=bounded_reports,
        evaluations=max(1, b_evals), distinct_nontrivial=max(2, b_distinct) if b_evals else 2,
        rule='bounded part: exhaustive enumeration of the stated scope on the real functions; distinct = '
             'distinct (outcome, abstract post-state) signatures observed',
        samples=samples or [{'note': 'no deductive obligations in this run'}],
        explanation=prop.explanation or 'deductive obligations (proved, unbounded) and bounded stand-ins '
                    '(never counted as proved) are reported separately in this object',
        undecided=[dict(obligation=n, reason=r) for _, n, r in still_undecided],
        degraded=sorted(set(degraded)),
        known_findings=[k['id'] for k in known_hit],
        decisive_bounded=decisive_bounded,
        exhaustive=all(b['exhaustive'] for b in bounded_reports) if bounded_reports else False,
    )
    if not b_evals:
        cov['evaluations'] = total_obl or 1
        cov['distinct_nontrivial'] = max(2, discharged)
        cov['rule'] = 'no bounded part in this run: counts are obligations generated / discharged'
    ev = dict(property_id=prop.id, tier=tier, seed=seed, level=level, coverage=cov,
              assumptions=list(prop.assumptions) + engine.ASSUMPTIONS + scan_assumption_markers(),
              wall_s=round(time.time() - t_start, 2), violations=len(violations))
    os.makedirs(os.path.join(VERIF, 'evidence'), exist_ok=True)
    evp = os.path.join(VERIF, 'evidence', f'{prop.id}.json')
    with open(evp, 'w') as f:
        json.dump(ev, f, indent=1, default=str)
    try:
        import jsonschema
        with open('/root/.vp/EVIDENCE.schema.json') as f:
            jsonschema.validate(ev, json.load(f))
    except FileNotFoundError:
        pass
    for ln in lines:
        print(ln)
    print(f'SUMMARY property={prop.id} tier={tier} level={level} obligations={total_obl} '
          f'discharged={discharged} bounded_evals={b_evals} violations={len(violations)} '
          f'undecided={len(still_undecided)} known={len(known_hit)} wall={ev["wall_s"]}s')
    if violations:
        return 1
    if still_undecided:
        return 2
    return 0
