"""Bridge between the symbolic world and CPython.

  build(sort, data)      plain data (ints, lists, dicts, {'@ref':..}) -> real python objects of /repo
  abstract(sort, obj)    real objects -> plain data
  lift(sort, data, st)   plain data -> constant symbolic values in an engine State
  run_concrete(contract, data)   run the REAL function on built arguments and evaluate every clause of
                         the contract on the (pre, post) pair: the clause text is the same one the
                         verifier proved; applied to constant values it yields a closed formula that z3
                         evaluates.

Used for (a) replaying counter-models on the real code, (b) the bounded stand-in `scc`, (c) the CPython
cross-check of the symbolic executor.
"""
from __future__ import annotations

import asyncio
import copy
import importlib
import inspect

import z3

from .values import *  # noqa
from .values import _b, _t
from .engine import State, Scope, Alias, module_of, Contract


class Ctx:
    def __init__(self, factories=None, abstracters=None):
        self.refs = {}          # name -> object
        self.names = {}         # id(object) -> name
        self.keep = []
        self.factories = factories or {}
        self.abstracters = abstracters or {}
        self.counter = 0

    def name_of(self, sort, obj):
        # immutable values (names, byte strings) are identified by value, objects by identity
        k = ('val', sort.name, obj) if isinstance(obj, (str, bytes, int, frozenset)) else id(obj)
        if k not in self.names:
            self.counter += 1
            nm = f'{sort.name}!new{self.counter}'
            while nm in self.refs:
                self.counter += 1
                nm = f'{sort.name}!new{self.counter}'
            self.names[k] = nm
            self.refs[nm] = obj
            self.keep.append(obj)
        return self.names[k]


def build(sort, data, ctx: Ctx):
    if hasattr(sort, 'build_model'):
        return sort.build_model(data, ctx)
    if isinstance(sort, (IntS, BoolS)):
        return data
    if isinstance(sort, NoneS):
        return None
    if isinstance(sort, OptS):
        return None if data is None else build(sort.inner, data, ctx)
    if isinstance(sort, TupleS):
        return tuple(build(s, d, ctx) for s, d in zip(sort.items, data))
    if isinstance(sort, SetS):
        s = {build(sort.elem, d, ctx) for d in data}
        return frozenset(s) if getattr(sort, 'frozen', False) else s
    if isinstance(sort, ListS):
        if getattr(sort, 'bytes', False):
            return bytes(data)
        return [build(sort.elem, d, ctx) for d in data]
    if isinstance(sort, MapS):
        out = {}
        for k, v in data.items():
            kk = ctx.refs[k] if isinstance(sort.key, RefS) and k in ctx.refs else \
                (build(sort.key, {'@ref': k}, ctx) if isinstance(sort.key, RefS) else k)
            out[kk] = build(sort.val, v, ctx)
        return out
    if isinstance(sort, RefS):
        name = data['@ref'] if isinstance(data, dict) else data
        if name not in ctx.refs:
            fac = ctx.factories.get(sort.name)
            if fac is None:
                raise KeyError(f'no factory for opaque sort {sort.name}')
            attrs = {}
            if isinstance(data, dict):
                for a, s in sort.attrs.items():
                    if a in data:
                        attrs[a] = build(s, data[a], ctx)
            obj = fac(name, attrs, ctx)
            ctx.refs[name] = obj
            ctx.names[('val', sort.name, obj) if isinstance(obj, (str, bytes, int, frozenset)) else id(obj)] = name
            ctx.keep.append(obj)
        return ctx.refs[name]
    if isinstance(sort, RecS):
        fac = getattr(sort, 'factory', None)
        if fac is not None:
            return fac(data, ctx)
        relfile, clsname = sort.pyclass
        cls = module_of(relfile)
        for p in clsname.split('.'):
            cls = getattr(cls, p)
        obj = cls.__new__(cls)
        for f, fs in sort.fields.items():
            if f in sort.ghost:
                continue
            setattr(obj, f, build(fs, data[f], ctx))
        init = getattr(sort, 'extra_init', None)
        if init:
            init(obj, data, ctx)
        return obj
    raise Unsupported(f'build {sort}')


def abstract(sort, obj, ctx: Ctx):
    if hasattr(sort, 'abstract_model'):
        return sort.abstract_model(obj, ctx)
    if isinstance(sort, (IntS, BoolS)):
        return obj
    if isinstance(sort, NoneS):
        return None
    if isinstance(sort, OptS):
        return None if obj is None else abstract(sort.inner, obj, ctx)
    if isinstance(sort, TupleS):
        return tuple(abstract(s, o, ctx) for s, o in zip(sort.items, obj))
    if isinstance(sort, SetS):
        xs = [abstract(sort.elem, o, ctx) for o in obj]
        try:
            return sorted(xs)
        except TypeError:
            return sorted(xs, key=lambda d: d['@ref'])
    if isinstance(sort, ListS):
        return [abstract(sort.elem, o, ctx) for o in obj]
    if isinstance(sort, MapS):
        out = {}
        for k, v in obj.items():
            kk = abstract(sort.key, k, ctx)
            if isinstance(kk, dict):
                kk = kk['@ref']
            out[kk] = abstract(sort.val, v, ctx)
        return out
    if isinstance(sort, RefS):
        name = ctx.name_of(sort, obj)
        out = {'@ref': name}
        ab = ctx.abstracters.get(sort.name)
        for a, s in sort.attrs.items():
            try:
                raw = ab(obj, a) if ab else getattr(obj, a)
            except AttributeError:
                continue
            out[a] = abstract(s, raw, ctx)
        return out
    if isinstance(sort, RecS):
        ab = getattr(sort, 'abstracter', None)
        if ab is not None:
            return ab(obj, ctx)
        return {f: (sort.ghost[f](obj) if f in sort.ghost else abstract(fs, getattr(obj, f), ctx))
                for f, fs in sort.fields.items()}
    raise Unsupported(f'abstract {sort}')


class Lifter:
    def __init__(self, st: State):
        self.st = st
        self.ref_consts = {}    # (sortname, name) -> const
        self.facts = []

    def ref(self, sort, name):
        k = (sort.name, name)
        if k not in self.ref_consts:
            self.ref_consts[k] = z3.Const(f'{name}', sort.z3())
        return self.ref_consts[k]

    def distinct_facts(self):
        by = {}
        for (s, n), c in self.ref_consts.items():
            by.setdefault(s, []).append(c)
        return [z3.Distinct(*cs) for cs in by.values() if len(cs) > 1]

    def lift(self, sort, data):
        st = self.st
        if hasattr(sort, 'lift_model'):
            return sort.lift_model(data, self)
        if isinstance(sort, IntS):
            return VInt(z3.IntVal(data))
        if isinstance(sort, BoolS):
            return VBool(z3.BoolVal(bool(data)))
        if isinstance(sort, NoneS):
            return VNone()
        if isinstance(sort, OptS):
            return sort.none() if data is None else sort.some(self.lift(sort.inner, data))
        if isinstance(sort, TupleS):
            return VTuple([self.lift(s, d) for s, d in zip(sort.items, data)], sort)
        if isinstance(sort, SetS):
            v = sort.empty()
            for d in data:
                v = v.add(self.lift(sort.elem, d))
            return v
        if isinstance(sort, ListS):
            arr = z3.K(z3.IntSort(), self.default_term(sort.elem))
            for i, d in enumerate(data):
                arr = z3.Store(arr, i, self.lift(sort.elem, d).term())
            return VList(len(data), arr, sort.elem)
        if isinstance(sort, MapS):
            dom = z3.K(sort.key.z3(), z3.BoolVal(False))
            val = z3.K(sort.key.z3(), self.default_term(sort.val))
            for k, d in data.items():
                kt = self.ref(sort.key, k) if isinstance(sort.key, RefS) else z3.IntVal(k)
                dom = z3.Store(dom, kt, z3.BoolVal(True))
                val = z3.Store(val, kt, self.lift(sort.val, d).term())
            return VMap(dom, val, sort.key, sort.val)
        if isinstance(sort, RefS):
            name = data['@ref'] if isinstance(data, dict) else data
            c = self.ref(sort, name)
            r = VRef(c, sort)
            if isinstance(data, dict):
                for a, s in sort.attrs.items():
                    if a in data:
                        key = (sort.name, a)
                        if key not in st.heap:
                            st.heap_sorts[key] = s
                            st.heap[key] = z3.K(sort.z3(), self.default_term(s))
                        st.heap[key] = z3.Store(st.heap[key], c, self.lift(s, data[a]).term())
            return r
        if isinstance(sort, RecS):
            vals = {}
            for f, fs in sort.fields.items():
                vals[f] = self.lift(fs, data[f])
            return st.new_record(sort, sort.name, vals)
        raise Unsupported(f'lift {sort}')

    def default_term(self, sort):
        if isinstance(sort, IntS):
            return z3.IntVal(0)
        if isinstance(sort, BoolS):
            return z3.BoolVal(False)
        if isinstance(sort, SetS):
            return z3.K(sort.elem.z3(), z3.BoolVal(False))
        if isinstance(sort, OptS):
            return sort.none().t
        if isinstance(sort, RefS):
            return self.ref(sort, f'{sort.name}!dflt')
        if isinstance(sort, TupleS):
            return sort._dt().mk(*[self.default_term(s) for s in sort.items])
        raise Unsupported(f'default of {sort}')


def real_function(contract: Contract):
    mod = module_of(contract.file)
    obj = mod
    owner = None
    for p in contract.qualname.split('.'):
        owner = obj
        obj = inspect.getattr_static(obj, p) if inspect.isclass(obj) else getattr(obj, p)
    if isinstance(obj, (classmethod, staticmethod)):
        return obj.__func__, owner, type(obj).__name__
    if isinstance(obj, property):
        return obj.fget, owner, 'property'
    return obj, owner, 'function'


def infer_sort(obj):
    if obj is None:
        return NoneS()
    if isinstance(obj, bool):
        return BOOL
    if isinstance(obj, int):
        return INT
    if isinstance(obj, tuple):
        return TupleS(*[infer_sort(o) for o in obj])
    raise Unsupported(f'cannot infer the sort of result {type(obj).__name__}')


def closed_holds(formula, facts=(), timeout_ms=10000):
    """decide a closed formula: returns True / False / None (unknown)"""
    from . import values
    f = z3.simplify(_b(formula))
    defs = list(values.DEFS)
    del values.DEFS[:]
    if z3.is_true(f):
        return True
    if z3.is_false(f):
        return False
    s = z3.Solver()
    s.set('timeout', timeout_ms)
    for x in list(facts) + defs:
        s.add(x)
    s.add(z3.Not(f))
    r = s.check()
    if r == z3.unsat:
        return True
    if r == z3.sat:
        return False
    return None


class ConcreteRun:
    def __init__(self):
        self.pre_ok = None
        self.outcome = None         # ('return', data) | ('raise', exc class name)
        self.failed = []            # labels of clauses that are false
        self.unknown = []
        self.checked = 0
        self.post = None
        self.exc = None


def run_concrete(contract: Contract, data: dict, factories=None, abstracters=None,
                 check_requires=True, timeout_s=5, preset=None, concrete_ghost=None) -> ConcreteRun:
    """run the real function of `contract` on the concrete `data` ({param: plain data}) and evaluate the
    contract's clauses on the observed pre/post states"""
    out = ConcreteRun()
    ctx = Ctx(factories, abstracters)
    if preset is not None:
        preset(ctx)
    fn, owner, kind = real_function(contract)
    args = {}
    for p, s in contract.params.items():
        args[p] = build(s, data[p], ctx)
    pre_data = {p: abstract(s, args[p], ctx) for p, s in contract.params.items()}
    st0 = State()
    l0 = Lifter(st0)
    names0 = {}
    for p, s in contract.params.items():
        v = l0.lift(s, pre_data[p])
        names0[p] = Alias(st0.new_cell(v)) if isinstance(v, (VSet, VList, VMap)) else v
    if concrete_ghost is not None:
        concrete_ghost(st0, l0, pre_data)
    old = Scope(st0, names0)
    facts0 = l0.distinct_facts()
    if check_requires:
        for label, cl in contract.requires:
            h = closed_holds(cl(Scope(st0, names0, old)), facts0)
            if h is not True:
                out.pre_ok = False
                return out
        if contract.atomic is not None:
            for label, cl in contract.atomic.invariant:
                h = closed_holds(cl(Scope(st0, names0, old, {'seg': old})), facts0)
                if h is not True:
                    out.pre_ok = False
                    return out
    out.pre_ok = True
    call_args = dict(args)
    pos = []
    plist = list(contract.params)
    if kind in ('function', 'property') and plist and plist[0] == 'self':
        pos.append(call_args.pop('self'))
    elif kind == 'classmethod':
        pos.append(owner)
        call_args.pop('cls', None)
    result = None
    exc = None
    try:
        r = fn(*pos, **call_args)
        if inspect.iscoroutine(r):
            async def runner():
                return await asyncio.wait_for(r, timeout_s)
            r = asyncio.run(runner())
        elif inspect.isgenerator(r):
            r = list(r)
        result = r
    except BaseException as e:      # noqa
        exc = e
    out.exc = exc
    post_data = {p: abstract(s, args[p], ctx) for p, s in contract.params.items()}
    out.post = post_data
    st1 = State()
    l1 = Lifter(st1)
    l1.ref_consts = l0.ref_consts
    names1 = {}
    for p, s in contract.params.items():
        v = l1.lift(s, post_data[p])
        names1[p] = Alias(st1.new_cell(v)) if isinstance(v, (VSet, VList, VMap)) else v
    if concrete_ghost is not None:
        concrete_ghost(st1, l1, post_data)
    extra = {'seg': old}
    clauses = []
    base = contract.name
    if exc is None:
        rs = contract.returns
        if contract.yields is not None:
            rdata = [contract.abstract_yield(x, ctx) if hasattr(contract, 'abstract_yield')
                     else abstract(contract.yields, x, ctx) for x in result]
            st1.out = l1.lift(ListS(contract.yields), rdata)
            out.outcome = ('return', rdata)
            extra['result'] = VNone()
        elif hasattr(contract, 'lift_result'):
            extra['result'] = contract.lift_result(result, l1)
            out.outcome = ('return', repr(result))
        else:
            if rs is None or (result is None and not isinstance(rs, OptS)):
                rs = infer_sort(result)
            rdata = abstract(rs, result, ctx)
            extra['result'] = l1.lift(rs, rdata)
            out.outcome = ('return', rdata)
        clauses = [(f'{base}/post/{l}', c) for l, c in contract.ensures]
        if contract.atomic is not None:
            clauses += [(f'{base}/exit/inv/{l}', c) for l, c in contract.atomic.invariant]
            clauses += [(f'{base}/exit/guar/{l}', c) for l, c in contract.atomic.guarantee]
    else:
        out.outcome = ('raise', type(exc).__name__)
        extra['exc'] = VConst(type(exc))
        matched = False
        for cls, cls_clauses in contract.raises.items():
            if isinstance(exc, cls):
                matched = True
                clauses += [(f'{base}/raises[{cls.__name__}]/{l}', c) for l, c in cls_clauses]
        allowed = contract.raises_only
        if allowed is not None:
            if not isinstance(exc, tuple(allowed)):
                out.failed.append(f'{base}/raises_only')
        elif not matched:
            out.failed.append(f'{base}/raises_only')
    facts = l1.distinct_facts()
    sc = Scope(st1, names1, old, extra)
    for label, cl in clauses:
        out.checked += 1
        try:
            h = closed_holds(cl(sc), facts)
        except Exception as e:  # clause not evaluable on this outcome
            out.unknown.append(f'{label}: {e!r}')
            continue
        if h is False:
            out.failed.append(label)
        elif h is None:
            out.unknown.append(label)
    # frame
    if exc is None and contract.modifies is not None:
        mods = set(contract.modifies)
        for p, s in contract.params.items():
            if isinstance(s, RecS):
                for f in s.fields:
                    path = f'{p}.{f}'
                    if path in mods or any(m.startswith(path + '.') or path.startswith(m + '.') for m in mods):
                        continue
                    if pre_data[p][f] != post_data[p][f]:
                        out.failed.append(f'{base}/frame/{path}')
    return out
