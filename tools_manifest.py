#!/usr/bin/env python3
"""Regenerates MANIFEST.json from the table below (kept valid at all times)."""
import json, os
HERE = os.path.dirname(os.path.abspath(__file__))
T = 'contract-based deductive verification: sidecar contracts on the real functions, VCs generated from the AST of /repo on every run (pyvc) and discharged by z3; bounded stand-ins labelled as such'
CHECKS = {
 'C04': dict(level='proof',
   text='Yield-point invariant UidInv and the per-segment guarantee (max uid never decreases; every new key exceeds the max uid at segment start) are discharged by z3 for the real dict-backend append/copy/move/delete/snapshot, for the aliased and the non-aliased destination; this holds for every interleaving of any number of asyncio tasks.',
   note='Assumes cooperative asyncio scheduling, the model of Message construction, and arbitrary interference constrained only by the rely (= the guarantee proved for every writer; completeness of the writer set is a structural obligation). maildir UidList and crash points: not decided here.',
   ref='6 C04'),
}
CHECKS['C01'] = dict(level='other',
   text='Deductive kernel: the representation invariant of SynchronizedMessages (_update, _remove) and the stream condition of SelectedMailbox._compare against a ghost IMAP client (EXPUNGE numbers in range and in descending order, none while hidden, EXISTS = server count, FETCH numbers denote the intended uid, final client view = server view) are discharged by z3 from the real source. The session/connection glue (hide_expunged protocol, fork after every command, FETCH merging) is covered by a bounded stand-in: exhaustive two-session programs on the real server with a client model.',
   note='The preconditions of _compare (frozen views are rank maps; new uids above old ones; hidden expunges stay in view) are not yet proved from fork/add_updates; response constructors and chain/groupby are modelled; the bounded part is exhaustive only on its stated scope; maildir (thread pool) not covered by the interleaving argument.',
   ref='6 C01')
CHECKS['C02'] = dict(level='proof',
   text='The change log of the dict backend is proved a faithful record: representation invariant of _ModSequenceMapping preserved by update/expunge (helpers inlined), find_updated returns exactly the uids with a live record >= m split by kind, and every MailboxData mutator (append/copy/move/delete/update) preserves LogInv (logged uid present <=> its live record is an update) and the per-segment guarantee (every presence or flag change gets a record above the highest mod-seq at segment start) at every yield point, for aliased and non-aliased destinations.',
   note='Rely = guarantee of the same five writers (cooperative asyncio scheduling); Message construction and FlagOp.apply are used through assumed/proved-elsewhere models; the step from Agree(S,m0) to convergence through update_selected/add_updates is covered by the bounded scenario run and C01, not yet by a discharged obligation; maildir relies on full rescans (set_messages) and is not covered.',
   ref='6 C02')
CHECKS['C10'] = dict(level='other',
   text='Deductive: each operation is proved to be the reference model transition -- FlagOp.apply, PermanentFlags/SessionFlags.intersect, SessionFlags.update, SequenceSet._get_range (RFC meaning of n, *, a:b, reversed, beyond the end), SynchronizedMessages.get_uids/get_all (exactly the addressed messages with their ranks) and the dict MailboxData copy/move/delete/update postconditions with full frames. Bounded: the real server (BaseSession/ConnectionState glue, flatten as a union) is compared with an independently written reference model on all single commands and pairs of a stated alphabet and on seeded longer programs.',
   note='SequenceSet.flatten enters get_uids/get_all through a ghost denotation (not proved to be the union of _get_range); refinement composes over programs is a paper lemma; maildir is not run; APPEND flags/date only through the bounded run.',
   ref='6 C10')
CHECKS['C12'] = dict(level='proof',
   text='The real BaseSession and ConnectionState source is verified against an abstract backend in which every backend call is an effect checked at its call site: no flag change, removal or \\Recent claim reaches the selected mailbox while the selection is read-only; nothing is inserted into a read-only mailbox; add_recent only reaches read-write selections (SelectedSet.any_selected proved never to return a read-only one); do_fetch establishes set_seen => not readonly; do_close answers OK, deselects and raises nothing. All obligations discharged by z3; a bounded run of every message command inside EXAMINE on the real server is reported separately.',
   note='The backend is abstract (a backend that mutates inside get()/find() would not be seen); mailbox ids identify mailboxes; the bounded part is exhaustive only on its stated scope.',
   ref='6 C12')
CHECKS['C05'] = dict(level='other',
   text='Deductive: the four refusal branches of ConnectionState.do_command answer BAD, dispatch nothing and leave _session/_selected untouched; do_select clears first, selects exactly the requested name (read-only for EXAMINE) and leaves none selected on failure; do_close always answers OK and deselects. Bounded: IMAPConnection._run_state (AUTHENTICATE/IDLE dispatch around the gate) and the composition are checked exhaustively for all command sequences of length <= 2 over the complete command set after six state prefixes against the RFC 3501 automaton, with data dumps around every refused command.',
   note='_run_state is outside the verifier subset (loop/try nest): bounded only; do_* methods are abstract inside do_command.',
   ref='6 C05')
CHECKS['C03'] = dict(level='proof',
   text='The byte-level kernel is proved from the real source: _find_lines yields a partition of [0,len) (and terminates), find_any, _split_lines (header ++ body = all lines), get_raw (slice spanning the non-empty groups, empty when none), a lemma over these contracts (bytes(content) = data and HEADER followed by TEXT = data), _get_partial (= full[o:o+n]), dict append stores the content parsed from this literal, copy/move share the content object. A bounded run appends byte strings to the real server and fetches them back in every form of the statement; it is reported separately.',
   note='MessageHeader/MessageBody are assumed to keep the line groups they are given and LiteralString to write len(payload)+payload (covered by the bounded run only); nested MIME part ranges are bounded only; maildir (re-serialisation through the email package) is not covered; one known finding (BODYSTRUCTURE leaf size includes the header) is recorded, not repaired.',
   ref='6 C03')
CHECKS['C20'] = dict(level='other',
   text='Deductive: for FileLock.write_lock/read_lock the critical section is entered only while the lock file is held and a granted lock is released on every exit of the context manager (normal, TimeoutError, exception or cancellation out of the critical section); count bookkeeping of _AsyncioReadWriteLock._acquire_read/_release_read; the release path has no suspension. Bounded: mutual exclusion, absence of deadlock and usability after any single cancellation are checked by exhaustive schedule exploration of the real coroutines for task sets of 2..4 tasks (asyncio.Lock replaced by a stated model), FileLock on a real directory.',
   note='Exclusion under all interleavings is bounded (small task sets, <= 200000 schedules per program), not proved; asyncio.Lock is modelled (FIFO, no hand-over); O_EXCL exclusivity assumed; the threading variant is not covered.',
   ref='6 C20', technique='contract-based deductive verification (pyvc, z3) of release-on-every-exit and bookkeeping; bounded stand-in: exhaustive schedule exploration of the real coroutines')
CHECKS['C19'] = dict(level='proof',
   text='The ManageSieve dispatch loop is proved to reach FilterState.run (the only path to the script store) and UNAUTHENTICATE only with a state, AUTHENTICATE/STARTTLS only without one and for their own command, and to let no exception escape; the dict FilterSet operations are proved against the abstract (name -> bytes, active?) map with full frames, including that every refusal leaves the store unchanged, delete refuses the active name and rename keeps content and active status. Counter-models are rebuilt as real objects and replayed on CPython. A bounded comparison of the real server with a script-store model (before/after authentication, two users) is reported separately.',
   note='FilterState.run (command -> FilterSet call mapping, response rendering) and per-user isolation through config.set_cache are covered by the bounded run only; script names are opaque values.',
   ref='6 C19')
CHECKS['C17'] = dict(level='proof',
   text='Per-function facts that make \\Recent exactly-once and never stored are proved from the real source: \\Recent is never a permanent flag nor kept in a session flag set (PermanentFlags.__init__, SessionFlags.update/get/add_recent); SelectedSet.any_selected never returns a read-only selection; Message.copy never inherits a pending \\Recent; dict append never stores \\Recent and stores the recent bit it is given; dict claim_recent hands every stored-recent message to the claiming session and clears the bit in one atomic segment; BaseSession append/copy/move give add_recent only to a read-write selection and store a message recent exactly when no selection took it; select_mailbox claims only for read-write selections. A bounded run of delivery/select/examine/close histories on the real server is reported separately.',
   note='Exactly-once over whole histories is the composition of these facts (paper argument) plus the bounded run; the backend is abstract in the BaseSession contracts; atomicity of claim_recent rests on NoYieldUnderLock (C04); maildir not covered.',
   ref='6 C17')
CHECKS['C13'] = dict(level='other',
   text='Deductive: over a ghost denotation of criteria objects, SearchCriteriaSet.matches is proved to be the conjunction, OrSearchCriteria the disjunction and InverseSearchCriteria the complement of their parts, and ALL, the flag keys, NEW, SMALLER/LARGER and the sequence-set/UID-set key (with * the highest number of the right kind) are proved to test what RFC 3501 says. Bounded: every supported key and its negation plus seeded programs to depth 2 are run as SEARCH and UID SEARCH on the real server against an independent evaluator, including equivalent programs and views with hidden expunges.',
   note='SearchCriteria.of dispatch, the SearchKey parser, the frozenset of top-level keys and every key that goes through email/re (header, envelope, text, sent date) are covered by the bounded run only.',
   ref='6 C13')
CHECKS['C11'] = dict(level='other',
   text='Deductive: do_create/do_delete/do_rename answer NO for INBOX without calling the backend; BaseSession turns KeyError/ValueError of the mailbox set into MailboxNotFound/MailboxConflict and lets nothing else escape; the dict MailboxSet add/delete/get/set_subscribed are proved against the map view (raise iff present/missing, refusals change nothing, exactly one name touched, INBOX in any case). Bounded: namespace programs on the real server against a plain model, and LIST/LSUB against an independent glob matcher, including inferiors, INBOX renames, wildcard, quote, newline and non-ASCII names.',
   note='Pattern semantics (regex), ListTree.get_renames and rename_mailbox are bounded only; maildir backends are not run by this check; two RFC don\'t-care cases accept either answer.',
   ref='6 C11')
CHECKS['C14'] = dict(level='proof',
   text='The real BaseSession source is verified against an abstract backend: a tagged NO (ResponseError) is raised only while no effect has happened in the command, and when a storage call of a multi-message APPEND fails (any exception, including cancellation) exactly the uids stored so far are handed to the rollback delete; the dict move/copy postconditions (message in exactly the destination after a completed move, nothing raised between removal and insertion) and the structural NoYieldUnderLock obligation (no lock held at a suspension point, so the second acquisition of move never suspends) show that there is no instant or cancellation point at which a moved message is in neither mailbox. A bounded fault-injection run on the real server is reported separately.',
   note='Assumes that a storage call that raises has had no effect of its own, cooperative asyncio scheduling, and an abstract backend in the BaseSession contracts; maildir (os.rename + uid list, process kill) is not covered.',
   ref='6 C14')
CHECKS['C16'] = dict(level='other',
   text='Deductive: at the blocking point of dict update_selected the session is up to date with the change log (no sleep with work pending) and the listener was registered before; _AsyncioEvent.set sets every registered listener; every change-log entry is followed by the signal in the same atomic segment. Bounded: bursts of changes against idling sessions on the real server with the transport blocked at each position, DONE racing with changes, read-only idlers, a changing session without the mailbox selected, checked with a client model.',
   note='Liveness proper (finitely many scheduler steps) rests on assumed asyncio progress; IMAPConnection.idle/handle_updates are bounded only; maildir polling is not covered.',
   ref='6 C16')
CHECKS['C08'] = dict(level='other',
   text='Deductive: _BaseLayout._split, the only producer of the name parts that reach path construction in the maildir layouts, is proved to return only parts that are safe path components (not empty, not . or .., without NUL or path separator), the empty list only for INBOX, or to raise FileNotFoundError; a structural obligation shows every path construction in layout.py consumes parts from _split. Bounded (decides the statement): on the real MaildirBackend (both layouts, two users) every filesystem path touched while hostile names are used in 15 commands is audited (sys.audit) to lie strictly inside the user\'s directory, the tree outside stays byte-identical and another user\'s marker message never appears; the same names on the dict backend leave what a second user observes unchanged.',
   note='Strings are opaque in the contract (part predicates uninterpreted); the path lemma (safe components normalise inside the root) is assumed and cross-checked by the bounded run; sys.audit does not see accesses made by C extensions that bypass it; the redis backend is not run; the bounded part is exhaustive only on its stated name alphabet.',
   ref='6 C08')
CHECKS['C07'] = dict(level='other',
   text='Deductive: String.build is proved to choose the quoted form only for values without CR, LF or NUL, never for binary data, and to keep the value; LiteralString.__init__/write are proved to announce in {n} exactly the number of bytes written after the prefix, to write the string itself, to end the prefix with }CRLF and to mark binary literals with ~. Bounded (decides the statement on its scope): 58 hostile byte strings in every client-controlled position (mailbox names, keywords, ID parameters, section header names, junk commands, 19 header fields, 15 structured MIME/address forms) and 33 message shapes are echoed through every response form on the real server, and the complete byte stream of every connection is parsed by an independent strict RFC 3501 response grammar.',
   note='QuotedString.__bytes__ and AString.__bytes__ (regex based) and the ENVELOPE/BODYSTRUCTURE builders are covered by the bounded run only; 8-bit bytes inside quoted strings are counted, not rejected (the statement does not list them); two known findings (FETCH BINARY of an unknown Content-Transfer-Encoding / undecodable base64 cuts the response) are recorded, not repaired.',
   ref='6 C07')
CHECKS['C18'] = dict(level='other',
   text='Deductive: QuotedString.parse is proved to consume exactly its own bytes (the rest is the unconsumed suffix, the cached raw form is exactly the consumed bytes between quotes, no line break in the value) and LiteralString.parse to give the value of the announced length, taken from the n bytes after the header for {n+} and from the first n bytes of the continuation for {n}, with ~ as the binary marker and ParsingInterrupt only while the continuation is missing -- the two literal spellings denote the same value. Counter-models are replayed on CPython (with a search over small real inputs when the solver model of the ghost match sequence is not itself an input). Bounded: parse/serialise/parse round trips of QuotedString, LiteralString, String.build, AString, Atom, Number, SequenceSet (with RFC denotation), Flag, DateTime, Mailbox (independent modified-UTF-7 codec), FetchAttribute with delimiting suffixes; the assumed regex models against re; 9 command programs spelled atom/quoted/{n}/{n+} x 3 letter cases on fresh identical servers with identical responses and stored data required.',
   note='The regexes enter the proofs through explicit assumed models (compared with re exhaustively up to length 6); value correctness of the unescaping loop, modified UTF-7, SequenceSet/Flag/DateTime parsers and the command-level equivalence are bounded only; "legal extra spacing" is not exercised (the RFC 3501 grammar has none).',
   ref='6 C18')
NOT_YET = {}
def main():
    props = [json.loads(l) for l in open(os.path.join(HERE, 'properties.jsonl'))]
    checks = []
    na = []
    for p in props:
        pid = p['id']
        if pid in CHECKS:
            c = CHECKS[pid]
            checks.append(dict(property_id=pid, quick_cmd=f'./check {pid} --tier quick',
                thorough_cmd=f'./check {pid} --tier thorough', evidence_file=f'evidence/{pid}.json',
                replay_cmd_template=f'./check {pid} --replay {{path}}', engine='pyvc',
                level_claimed=dict(category=c['level'], text=c['text'], design_ref=c['ref']),
                level_note=c['note'], technique=c.get('technique', T)))
        else:
            na.append(dict(property_id=pid, reason=NOT_YET.get(pid, 'no check registered in this revision: contracts for this property are not written yet (see DESIGN.md section 6 for the intended reduction)')))
    m = dict(version=1, setup_cmd='./setup.sh',
        hooks=dict(guard='PYMAP_VERIF', enable='no hooks: contracts are sidecar files under /verif/contracts, the real source is read from /repo on every run', baseline_off_cmd='cd /repo && /venv/bin/python -m pytest -ra -q -p no:cacheprovider --timeout=900 --continue-on-collection-errors', source_commits=[], add_only=True),
        engines=[dict(name='pyvc', path='pyvc/', serves_properties=sorted(CHECKS), kind_free_text='AST -> z3 verification-condition generator over the real pymap source with sidecar contracts; loop invariants, modular calls, yield-point rely/guarantee; bounded stand-in and CPython replay through pyvc/bridge.py')],
        checks=checks, not_applicable=na,
        notes='See DESIGN.md. exit 0 held / 1 VIOLATION / 2 undecided / 3 crash.')
    json.dump(m, open(os.path.join(HERE, 'MANIFEST.json'), 'w'), indent=1)
    import jsonschema
    jsonschema.validate(m, json.load(open('/root/.vp/MANIFEST.schema.json')))
    print('MANIFEST ok:', len(checks), 'checks,', len(na), 'not_applicable')
main()
