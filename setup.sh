#!/bin/bash
# Builds /verif/.venv offline: python 3.12 (from /venv) + z3-solver, cvc5, crosshair-tool, deal,
# icontract, hypothesis, jsonschema from the local wheelhouse, plus a .pth that exposes /venv's
# site-packages (pymap's own dependencies and the editable install of /repo).
set -e
cd "$(dirname "$0")"
V=.venv
if [ -x "$V/bin/python" ] && "$V/bin/python" -c "import z3, jsonschema, pymap" >/dev/null 2>&1; then
  exit 0
fi
rm -rf "$V"
/venv/bin/python -m venv "$V"
PIP_NO_INDEX=1 "$V/bin/pip" install -q --no-index --find-links /opt/veriftools/wheels \
   z3-solver cvc5 crosshair-tool icontract deal hypothesis jsonschema >/dev/null
SP=$("$V/bin/python" -c "import sysconfig; print(sysconfig.get_paths()['purelib'])")
echo "import site; site.addsitedir('/venv/lib/python3.12/site-packages')" > "$SP/zz_repo.pth"
"$V/bin/python" -c "import z3, jsonschema, pymap; print('setup ok', z3.get_version_string())"
