"""C14 -- no message is lost or half-applied when a command fails midway.

Deductive:
  BaseSession.* (abstract backend, C14 policy)   a ResponseError (tagged NO) is raised only while no effect has happened
                          yet in the command; append_messages: when a storage call fails (any exception, incl.
                          cancellation) the uids handed to the rollback delete() are exactly the uids stored so far
                          (multi-message APPEND is all-or-nothing); nothing but ResponseError / the storage failure escapes
  dict MailboxData.move / copy (contracts of C10)   a completed move leaves the message in exactly the destination, a
                          missing uid changes nothing, and the methods raise nothing -- so nothing can fail between the
                          removal from the source and the insertion into the destination
  NoYieldUnderLock (structural, C04)   no lock of the dict backend is held at a suspension point, hence the second lock
                          acquisition of move never suspends: there is no instant, and no cancellation point, at which
                          the message is in neither mailbox
Bounded (real server): every storage call of MOVE/COPY/multi-APPEND/EXPUNGE fails in turn (before or after its work), and
the connection is dropped / cancelled after 0..7 (thorough 0..15) event-loop turns, with a second session polling.
"""
from pyvc.prop import Property, Bounded, Structural
from . import session as SES, C10 as C10M, C04 as C04M
from harness.e2e_faults import bounded_faults

REG = dict(SES.REG)
REG.update({k: v for k, v in C10M.REG.items() if k not in REG})

PROPERTY = Property(
    'C14', 'No message is lost or half-applied when a command fails midway',
    contracts=SES.make('C14') + [C10M.move, C10M.copy], registry=REG,
    structural=[Structural('NoYieldUnderLock', C04M.no_yield_under_lock)],
    bounded=[Bounded('fault injection at every storage call / connection drop (real server, dict backend)',
                     'commands {MOVE 1:2 Dest, UID MOVE 103:104 Dest, MOVE 1 INBOX, COPY 1:2 Dest, APPEND of 3 and of 2 '
                     'messages, EXPUNGE, MOVE into a read-only mailbox, MOVE/COPY to a missing / read-only mailbox}: the 1st, '
                     '2nd, 3rd call of MailboxData.append/copy/move/delete raises before its work (and, except append, after '
                     'it); EOF or cancellation of the connection task after 0..7 loop turns; a second session polls; messages '
                     'tracked by content',
                     bounded_faults('C14'), decisive=False)],
    level='proof', design_ref='6 C14',
    trusted_base=['a storage call that raises has had no effect of its own (assumed of the backend)',
                  'cooperative asyncio scheduling; maildir (os.rename then uid list write, process kill) not covered',
                  'the backend is abstract in the BaseSession contracts'],
)
