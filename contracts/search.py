"""Contracts of pymap/search.py for C13: the boolean structure of search programs and the pure keys.

Criteria objects are opaque; `den(c, seq, msg)` is the ghost denotation "criterion c matches message msg at
sequence number seq", and every combinator is proved to denote the RFC connective over the denotations of its parts:
  SearchCriteriaSet.matches   == conjunction over all_criteria        (several keys are a conjunction)
  OrSearchCriteria.matches    == disjunction
  InverseSearchCriteria.matches == complement
  AllSearchCriteria, HasFlagSearchCriteria, NewSearchCriteria, SizeSearchCriteria, SequenceSetSearchCriteria
"""
import z3

from pyvc.values import *
from pyvc.values import _t, _b
from pyvc.engine import Contract, Loop
from .dictmbx import Msg, Flag, FLAG_RECENT, FLAG_SEEN
from . import selected as SELM

F = 'pymap/search.py'
CritR = RefS('Criteria')
LoadedR = RefS('LoadedMsg', size=INT)
SessR = RefS('SessionFlagsRef')
ParamsR = RefS('SearchParams', session_flags=SessR, max_seq=INT, max_uid=INT)
MsgS = RefS('Msg')          # same z3 sort as the dict message; attributes used here: uid
MsgS.attrs = Msg.attrs

DEN = z3.Function('den', CritR.z3(), z3.IntSort(), Msg.z3(), z3.BoolSort())
FLAGS_OF = z3.Function('flags_of', Msg.z3(), SessR.z3(), z3.ArraySort(Flag.z3(), z3.BoolSort()))


def den(c, seq, msg):
    return VBool(DEN(_t(c), _t(seq), _t(msg)))


def _crit_matches(ex, frame, e, base):
    args, kw = ex.eval_args(e, frame)
    return den(base, args[0], args[1])


def _get_flags(ex, frame, e, base):
    args, kw = ex.eval_args(e, frame)
    r = VSet(FLAGS_OF(base.t, args[0].t), Flag)
    r.frozen = True
    return r


def _get_size(ex, frame, e, base):
    return ex.st.heap_get(base, 'size')


REG = {('Criteria', 'matches'): _crit_matches, ('Msg', 'get_flags'): _get_flags, ('LoadedMsg', 'get_size'): _get_size}
P3 = dict(msg_seq=INT, msg=Msg, loaded_msg=LoadedR)

SetRec = RecS('SearchCriteriaSet', pyclass=(F, 'SearchCriteriaSet'), all_criteria=ListS(CritR))
set_matches = Contract(
    'C13', F, 'SearchCriteriaSet.matches', params=dict(self=SetRec, **P3),
    ensures=[('several_keys_are_a_conjunction', lambda s: s.result == forall(lambda i: implies(
        (i >= 0) & (i < s.self.all_criteria.len), den(s.self.all_criteria[i], s.msg_seq, s.msg))))],
    modifies=[], raises_only=(), pure=True, returns=BOOL)

OrRec = RecS('OrSearchCriteria', pyclass=(F, 'OrSearchCriteria'), left=CritR, right=CritR)
or_matches = Contract(
    'C13', F, 'OrSearchCriteria.matches', params=dict(self=OrRec, **P3),
    ensures=[('or_is_a_disjunction', lambda s: s.result == (den(s.self.left, s.msg_seq, s.msg) |
                                                            den(s.self.right, s.msg_seq, s.msg)))],
    modifies=[], raises_only=(), pure=True, returns=BOOL)

InvRec = RecS('InverseSearchCriteria', pyclass=(F, 'InverseSearchCriteria'), key=CritR)
not_matches = Contract(
    'C13', F, 'InverseSearchCriteria.matches', params=dict(self=InvRec, **P3),
    ensures=[('not_is_the_complement', lambda s: s.result == ~den(s.self.key, s.msg_seq, s.msg))],
    modifies=[], raises_only=(), pure=True, returns=BOOL)

AllRec = RecS('AllSearchCriteria', pyclass=(F, 'AllSearchCriteria'))
all_matches = Contract('C13', F, 'AllSearchCriteria.matches', params=dict(self=AllRec, **P3),
                       ensures=[('all_matches_everything', lambda s: s.result)],
                       modifies=[], raises_only=(), pure=True, returns=BOOL)

FlagRec = RecS('HasFlagSearchCriteria', pyclass=(F, 'HasFlagSearchCriteria'), flag=Flag, expected=BOOL, params=ParamsR)
flag_matches = Contract(
    'C13', F, 'HasFlagSearchCriteria.matches', params=dict(self=FlagRec, **P3),
    ensures=[('flag_key_tests_the_flag', lambda s: s.result == (VBool(z3.Select(FLAGS_OF(
        s.msg.t, s.self.params.session_flags.t), s.self.flag.t)) == s.self.expected))],
    modifies=[], raises_only=(), pure=True, returns=BOOL)

NewRec = RecS('NewSearchCriteria', pyclass=(F, 'NewSearchCriteria'), params=ParamsR)
new_matches = Contract(
    'C13', F, 'NewSearchCriteria.matches', params=dict(self=NewRec, **P3),
    ensures=[('new_is_recent_and_unseen', lambda s: s.result == (
        VBool(z3.Select(FLAGS_OF(s.msg.t, s.self.params.session_flags.t), FLAG_RECENT.t)) &
        ~VBool(z3.Select(FLAGS_OF(s.msg.t, s.self.params.session_flags.t), FLAG_SEEN.t))))],
    globals={'Recent': FLAG_RECENT, 'Seen': FLAG_SEEN}, modifies=[], raises_only=(), pure=True, returns=BOOL)

OpS = RefS('Op')
OP_LT = VRef(z3.Const('op.<', OpS.z3()), OpS)
OP_GT = VRef(z3.Const('op.>', OpS.z3()), OpS)
SizeRec = RecS('SizeSearchCriteria', pyclass=(F, 'SizeSearchCriteria'), size=INT, op=OpS)


class _StrConstHook:
    pass


size_matches = Contract(
    'C13', F, 'SizeSearchCriteria.matches', params=dict(self=SizeRec, **P3),
    requires=[('op_is_one_of_the_two', lambda s: ((s.self.op == OP_LT) | (s.self.op == OP_GT)) &
               VBool(OP_LT.t != OP_GT.t))],
    ensures=[('smaller_larger_compare_rfc822_size', lambda s: s.result == ite(
        s.self.op == OP_LT, s.loaded_msg.size < s.self.size, s.loaded_msg.size > s.self.size))],
    modifies=[], raises_only=(), pure=True, returns=BOOL)
size_matches.str_consts = {'<': OP_LT, '>': OP_GT}

SeqRec = RecS('SequenceSetSearchCriteria', pyclass=(F, 'SequenceSetSearchCriteria'), seq_set=SELM.SeqSetS,
              flat=SetS(INT), params=ParamsR)
seq_init = Contract(
    'C13', F, 'SequenceSetSearchCriteria.__init__', params=dict(self=SeqRec, seq_set=SELM.SeqSetS, params=ParamsR),
    ensures=[('star_is_the_highest_number_of_the_right_kind', lambda s: forall(lambda x: s.self.flat.has(x) == VBool(
        SELM.den(s.seq_set._rec.rid)(z3.If(s.seq_set.uid.t, s.params.max_uid.t, s.params.max_seq.t), _t(x))))),
        ('keeps_the_set', lambda s: VBool(s.self.seq_set._rec.rid == s.seq_set._rec.rid))],
    calls={'super().__init__': lambda ex, frame, e: VNone()},
    raises_only=(), returns=NoneS())
seq_matches = Contract(
    'C13', F, 'SequenceSetSearchCriteria.matches', params=dict(self=SeqRec, **P3),
    ensures=[('uid_sets_test_the_uid_and_sequence_sets_the_sequence_number', lambda s: s.result == ite(
        s.self.seq_set.uid, s.self.flat.has(s.msg.uid), s.self.flat.has(s.msg_seq)))],
    modifies=[], raises_only=(), pure=True, returns=BOOL)

REG[('SequenceSet', 'flatten')] = SELM._flatten_model
CONTRACTS = [set_matches, or_matches, not_matches, all_matches, flag_matches, new_matches, size_matches, seq_init,
             seq_matches]


# ---- SearchKey.__eq__ / __ne__ (pymap/parsing/specials/searchkey.py): equality of keys is equality of their content
#
# SearchCommand keeps the top-level keys in a frozenset: two keys that compare equal collapse into one, and the keys of a
# SEARCH are ANDed -- so a key may only ever equal a key with the same name, the same argument and the same NOT polarity.
# hash() is an arbitrary function here (equal arguments give equal hashes, nothing more): equality decided by comparing
# hashes is refuted by any two arguments that collide (in CPython: the integers n and n + 2**61 - 1).
FK = 'pymap/parsing/specials/searchkey.py'
KeyBytes = RefS('KeyBytes')
FilterR = RefS('Filter')
SK = RecS('SearchKey', pyclass=(FK, 'SearchKey'), key=KeyBytes, filter=FilterR, inverse=BOOL)
_SKT = TupleS(KeyBytes, FilterR, BOOL)
HASH = z3.Function('hash', _SKT.z3(), z3.IntSort())


def _sk_hash(ex, frame, e, base=None):
    """hash(x) for a SearchKey x: its __hash__ is hash((value, filter, inverse)) (3 lines, read off the source);
    for a tuple: the arbitrary function"""
    v = ex.eval(e.args[0], frame)
    if isinstance(v, VRec) and v.sort.name == 'SearchKey':
        f = ex.st.store[v.rid]
        v = VTuple([f['key'], f['filter'], f['inverse']], _SKT)
    if isinstance(v, VTuple):
        return VInt(HASH(v.term()))
    raise Unsupported('hash of something else')


from pyvc.engine import Unsupported  # noqa: E402


def _same(s):
    a, b = s.self, s.other
    return (a.key == b.key) & (a.filter == b.filter) & (a.inverse == b.inverse)


sk_eq = Contract('C13', FK, 'SearchKey.__eq__', params=dict(self=SK, other=SK), returns=BOOL, modifies=[], raises_only=(),
                 calls={'hash': _sk_hash}, inline={'SearchKey.value'},
                 ensures=[('equal_exactly_when_name_argument_and_polarity_are_the_same', lambda s: s.result == _same(s))])
sk_ne = Contract('C13', FK, 'SearchKey.__ne__', params=dict(self=SK, other=SK), returns=BOOL, modifies=[], raises_only=(),
                 calls={'hash': _sk_hash}, inline={'SearchKey.value'},
                 ensures=[('unequal_exactly_when_one_of_them_differs', lambda s: s.result == ~_same(s))])
sk_hash = Contract('C13', FK, 'SearchKey.__hash__', params=dict(self=SK), returns=INT, modifies=[], raises_only=(),
                   calls={'hash': _sk_hash}, inline={'SearchKey.value'},
                   ensures=[('consistent_with_equality', lambda s: VBool(_t(s.result) == HASH(
                       _SKT.pack([unview(s.self.key), unview(s.self.filter), unview(s.self.inverse)]))))])
from pyvc.engine import unview  # noqa: E402
from pyvc.values import _t  # noqa: E402
CONTRACTS += [sk_eq, sk_ne, sk_hash]
