"""Deductive kernel for C06 (every input is answered): the modified-UTF-7 codec cannot spin and cannot fail in a way the
command parser does not turn into BAD.

  modutf7_decode  terminates on every byte string (variant end - pos strictly decreases in both branches of the loop --
                  the pinned revision's decoder did not advance on an unterminated '&' shift) and raises nothing but
                  ValueError (which Mailbox.parse turns into NotParseable -> BAD)
  modutf7_encode  total; every byte it produces is printable US-ASCII (so a mailbox name can always be sent as an astring
                  or quoted string: C07), given that the base64 helper yields base64 alphabet bytes
The base64 / UTF-16 helpers (_modified_b64decode/_modified_b64encode: binascii + codecs) are assumed: decode raises only
ValueError subclasses (binascii.Error, UnicodeDecodeError) or returns a str; encode returns bytes of the modified base64
alphabet."""
import z3

from pyvc.values import *
from pyvc.values import _t, _b
from pyvc.engine import Contract, Loop, PyRaise, Unsupported
from .mime import BYTES

F = 'pymap/parsing/modutf7.py'
StrS = RefS('PyStr')
CODEPOINTS = ListS(INT)


def _b64decode(ex, frame, e, base=None):
    ex.eval_args(e, frame)
    if ex.choose(2) == 1:
        raise PyRaise(ValueError)
    return StrS.fresh('decoded')


def _chr(ex, frame, e, base=None):
    ex.eval_args(e, frame)
    return StrS.fresh('chr')


def _join(ex, frame, e, base=None):
    ex.eval_args(e, frame)
    return StrS.fresh('joined')


decode = Contract(
    'C06', F, 'modutf7_decode', params=dict(data=BYTES),
    requires=[('bytes_are_bytes', lambda s: forall(lambda i: implies((i >= 0) & (i < s.data.len), (s.data[i] >= 0) & (s.data[i] <= 255))))],
    calls={'_modified_b64decode': _b64decode, 'chr': _chr, "''.join": _join},
    loops={0: Loop(invariant=[('position_in_range', lambda s: (s.pos >= 0) & (s.end == s.data.len))],
                   decreases=lambda s: s.end - s.pos)},
    raises={ValueError: []}, raises_only=(ValueError,), modifies=[], returns=StrS, typemap={'str': StrS})
decode.str_consts = {'&': VRef(z3.Const("str.'&'", StrS.z3()), StrS)}

B64_ALPHABET_OK = lambda c: z3.Or(z3.And(c >= 65, c <= 90), z3.And(c >= 97, c <= 122), z3.And(c >= 48, c <= 57), c == 43, c == 44)


def _b64encode(ex, frame, e, base=None):
    ex.eval_args(e, frame)
    r = BYTES.fresh('b64')
    i = z3.Int(fresh_name('i'))
    ex.assume(r.n >= 0)
    ex.assume(z3.ForAll([i], z3.Implies(z3.And(i >= 0, i < r.n), B64_ALPHABET_OK(z3.Select(r.arr, i)))))
    return r


def printable(v):
    return forall(lambda i: implies((i >= 0) & (i < v.len), (v[i] >= 0x20) & (v[i] <= 0x7e)))


encode = Contract(
    'C06', F, 'modutf7_encode', params=dict(data=CODEPOINTS),
    calls={'_modified_b64encode': _b64encode, 'ord': lambda ex, frame, e, base=None: ex.eval_args(e, frame)[0][0], "''.join": _join},
    loops={0: Loop(invariant=[('everything_produced_so_far_is_printable_ascii', lambda s: printable(s.ret))])},
    ensures=[('every_byte_is_printable_ascii', lambda s: printable(s.result))],
    raises_only=(), modifies=[], returns=BYTES, typemap={'str': INT},
    note='the str argument is modelled as its list of code points (ord is the identity on them)')
CONTRACTS = [decode, encode]


# ---- Commands.parse: whatever a command parser raises (except the continuation interrupt) becomes an InvalidCommand
FC = 'pymap/parsing/commands.py'
from pymap.parsing.exceptions import NotParseable  # noqa: E402
from pymap.parsing.state import ParsingInterrupt  # noqa: E402

ParamsS = RefS('Params')
CmdTypeS = RefS('CommandType', compound=BOOL)
CommandsS = RefS('Commands', commands=RefS('CommandMap'))
BufS = BYTES


def _raising(*classes, result):
    def model(ex, frame, e, base=None):
        ex.eval_args(e, frame)
        k = ex.choose(len(classes) + 1)
        if k > 0:
            ex.st.ghost['raised'] = VConst(classes[k - 1].__name__)
            raise PyRaise(classes[k - 1])
        return result(ex)
    return model


def _tuple2(sort_a, name):
    return lambda ex: VTuple([sort_a.fresh(name), BufS.fresh('rest')])


class _AnyValueError(ValueError):
    pass


commands_parse = Contract(
    'C06', FC, 'Commands.parse', params=dict(self=CommandsS, buf=BufS, params=ParamsS),
    calls={'Tag.parse': _raising(NotParseable, result=_tuple2(RefS('Tag', value=RefS('Bytes')), 'tag')),
           'Space.parse': _raising(NotParseable, result=_tuple2(RefS('Space'), 'sp')),
           'Atom.parse': _raising(NotParseable, result=_tuple2(RefS('Atom', value=RefS('Bytes')), 'atom')),
           'params.copy': lambda ex, frame, e, base=None: ParamsS.fresh('params'),
           'atom.value.upper': lambda ex, frame, e, base=None: RefS('Bytes').fresh('upper'),
           "b' '.join": lambda ex, frame, e, base=None: RefS('Bytes').fresh('command'),
           'self.commands.get': lambda ex, frame, e, base=None: (
               OptS(CmdTypeS).none() if ex.choose(2) == 1 else OptS(CmdTypeS).some(CmdTypeS.fresh('cmd_type'))),
           'cmd_type.parse': _raising(NotParseable, ValueError, UnicodeDecodeError, LookupError, KeyError, RecursionError, ParsingInterrupt,
                                      result=_tuple2(RefS('Command'), 'cmd')),
           'InvalidCommand': lambda ex, frame, e, base=None: (ex.eval_args(e, frame), RefS('Command').fresh('invalid'))[1],
           'NotParseable': lambda ex, frame, e, base=None: RefS('Exc').fresh('exc')},
    loops={0: Loop()},
    raises={ParsingInterrupt: []}, raises_only=(ParsingInterrupt,), modifies=[], typemap={'bytes': RefS('Bytes')},
    note='every exception class a command parser was seen to raise (NotParseable, ValueError incl. UnicodeDecodeError and the '
         'int() digit limit, LookupError for unknown charsets, RecursionError) is offered at the call; only the continuation '
         'interrupt may leave Commands.parse')
CONTRACTS = [decode, encode, commands_parse]
