"""C09 -- authentication and authorization are sound (see contracts/auth.py for the contract list)."""
from pyvc.prop import Property, Bounded
from . import auth as A
from harness.e2e_auth import bounded_auth

PROPERTY = Property(
    'C09', 'Authentication and authorization are sound',
    contracts=A.CONTRACTS, registry=A.REG,
    bounded=[Bounded('credential attempts and attempt sequences on the real IMAP and ManageSieve servers (dict backend, real hashing)',
                     '71 attempts: LOGIN with 23 (user, password) pairs (wrong, empty, prefix, trailing space, other case, other user\'s '
                     'password, 30000 bytes, NUL, non-ASCII, unknown/empty/oversized user); AUTHENTICATE PLAIN for authzid x authcid x '
                     '{right, wrong secret} over {"", testuser, other, admin, nobody}; 15 malformed PLAIN responses (*, empty, bad '
                     'base64, 0/1/3 NULs, truncated, 60000 bytes, invalid UTF-8, leading/trailing space); AUTHENTICATE LOGIN incl. '
                     'cancel; unknown mechanism; initial response; singly, in failed->good / good->any pairs and seeded triples; '
                     'configurations: TLS not required, TLS required + remote peer (LOGINDISABLED), TLS required + local peer; '
                     'ManageSieve: PLAIN as initial data and as continuation.  Identity observed through per-user marker mailboxes/scripts',
                     bounded_auth('C09'), decisive=True)],
    level='other', design_ref='6 C09',
    explanation='deductive: the only path that sets a session goes through authenticate -> authorize(authzid) -> new_session '
                'of the authorized identity; failures change nothing; LOGIN is refused while LOGINDISABLED is advertised; the dict '
                'and maildir logins return only after the password check succeeded for a stored user and grant a different '
                'identity only to the privileged roles (z3); the SASL exchange (pysasl, base64, cancel) and the composition are '
                'decided on the stated scope by the bounded run against a plain credential model',
    trusted_base=['LoginInterface / pysasl are abstract in the ConnectionState contracts (their calls are effects checked at the call site)',
                  'PlainCredentials(authcid, secret) has authzid = authcid; credentials.verify calls compare_secret (pysasl)',
                  'the roles set object passed to Identity(...) is the one later updated with user.roles (aliasing) -- bounded only',
                  'token credentials (macaroons) are not covered'],
)
