"""C09 -- authentication and authorization are sound (see contracts/auth.py for the contract list)."""
import ast

from pyvc.engine import load_module_ast, Unsupported
from pyvc.prop import Property, Bounded, Structural
from . import auth as A, runstate as RS
from harness.e2e_auth import bounded_auth


def session_only_for_an_existing_user():
    """Identity.new_session (dict and maildir) looks the user record up -- unconditionally, on every path -- before the
    Session is constructed, and a missing record leaves through UserNotFound: a session is never opened for an account
    that does not exist (any more) at that moment, whatever happened since authenticate()."""
    out = []
    for relfile, lookup in ((A.FD, 'self.get'), (A.FM, 'users_file.get')):
        src, tree = load_module_ast(relfile)
        fn = None
        for cls in ast.walk(tree):
            if isinstance(cls, ast.ClassDef) and cls.name == 'Identity':
                for f in cls.body:
                    if isinstance(f, ast.AsyncFunctionDef) and f.name == 'new_session':
                        fn = f
        if fn is None:
            raise Unsupported(f'Identity.new_session not found in {relfile}')
        name = f"{relfile[:-3].replace('/', '.').replace('.__init__', '')}.Identity.new_session"

        def first_line(pred, node=fn):
            lines = [n.lineno for n in ast.walk(node) if pred(n)]
            return min(lines) if lines else None
        look = first_line(lambda n: isinstance(n, ast.Call) and ast.unparse(n.func) == lookup)
        sess = first_line(lambda n: isinstance(n, ast.Call) and ast.unparse(n.func) == 'Session')
        ok = look is not None and sess is not None and look < sess
        # the lookup must not sit under an if / loop (it has to happen on every path); try/with are fine
        if ok:
            for n in ast.walk(fn):
                if isinstance(n, (ast.If, ast.For, ast.While, ast.AsyncFor)) and any(
                        isinstance(c, ast.Call) and ast.unparse(c.func) == lookup for c in ast.walk(n)):
                    ok = False
        out.append((f'{name}/the_user_record_is_looked_up_on_every_path_before_the_session_is_created', ok,
                    f'{name}: lookup {lookup}() at line {look}, Session(...) at line {sess}'))
        if relfile == A.FM:
            raises = any(isinstance(n, ast.Raise) and n.exc is not None and 'UserNotFound' in ast.unparse(n.exc) for n in ast.walk(fn))
            out.append((f'{name}/a_missing_record_leaves_through_UserNotFound', raises, f'{name}: no raise UserNotFound'))
    return out

PROPERTY = Property(
    'C09', 'Authentication and authorization are sound',
    contracts=A.CONTRACTS + RS.CONTRACTS_AUTH, registry=A.REG,
    structural=[Structural('session_only_for_an_existing_user', session_only_for_an_existing_user)],
    bounded=[Bounded('credential attempts and attempt sequences on the real IMAP and ManageSieve servers (dict backend, real hashing)',
                     '71 attempts: LOGIN with 23 (user, password) pairs (wrong, empty, prefix, trailing space, other case, other user\'s '
                     'password, 30000 bytes, NUL, non-ASCII, unknown/empty/oversized user); AUTHENTICATE PLAIN for authzid x authcid x '
                     '{right, wrong secret} over {"", testuser, other, admin, nobody}; 15 malformed PLAIN responses (*, empty, bad '
                     'base64, 0/1/3 NULs, truncated, 60000 bytes, invalid UTF-8, leading/trailing space); AUTHENTICATE LOGIN incl. '
                     'cancel; unknown mechanism; initial response; singly, in failed->good / good->any pairs and seeded triples; '
                     'configurations: TLS not required, TLS required + remote peer (LOGINDISABLED), TLS required + local peer; '
                     'ManageSieve: PLAIN as initial data and as continuation.  Identity observed through per-user marker mailboxes/scripts; '
                     'maildir backend: 5 histories of a user\'s stored secret (replaced, removed with the record kept, user deleted '
                     'and created again) with LOGINs of the old, new, empty and placeholder passwords after each change',
                     bounded_auth('C09'), decisive=True)],
    level='other', design_ref='6 C09',
    explanation='deductive: the only path that sets a session goes through authenticate -> authorize(authzid) -> new_session '
                'of the authorized identity; failures change nothing; LOGIN is refused while LOGINDISABLED is advertised; the dict '
                'and maildir logins return only after the password check succeeded for a stored user and grant a different '
                'identity only to the privileged roles (z3); the SASL exchange (pysasl, base64, cancel) and the composition are '
                'decided on the stated scope by the bounded run against a plain credential model',
    trusted_base=['LoginInterface / pysasl are abstract in the ConnectionState contracts (their calls are effects checked at the call site)',
                  'PlainCredentials(authcid, secret) has authzid = authcid; credentials.verify calls compare_secret (pysasl)',
                  'the roles set object passed to Identity(...) is the one later updated with user.roles (aliasing) -- bounded only',
                  'token credentials (macaroons) are not covered'],
)
