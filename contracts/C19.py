"""C19 -- ManageSieve: no script access before login; the script store is a map.

Deductive:
  ManageSieveConnection.run     the dispatch loop: FilterState.run (the only path to the script store) and
                                UNAUTHENTICATE are reached only with a state (after authentication); AUTHENTICATE and
                                STARTTLS handlers only without one and only for their own command; no exception escapes
                                the loop (every handler failure is answered NO)
  dict FilterSet.put/get/delete/rename/set_active/clear_active/get_active/get_all   against the abstract
                                (name -> bytes, active?) map with full frames: invariant active in dom or None; delete
                                refuses the active name; rename keeps content and active status; every refusal
                                (KeyError / ValueError) leaves the store unchanged
Bounded (real ManageSieveServer + dict backend): every script command before authentication is NO and changes no store;
all single commands and pairs after authentication agree with the model (conditions, GETSCRIPT bytes, LISTSCRIPTS names
and ACTIVE mark, backend store); a second user's store is untouched; two users one after the other on one connection;
several sessions of one user see one store; the maildir backend's single-script store is held to the same statement
(wire-only, 7 programs; one known finding: its only script is always ACTIVE and can be deleted).
"""
from pyvc.prop import Property, Bounded
from . import sieve as S
from harness.e2e_sieve import bounded_sieve

FACTORIES = {'ScriptName': lambda name, attrs, ctx: 'name:' + name,
             'ScriptBytes': lambda name, attrs, ctx: b'script:' + name.encode()}

PROPERTY = Property(
    'C19', 'ManageSieve: no script access before login; script store is a map',
    contracts=S.CONTRACTS, registry=S.REG, factories=FACTORIES,
    bounded=[Bounded('ManageSieve command programs vs. the script-store model (real server)',
                     '35 script commands (PUT/GET/SETACTIVE/DELETE over names a, b, café, a quoted name and the empty '
                     'name, LISTSCRIPTS, 5 RENAMEs incl. onto an existing and the same name, CHECKSCRIPT, HAVESPACE, '
                     'missing names): each before authentication; each and all pairs after authentication; each after '
                     'user other worked and unauthenticated on the same connection; thorough adds 6000 seeded programs '
                     'of length 3-5 and relogin pairs; several sessions of one user (two open from the start while the '
                     'store is empty, a third opened at the end, re-authentication on one connection) for a fresh user and '
                     'for the demo user after emptying the store; 7 programs on the maildir backend (single-script store: '
                     'put/get incl. zero bytes, another name, delete of the active script), wire-only',
                     bounded_sieve('C19'), decisive=False)],
    level='proof', design_ref='6 C19',
    trusted_base=['FilterState.run maps commands onto FilterSet calls (bounded only)',
                  'per-user isolation rests on config.set_cache[identity] (bounded only)',
                  'script names are opaque values (str equality)'],
)
