"""Contracts for C09 (authentication and authorization are sound).

ConnectionState (pymap/imap/state.py), against an abstract LoginInterface whose calls are effects checked at their call
sites:
  _login           the session handed back is the one entered from new_session() of the identity that authorize() returned
                   for (the identity authenticate(creds) returned, creds.authzid); nothing else produces a session;
                   any failure propagates and changes nothing
  do_authenticate  _session is assigned only the result of _login(creds) for the credentials given; without credentials it
                   answers NO; whenever it does not answer OK (or raises) _session and the capability list are unchanged
  do_login         while LOGINDISABLED is advertised it raises NotSupportedError before anything is called; otherwise the
                   credentials are exactly PlainCredentials(userid, password) of this command (authzid = authcid)
dict backend (pymap/backend/dict/__init__.py):
  Login.authenticate   returns only if check_password(user, credentials) was true for the stored user of credentials.authcid
                       (or a password-less stand-in for an unknown user), and the identity carries that authcid
  Login.authorize      raises AuthorizationFailure unless authzid == authenticated.name or 'admin' in authenticated.roles;
                       the identity returned is authzid with the authenticated roles
  (maildir Login.authorize: the same with {'sudo','admin'})
pymap/user.py:
  UserMetadata.compare_secret   False whenever no password is stored
"""
import z3

from pyvc.values import *
from pyvc.values import _t, _b
from pyvc.engine import Contract, Loop, PyRaise, Unsupported
from . import state as S

from pymap.exceptions import InvalidAuth, AuthorizationFailure, NotSupportedError, UserNotFound, ResponseError  # noqa

F = S.F
FD = 'pymap/backend/dict/__init__.py'
FM = 'pymap/backend/maildir/__init__.py'
FU = 'pymap/user.py'

StrS = RefS('Str')
CredsS = RefS('Creds', authcid=StrS, authzid=StrS, is_token=BOOL)
RoleS = StrS      # role names are strings
IdentS = RefS('Ident')
IdentS.attrs['name'] = StrS
SessR = S.SessR
ADMIN = VRef(z3.Const("str.'admin'", StrS.z3()), StrS)
SUDO = VRef(z3.Const("str.'sudo'", StrS.z3()), StrS)


def _g(ex, k, default=None):
    return ex.st.ghost.get(k, default)


# ---- abstract LoginInterface (effects)

def _authenticate(ex, frame, e, base=None):
    args, kw = ex.eval_args(e, frame)
    ex.st.events.append('authenticate')
    ex.st.ghost['authenticate.creds'] = args[0]
    if ex.choose(2) == 1:
        raise PyRaise(InvalidAuth)
    a = IdentS.fresh('authenticated')
    ex.st.ghost['authenticated'] = a
    return a


def _authorize(ex, frame, e, base=None):
    args, kw = ex.eval_args(e, frame)
    name = ex.c.name
    ex.st.events.append('authorize')
    got = _g(ex, 'authenticated')
    ex.oblige(f'{name}/call:authorize/for_the_identity_that_was_just_authenticated',
              z3.BoolVal(got is not None) if got is None else (args[0].t == got.t))
    creds = _g(ex, 'authenticate.creds')
    ex.oblige(f'{name}/call:authorize/with_the_authzid_of_the_same_credentials',
              z3.BoolVal(False) if creds is None else (args[1].t == ex.st.heap_get(creds, 'authzid').t))
    if ex.choose(2) == 1:
        raise PyRaise(AuthorizationFailure)
    b = IdentS.fresh('authorized')
    ex.st.ghost['authorized'] = b
    return b


def _new_session(ex, frame, e, base=None):
    name = ex.c.name
    who = ex.eval(e.func.value, frame)
    ex.st.events.append('new_session')
    az = _g(ex, 'authorized')
    ex.oblige(f'{name}/call:new_session/of_the_authorized_identity',
              z3.BoolVal(False) if az is None else (who.t == az.t))
    cm = RefS('SessionCM').fresh('cm')
    ex.st.ghost['cm'] = cm
    return cm


def _enter(ex, frame, e, base=None):
    args, kw = ex.eval_args(e, frame)
    name = ex.c.name
    cm = _g(ex, 'cm')
    ex.oblige(f'{name}/call:enter_async_context/of_that_session', z3.BoolVal(False) if cm is None else (args[0].t == cm.t))
    s = SessR.fresh('session')
    ex.st.ghost['session'] = s
    ex.st.ghost['entered'] = VBool(True)
    return s


STATE = RecS('ConnectionState', pyclass=(F, 'ConnectionState'), _session=OptS(SessR), _selected=NoneS(),
             _capability=RefS('CapList'), auth=RefS('Auth'), config=RefS('Config', login_capability=RefS('CapList')),
             login=RefS('Login'))

REG = {('Login', 'authenticate'): _authenticate, ('Login', 'authorize'): _authorize, ('Ident', 'new_session'): _new_session,
       ('Stack', 'enter_async_context'): _enter,
       ('CapList', 'extend'): lambda ex, frame, e, base=None: (ex.st.events.append('capability.extend'), VNone())[1]}


def _ghost0(st, sc=None):
    for k in ('authenticated', 'authorized', 'cm', 'authenticate.creds'):
        st.ghost.pop(k, None)
    st.ghost['session'] = SessR.fresh('no_session')
    st.ghost['login.session'] = SessR.fresh('no_session')
    st.ghost['login.creds'] = CredsS.fresh('no_creds')
    st.ghost['logged_in'] = VBool(False)
    st.ghost['entered'] = VBool(False)
    st.ghost['advertises_logindisabled'] = VBool(z3.Bool('advertises_LOGINDISABLED'))


login = Contract(
    'C09', F, 'ConnectionState._login', params=dict(self=STATE, creds=CredsS),
    calls={'connection_exit.get': lambda ex, frame, e, base=None: RefS('Stack').fresh('stack')},
    ensures=[('the_session_is_the_one_of_the_authorized_identity',
              lambda s: s.ghost('entered') & (s.result == s.ghost('session'))),
             ('authenticated_with_these_credentials', lambda s: s.ghost('authenticate.creds') == s.creds)],
    raises={InvalidAuth: [], AuthorizationFailure: []}, raises_only=(InvalidAuth, AuthorizationFailure),
    modifies=[], ghost_init=_ghost0)


def _login_call(ex, frame, e, base=None):
    """callee contract of _login, used modularly: either raises, or returns THE session for the credentials passed"""
    args, kw = ex.eval_args(e, frame)
    ex.st.events.append('_login')
    ex.st.ghost['login.creds'] = args[0]
    k = ex.choose(3)
    if k == 1:
        raise PyRaise(InvalidAuth)
    if k == 2:
        raise PyRaise(AuthorizationFailure)
    s = SessR.fresh('session')
    ex.st.ghost['login.session'] = s
    ex.st.ghost['logged_in'] = VBool(True)
    return s


def _resp_kind(s):
    return s.wrap(s.result).kind


def _unchanged(s):
    return (s.self._session == s.old.self._session) & VBool('capability.extend' not in s._st.events)


do_authenticate = Contract(
    'C09', F, 'ConnectionState.do_authenticate', params=dict(self=STATE, cmd=S.CmdS, creds=OptS(CredsS)),
    calls=dict(S.CALLS, **{'self._login': _login_call}),
    ensures=[('without_credentials_the_answer_is_NO', lambda s: implies(is_none(s.creds), _resp_kind(s) == 2)),
             ('not_OK_means_still_unauthenticated', lambda s: implies(_resp_kind(s) != 1, _unchanged(s))),
             ('OK_means_the_session_of_these_credentials', lambda s: implies(
                 _resp_kind(s) == 1, s.ghost('logged_in') & (s.self._session == s.ghost('login.session')) &
                 (s.ghost('login.creds') == s.creds.val())))],
    raises={InvalidAuth: [('nothing_changed', _unchanged)], AuthorizationFailure: [('nothing_changed', _unchanged)]},
    raises_only=(InvalidAuth, AuthorizationFailure), ghost_init=_ghost0)
do_authenticate.attr_models = {('ConnectionState', 'capability'): lambda ex, frame, base: VConst('capability-property')}


def _plain_creds(ex, frame, e, base=None):
    args, kw = ex.eval_args(e, frame)
    c = CredsS.fresh('plaincreds')
    ex.st.ghost['plain.user'] = args[0]
    ex.st.ghost['plain.password'] = args[1]
    ex.st.ghost['plain.creds'] = c
    # pysasl PlainCredentials(authcid, secret): authzid defaults to authcid
    ex.assume(ex.st.heap_get(c, 'authzid').t == ex.st.heap_get(c, 'authcid').t)
    return c


def _decode(which):
    def model(ex, frame, e, base=None):
        r = StrS.fresh(which)
        ex.st.ghost['decoded.' + which] = r
        return r
    return model


def _do_auth_call(ex, frame, e, base=None):
    args, kw = ex.eval_args(e, frame)
    ex.st.events.append('do_authenticate')
    ex.st.ghost['do_authenticate.creds'] = args[1]
    if ex.choose(2) == 1:
        raise PyRaise(InvalidAuth)
    return S.RespR.fresh('resp')


def _in_capability(ex, a, b):
    if isinstance(b, VConst) and b.py == 'capability-property':
        return ex.st.ghost['advertises_logindisabled']
    if isinstance(b, VRef) and b.sort.name == 'CapList':
        # membership in some other capability list (e.g. the raw _capability) says nothing about what is advertised
        return VBool(z3.Bool(fresh_name('in_some_other_capability_list')))
    return None


do_login = Contract(
    'C09', F, 'ConnectionState.do_login', params=dict(self=STATE, cmd=RefS('LoginCmd', userid=RefS('Bytes'), password=RefS('Bytes'), tag=RefS('Tag'))),
    calls={'PlainCredentials': _plain_creds, 'cmd.userid.decode': _decode('userid'), 'cmd.password.decode': _decode('password'),
           'self.do_authenticate': _do_auth_call},
    ensures=[('never_while_LOGINDISABLED_is_advertised', lambda s: ~s.ghost('advertises_logindisabled')),
             ('authenticates_with_exactly_the_userid_and_password_of_this_command', lambda s: VBool(
                 s.ghost('do_authenticate.creds') is not None and s.ghost('plain.creds') is not None) &
                 (s.ghost('do_authenticate.creds') == s.ghost('plain.creds')) &
                 (s.ghost('plain.user') == s.ghost('decoded.userid')) & (s.ghost('plain.password') == s.ghost('decoded.password')))],
    raises={NotSupportedError: [('only_while_LOGINDISABLED_is_advertised_and_before_any_call',
                                 lambda s: s.ghost('advertises_logindisabled') & VBool(not s._st.events))],
            InvalidAuth: [('never_while_LOGINDISABLED_is_advertised', lambda s: ~s.ghost('advertises_logindisabled'))]},
    raises_only=(NotSupportedError, InvalidAuth), modifies=[], ghost_init=_ghost0)
do_login.attr_models = {('ConnectionState', 'capability'): lambda ex, frame, base: VConst('capability-property')}
do_login.in_model = _in_capability


# ---- dict backend

LoginRec = RefS('LoginObj', config=RefS('Config', invalid_user_sleep=RefS('Float'), password_prep=RefS('Prep')),
                _passwords=RefS('Passwords'),
                tokens=RefS('Tokens'))
UserS = RefS('User', roles=SetS(RoleS), has_password=BOOL)
AuthdS = RefS('IdentIface', roles=SetS(RoleS))
AuthdS.attrs['name'] = StrS


def _identity_ctor(ex, frame, e, base=None):
    args, kw = ex.eval_args(e, frame)
    i = IdentS.fresh('identity')
    nm = args[0] if not isinstance(args[0], VRef) or args[0].sort.name == 'Str' else args[2]
    if isinstance(args[0], VRef) and args[0].sort.name == 'Str':
        nm = args[0]
    else:
        nm = args[2]            # maildir: Identity(config, tokens, name, token_id, roles)
    ex.assume(ex.st.heap_get(i, 'name').t == nm.t)
    ex.st.ghost.setdefault('identities', []).append((i, nm, args[-1]))
    return i


def _identity_get(ex, frame, e, base=None):
    ex.st.events.append('identity.get')
    if ex.choose(2) == 1:
        raise PyRaise(UserNotFound)
    u = UserS.fresh('stored_user')
    ex.st.ghost['stored_user'] = u
    return u


def _dummy_user(ex, frame, e, base=None):
    args, kw = ex.eval_args(e, frame)
    u = UserS.fresh('passwordless_user')
    ex.assume(z3.Not(ex.st.heap_get(u, 'has_password').t))
    ex.st.ghost['dummy_user'] = u
    return u


def _check_password(ex, frame, e, base=None):
    args, kw = ex.eval_args(e, frame)
    name = ex.c.name
    ex.st.events.append('check_password')
    creds = ex.frames[0].env['credentials']
    ex.oblige(f'{name}/call:check_password/of_the_presented_credentials', args[1].t == creds.t)
    su, du = _g(ex, 'stored_user'), _g(ex, 'dummy_user')
    ex.oblige(f'{name}/call:check_password/against_the_stored_user_or_a_passwordless_stand_in',
              z3.Or(*([args[0].t == su.t] if su is not None else []), *([args[0].t == du.t] if du is not None else []))
              if (su is not None or du is not None) else z3.BoolVal(False))
    r = z3.Bool(fresh_name('password_ok'))
    # UserMetadata.compare_secret (proved below): no stored password -> False
    ex.assume(z3.Implies(r, ex.st.heap_get(args[0], 'has_password').t))
    ex.st.ghost['password_ok'] = VBool(r)
    return VBool(r)


def _cred_isinstance(ex, v, classes):
    return ex.st.heap_get(v, 'is_token')


CredsS.isinstance_hook = _cred_isinstance

_auth_calls = {'Identity': _identity_ctor, 'identity.get': _identity_get, 'UserMetadata': _dummy_user,
               'self._passwords.check_password': _check_password,
               'asyncio.sleep': lambda ex, frame, e, base=None: VNone()}


def _authn(file, qual):
    c = Contract(
        'C09', file, qual, variant='plain', params=dict(self=LoginRec, credentials=CredsS),
        requires=[('plain_credentials', lambda s: ~s.credentials.is_token)],
        calls=_auth_calls,
        ensures=[('only_after_the_password_check_succeeded', lambda s: VBool(s.ghost('password_ok') is not None) & s.ghost('password_ok')),
                 ('never_for_an_unknown_user', lambda s: VBool(s.ghost('stored_user') is not None)),
                 ('the_identity_is_the_authcid', lambda s: s.wrap(s.result).name == s.credentials.authcid)],
        raises={InvalidAuth: []}, raises_only=(InvalidAuth,), modifies=[], returns=IdentS,
        ghost_init=_ghost0)
    c.str_consts = {'admin': ADMIN, 'sudo': SUDO}
    return c


dict_authenticate = _authn(FD, 'Login.authenticate')
maildir_authenticate = _authn(FM, 'Login.authenticate')


PREP = z3.Function('saslprep', StrS.z3(), StrS.z3())       # not injective: nothing is assumed about it


def _prepare(ex, frame, e, base=None):
    args, kw = ex.eval_args(e, frame)
    return VRef(PREP(args[0].t), StrS)


def _authz(file, qual, privileged):
    def priv(s):
        r = VBool(False)
        for p in privileged:
            r = r | s.authenticated.roles.has(p)
        return r
    c = Contract(
        'C09', file, qual, params=dict(self=LoginRec, authenticated=AuthdS, authzid=StrS),
        calls={'Identity': _identity_ctor, 'prepare': _prepare},
        ensures=[('a_different_identity_only_for_a_privileged_role', lambda s: (s.authenticated.name == s.authzid) | priv(s)),
                 ('the_identity_is_the_authzid', lambda s: s.wrap(s.result).name == s.authzid)],
        raises={AuthorizationFailure: [('only_for_a_different_identity_without_the_role',
                                        lambda s: (s.authenticated.name != s.authzid) & ~priv(s))]},
        raises_only=(AuthorizationFailure,), modifies=[], returns=IdentS)
    c.str_consts = {'admin': ADMIN, 'sudo': SUDO}
    return c


dict_authorize = _authz(FD, 'Login.authorize', [ADMIN])
maildir_authorize = _authz(FM, 'Login.authorize', [ADMIN, SUDO])

# ---- user.py
UserRec = RecS('UserMetadata', pyclass=(FU, 'UserMetadata'), config=RefS('Config', password_prep=RefS('Prep'), hash_context=RefS('Hash')),
               password=OptS(StrS))
compare_secret = Contract(
    'C09', FU, 'UserMetadata.compare_secret', params=dict(self=UserRec, value=StrS),
    calls={'prepare': lambda ex, frame, e, base=None: StrS.fresh('prepared')},
    ensures=[('no_stored_password_never_verifies', lambda s: implies(is_none(s.self.password), ~s.result))],
    raises_only=(), modifies=[], returns=BOOL)
REG.update({('Hash', 'copy'): lambda ex, frame, e, base=None: RefS('Hash').fresh('hc'),
            ('Hash', 'verify'): lambda ex, frame, e, base=None: VBool(z3.Bool(fresh_name('verify')))})

CONTRACTS = [login, do_authenticate, do_login, dict_authenticate, dict_authorize, maildir_authenticate, maildir_authorize,
             compare_secret]
