"""Contracts for C11: INBOX guards of ConnectionState.do_create/do_delete/do_rename, and the dict MailboxSet as a map
name -> MailboxData (add / delete / get / set_subscribed)."""
import z3

from pyvc.values import *
from pyvc.values import _t, _b
from pyvc.engine import Contract, Loop, PyRaise
from . import state as ST
from .selected import NameR, SEL

FS = 'pymap/imap/state.py'
FD = 'pymap/backend/dict/mailbox.py'
NAME_INBOX = VRef(z3.Const('name.INBOX', NameR.z3()), NameR)


def _session_ns(kind):
    def model(ex, frame, e, base):
        args, kw = ex.eval_args(e, frame)
        ex.oblige(f'{ex.c.name}/call:{kind}/never_for_INBOX',
                  args[0].t != NAME_INBOX.t if kind != 'rename_mailbox' else args[1].t != NAME_INBOX.t)
        ex.st.ghost['called'] = True
        r = ST.RefS('Oid').fresh('oid') if kind == 'create_mailbox' else None
        upd = VNone()
        return VTuple([r, upd]) if r is not None else upd
    return model


REG = dict(ST.REG)
REG.update({('Sess', 'create_mailbox'): _session_ns('create_mailbox'),
            ('Sess', 'delete_mailbox'): _session_ns('delete_mailbox'),
            ('Sess', 'rename_mailbox'): _session_ns('rename_mailbox')})
CmdN = RefS('Cmd', mailbox=NameR, from_mailbox=NameR, to_mailbox=NameR, tag=RefS('Tag'), command=RefS('Bytes'))


def _guard(name, attr):
    c = ST._mk(name, dict(self=ST.STATE, cmd=CmdN), prop='C11',
               ensures=[('INBOX_is_refused_with_NO', lambda s: implies(
                   getattr(s.cmd, attr) == NAME_INBOX, s.wrap(s.result[0]).kind == 2)),
                   ('and_the_backend_is_not_called', lambda s: implies(
                       getattr(s.cmd, attr) == NAME_INBOX, VBool(not s._st.ghost.get('called', False))))],
               raises_only=(ST.ResponseError, AttributeError))
    c.str_consts = {'INBOX': NAME_INBOX}
    return c


do_create = _guard('do_create', 'mailbox')
do_delete = _guard('do_delete', 'mailbox')
do_rename = _guard('do_rename', 'to_mailbox')

# ---- dict MailboxSet
MbxD = RefS('MailboxDataRef')
LockR = RecS('Lock')
MSET = RecS('MailboxSet', pyclass=(FD, 'MailboxSet'), _set=MapS(NameR, MbxD), _subscribed=MapS(NameR, BOOL),
            _inbox=MbxD, _set_lock=LockR, _content_cache=RefS('Cache'), _thread_cache=RefS('Cache'))
UPPER = z3.Function('upper', NameR.z3(), NameR.z3())
ISASCII = z3.Function('isascii', NameR.z3(), z3.BoolSort())


def IS_INBOX(t):
    """RFC 3501 5.1: INBOX in any case -- of US-ASCII letters, as every ABNF string; str.upper() alone also folds U+0131"""
    return z3.And(ISASCII(t), UPPER(t) == NAME_INBOX.t)


def _lock(ex, frame, item, phase):
    return None


def _new_mailbox(ex, frame, e):
    m = MbxD.fresh('new_mailbox')
    ex.st.ghost['created'] = m
    return m


def _upper(ex, frame, e):
    v = ex.eval(e.func.value, frame)
    return VRef(UPPER(v.t), NameR)


def _isascii(ex, frame, e):
    v = ex.eval(e.func.value, frame)
    return VBool(ISASCII(v.t))


_calls = {'*.read_lock': _lock, '*.write_lock': _lock, 'MailboxData': _new_mailbox, 'name.upper': _upper, 'name.isascii': _isascii}
_attr = {('MailboxDataRef', 'mailbox_id'): lambda ex, frame, ref: RefS('Oid').fresh('mid')}


def _others(s, *names):
    def cl(k):
        c = VBool(True)
        for n in names:
            c = c & (k != n)
        return implies(c, (s.self._set.has(k) == s.old.self._set.has(k)) & (s.self._set[k] == s.old.self._set[k]))
    return forall(cl, sort=NameR)


def _unchanged(s):
    return (s.self._set == s.old.self._set) & (s.self._subscribed == s.old.self._subscribed) & \
        (s.self._inbox == s.old.self._inbox)


def _mk(name, params, **kw):
    c = Contract('C11', FD, f'MailboxSet.{name}', params=params, calls=_calls, **kw)
    c.attr_models = _attr
    c.str_consts = {'INBOX': NAME_INBOX}
    return c


add_mailbox = _mk('add_mailbox', dict(self=MSET, name=NameR),
                  ensures=[('creates_exactly_this_name', lambda s: s.self._set.has(s.name) & ~s.old.self._set.has(s.name)),
                           ('with_a_fresh_mailbox', lambda s: VBool(s.self._set[s.name].t == s._st.ghost['created'].t)),
                           ('other_names_untouched', lambda s: _others(s, s.name))],
                  raises={ValueError: [('only_for_an_existing_name', lambda s: s.old.self._set.has(s.name)),
                                       ('and_nothing_changes', _unchanged)]},
                  raises_only=(ValueError,))
delete_mailbox = _mk('delete_mailbox', dict(self=MSET, name=NameR),
                     ensures=[('removes_exactly_this_name', lambda s: ~s.self._set.has(s.name) & s.old.self._set.has(s.name)),
                              ('other_names_untouched', lambda s: _others(s, s.name))],
                     raises={KeyError: [('only_for_a_missing_name', lambda s: ~s.old.self._set.has(s.name)),
                                        ('and_nothing_changes', _unchanged)]},
                     raises_only=(KeyError,))
get_mailbox = _mk('get_mailbox', dict(self=MSET, name=NameR),
                  ensures=[('inbox_in_any_case_else_the_stored_mailbox', lambda s: VBool(z3.If(
                      IS_INBOX(s.name.t), s.result.t == s.self._inbox.t,
                      z3.And(s.self._set.has(s.name).t, s.result.t == s.self._set[s.name].t))))],
                  raises={KeyError: [('only_for_a_missing_name', lambda s: ~s.self._set.has(s.name) &
                                      VBool(z3.Not(IS_INBOX(s.name.t)))), ('and_nothing_changes', _unchanged)]},
                  modifies=[], raises_only=(KeyError,), returns=MbxD)
set_subscribed = _mk('set_subscribed', dict(self=MSET, name=NameR, subscribed=BOOL),
                     ensures=[('records_exactly_this_subscription', lambda s: s.self._subscribed.has(s.name) &
                               (s.self._subscribed[s.name] == s.subscribed) & forall(lambda k: implies(
                                   k != s.name, (s.self._subscribed.has(k) == s.old.self._subscribed.has(k)) &
                                   (s.self._subscribed[k] == s.old.self._subscribed[k])), sort=NameR)),
                              ('mailboxes_untouched', lambda s: s.self._set == s.old.self._set)],
                     raises_only=())

CONTRACTS = [do_create, do_delete, do_rename, add_mailbox, delete_mailbox, get_mailbox, set_subscribed]
