"""Contracts of pymap/message.py (BaseLoadedMessage): which part of the parsed content each top-level FETCH item returns.

C03's byte kernel proves bytes(content) = data and header ++ body = data (contracts/mime.py).  This file closes the step
from there to the items of the statement, for requests WITHOUT a part number (BODY[], RFC822, BODY[HEADER], RFC822.HEADER,
BODY[TEXT], RFC822.TEXT, RFC822.SIZE): get_body() hands back the content itself, get_message_headers() its header,
get_message_text() its body -- never anything of an encapsulated message, whatever the content's own type is --
and get_size() its length; without loaded content each hands back the empty value.  Part numbers (nested MIME) stay bounded.
"""
import z3

from pyvc.values import *
from pyvc.values import _t, _b
from pyvc.engine import Contract

F = 'pymap/message.py'
W = RefS('Writeable')                   # MessageContent, MessageHeader, MessageBody are all Writeables
HEADER = z3.Function('content.header', W.z3(), W.z3())
BODY = z3.Function('content.body', W.z3(), W.z3())
LEN = z3.Function('len', W.z3(), z3.IntSort())
EMPTY = VRef(z3.Const('Writeable.empty', W.z3()), W)
LM = RecS('BaseLoadedMessage', pyclass=(F, 'BaseLoadedMessage'), _content=OptS(W))

_attrs = {('Writeable', 'header'): lambda ex, frame, ref: W.wrap(HEADER(ref.t)),
          ('Writeable', 'body'): lambda ex, frame, ref: W.wrap(BODY(ref.t)),
          ('Writeable', 'is_rfc822'): lambda ex, frame, ref: BOOL.fresh('is_rfc822'),
          ('Writeable', 'has_nested'): lambda ex, frame, ref: BOOL.fresh('has_nested'),
          ('Writeable', 'nested'): lambda ex, frame, ref: _nested(ex)}
def _nested(ex):
    """the encapsulated parts: other objects than the content itself"""
    lst = ListS(W).fresh('nested')
    ex.assume(lst.n >= 1)
    return lst


_calls = {'Writeable.empty': lambda ex, frame, e, base=None: EMPTY,
          'len': lambda ex, frame, e, base=None: VInt(LEN(_w(ex.eval(e.args[0], frame))))}
_inline = {'BaseLoadedMessage._get_subpart', 'BaseLoadedMessage.content'}


def _content(s):
    return s.self._content


def _w(v):
    """the Writeable term of a value that may still be wrapped as Optional (self.content returns the checked field)"""
    from pyvc.engine import unview
    v = unview(v) if hasattr(v, '_ref') or hasattr(v, '_v') else v
    return _t(v.val()) if isinstance(v, VOpt) else _t(v)


def _top(name, params, present, absent, **kw):
    c = Contract('C03', F, f'BaseLoadedMessage.{name}', variant='no-part-number', params=dict(self=LM, **params),
                 calls=_calls, inline=_inline, modifies=[], raises_only=(),
                 ensures=[('with_content_loaded', lambda s: implies(~is_none(_content(s)), present(s))),
                          ('without_content', lambda s: implies(is_none(_content(s)), absent(s)))], **kw)
    c.attr_models = _attrs
    return c


def _is(val):
    return lambda s: VBool(_w(s.result) == val(s))


get_body = _top('get_body', dict(section=NoneS(), binary=BOOL),
                lambda s: implies(~s.binary, VBool(_w(s.result) == _t(_content(s).val()))), _is(lambda s: EMPTY.t),
                returns=W)
get_message_text = _top('get_message_text', dict(section=NoneS()),
                        _is(lambda s: BODY(_t(_content(s).val()))), _is(lambda s: EMPTY.t), returns=W)
get_message_headers = _top('get_message_headers', dict(section=NoneS(), subset=NoneS(), inverse=BOOL),
                           _is(lambda s: HEADER(_t(_content(s).val()))), _is(lambda s: EMPTY.t), returns=W)
get_size = _top('get_size', dict(section=NoneS()),
                lambda s: VBool(_t(s.result) == LEN(_t(_content(s).val()))), lambda s: VBool(_t(s.result) == 0), returns=INT)
get_body.calls = dict(_calls, **{'MessageDecoder.of': lambda ex, frame, e, base=None: RefS('Decoder').fresh('dec'),
                                 'MessageDecoder.of(msg.header).decode': lambda ex, frame, e, base=None: W.fresh('decoded'),
                                 'Writeable.concat': lambda ex, frame, e, base=None: W.fresh('concat')})
CONTRACTS = [get_body, get_message_text, get_message_headers, get_size]
