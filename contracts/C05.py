"""C05 -- the connection state machine follows RFC 3501 section 3.

Deductive (pymap/imap/state.py, contracts/state.py):
  do_command   for each of the four refusal conditions (invalid command; non-auth command with a session; auth
               command without a session; select command without a selection) the answer is BAD, nothing is
               dispatched and _session/_selected are untouched; a dispatched command starts with expunges not
               hidden; a returned selection is replaced by its fork
  do_select    clears the selection first; success hands back a selection made under exactly the requested name,
               read-only when EXAMINE; any failure leaves none selected
  do_close     answers OK and deselects for every selection (read-only included), raises nothing
Bounded (real server, harness/e2e_states.py): all command sequences of length <= 2 over 45 commands (every built-in
command, valid/invalid arguments, existing/missing mailboxes, AUTHENTICATE exchanges incl. cancel and bad base64) after
eight state prefixes, against the RFC automaton.
  IMAPConnection._run_state (contracts/runstate.py): do_authenticate -- which installs a session without passing
               do_command's gate -- and the SASL exchange are reached only while the state is not authenticated; every
               other AUTHENTICATE goes through do_command.
"""
from pyvc.prop import Property, Bounded
from . import state as ST, runstate as RS
from harness.e2e_states import bounded_states

PROPERTY = Property(
    'C05', 'Connection state machine follows RFC 3501 section 3',
    contracts=[ST.do_command_sel, ST.do_command_nosel, ST.do_select, ST.do_close, ST.do_greeting] + RS.CONTRACTS, registry=ST.REG,
    bounded=[Bounded('command sequences vs. the RFC 3501 automaton (real server)',
                     'every sequence of 1 and 2 commands from 45 (complete built-in command set; valid and invalid '
                     'arguments; existing and missing mailboxes; LOGIN good/bad; AUTHENTICATE PLAIN good/bad/cancel/'
                     'garbage/unknown mechanism; STARTTLS; IDLE+DONE) after each of the prefixes {nothing, LOGIN, '
                     'LOGIN+SELECT, LOGIN+EXAMINE, LOGIN+SELECT+failed SELECT, LOGIN+CREATE+SELECT of an empty mailbox}; '
                     'thorough adds 20000 seeded sequences of length 3-5; data of all mailboxes dumped around every '
                     'refused command',
                     bounded_states('C05'), decisive=True)],
    level='other', design_ref='6 C05',
    explanation='deductive: the gate, SELECT and CLOSE of ConnectionState; bounded: the dispatch in '
                'IMAPConnection._run_state and the composition, exhaustively on the stated scope',
    trusted_base=['the do_* methods are abstract in do_command (each has its own contract)',
                  'BaseSession.select_mailbox / expunge_mailbox through their call-site facts'],
)
