"""C11 -- mailbox namespace commands behave as the reference model says.

Deductive:
  ConnectionState.do_create / do_delete / do_rename   the literal INBOX (Mailbox normalises every case variant to it)
                          is answered NO and the backend is never called with it
  BaseSession.create/delete/rename/get_mailbox (abstract backend)   KeyError / ValueError of the mailbox set become
                          MailboxNotFound / MailboxConflict (tagged NO) and nothing else escapes
  dict MailboxSet.add_mailbox / delete_mailbox / get_mailbox / set_subscribed   the map view: ValueError iff the name
                          exists, KeyError iff it is missing, every refusal leaves the set unchanged, exactly one name
                          is touched, INBOX in any case resolves to the inbox object
Bounded (real server, dict backend): namespace programs against a plain model and LIST/LSUB patterns against an
independent glob matcher (regex pattern semantics, ListTree.get_renames and rename_mailbox are outside the verifier).
"""
from pyvc.prop import Property, Bounded
from . import names as N, session as SES
from harness.e2e_names import bounded_names

REG = dict(SES.REG)
REG.update({k: v for k, v in N.REG.items() if k not in REG})
_session = [c for c in SES.make('C11') if c.qualname.split('.')[-1] in (
    'create_mailbox', 'delete_mailbox', 'rename_mailbox', 'get_mailbox', 'select_mailbox')]

PROPERTY = Property(
    'C11', 'Mailbox namespace commands behave as the reference model says',
    contracts=N.CONTRACTS + _session, registry=REG,
    bounded=[Bounded('namespace programs vs. model, LIST/LSUB vs. independent glob matcher (real server, dict)',
                     'names {a, a/b, a/b/c, ab, B, inbox, Inbox/x, a*b, a%b, q"uote, new<LF>line, e-acute, a/e-acute, Sent}; ops '
                     'CREATE/DELETE/SUBSCRIBE/UNSUBSCRIBE/STATUS per name + 12 RENAMEs (inferiors, INBOX source and target, '
                     'missing source, existing target, same name); all single ops, 30 targeted rename-with-inferiors trees '
                     '(inferior paths repeating the old name, sibling prefixes), 700 (quick) / 8000 (thorough) seeded '
                     'programs of 3-7 ops; after programs (and after every step for 20%) 25 reference/pattern pairs incl. '
                     '%, *, empty-matching %, newline, non-ASCII as LIST and LSUB',
                     bounded_names('C11'), decisive=True),
             Bounded('the same on the maildir backend, layout ++', 'the first 250 (quick) / 2500 (thorough) programs of the '
                     'scope above on the real MaildirBackend (temporary directory, thread pool); RFC SHOULDs a backend may '
                     'refuse (missing superior, rename into own inferior) accept either answer',
                     bounded_names('C11', 'maildir++'), decisive=True),
             Bounded('the same on the maildir backend, layout fs', 'as above, layout fs',
                     bounded_names('C11', 'maildirfs'), decisive=True)],
    level='other', design_ref='6 C11',
    explanation='deductive: guards, error mapping and the map view of the dict mailbox set (z3); bounded: pattern '
                'semantics (regex), get_renames / rename_mailbox, LIST rendering and the composition',
    trusted_base=['ListTree (regex, recursion) and rename_mailbox: bounded only', 'maildir backends: not run here',
                  'two don\'t-care cases of the RFC (rename of / onto a mere hierarchy node) accept either answer'],
)
