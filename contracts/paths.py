"""Contracts for C08 (pymap/backend/maildir/layout.py): no unsafe part ever reaches path construction.

Name parts are opaque values with the predicates a path component needs: being '', '.', '..', containing NUL or the
path separator.  _BaseLayout._split is proved to return only parts for which none of these holds (or the empty list for
INBOX, or to raise FileNotFoundError); the lemma "a path root/p1/.../pn whose components are all safe normalises strictly
inside root" (and root + '/.' + 'p1.p2...pn' likewise, a single component that is neither '.' nor '..') is the assumed
path lemma, cross-checked against os.path.normpath/realpath by the bounded run."""
import z3

from pyvc.values import *
from pyvc.values import _t, _b
from pyvc.engine import Contract, Loop, PyRaise, SeqView

F = 'pymap/backend/maildir/layout.py'
PartS = RefS('NamePart')
NameS = RefS('MailboxNameStr')
DelimS = RefS('Delimiter')
P_EMPTY = VRef(z3.Const("part.''", PartS.z3()), PartS)
P_DOT = VRef(z3.Const("part.'.'", PartS.z3()), PartS)
P_DOTDOT = VRef(z3.Const("part.'..'", PartS.z3()), PartS)
PartS.truth_fn = lambda t: t != P_EMPTY.t          # `if part`: a str is falsy exactly when it is ''
N_INBOX = VRef(z3.Const('name.INBOX', NameS.z3()), NameS)
HAS_NUL = z3.Function('contains_NUL', PartS.z3(), z3.BoolSort())
HAS_SEP = z3.Function('contains_os_sep', PartS.z3(), z3.BoolSort())


def safe(p):
    return VBool(z3.And(p.t != P_EMPTY.t, p.t != P_DOT.t, p.t != P_DOTDOT.t, z3.Not(HAS_NUL(p.t)), z3.Not(HAS_SEP(p.t))))


def _split_model(ex, frame, e, base=None):
    l = ListS(PartS).fresh('parts')
    ex.assume(l.n >= 1)          # str.split always yields at least one part
    return l


def _in_model(ex, a, b):
    if isinstance(b, VRef) and b.sort.name == PartS.name and isinstance(a, VConst):
        if a.py == '\0':
            return VBool(HAS_NUL(b.t))
        if a.py == '/':
            return VBool(HAS_SEP(b.t))
    return None


split = Contract(
    'C08', F, '_BaseLayout._split', params=dict(cls=RefS('LayoutClass', _reserved=SetS(PartS)), name=NameS, delimiter=DelimS),
    ensures=[('every_returned_part_is_a_safe_path_component', lambda s: forall(lambda i: implies(
        (i >= 0) & (i < s.result.len), safe(s.result[i])))),
        ('empty_only_for_INBOX', lambda s: implies(s.result.len == 0, s.name == N_INBOX))],
    raises={FileNotFoundError: []}, raises_only=(FileNotFoundError,),
    calls={'name.split': _split_model,
           # ASSUMED: _fits only inspects the parts (os.fsencode / len); any answer is allowed for
           'cls._fits': lambda ex, frame, e, base=None: (ex.eval_args(e, frame), VBool(z3.Bool(fresh_name('fits'))))[1]},
    loops={0: Loop(invariant=[('prefix_safe', lambda s: forall(lambda i: implies((i >= 0) & (i < s.k), safe(s.parts[i]))))])},
    modifies=[], returns=ListS(PartS), pure=True)
split.str_consts = {'INBOX': N_INBOX, '': P_EMPTY, '.': P_DOT, '..': P_DOTDOT}
split.in_model = _in_model
CONTRACTS = [split]
