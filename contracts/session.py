"""Contracts of pymap/backend/session.py (BaseSession) against an ABSTRACT backend.

The backend objects (MailboxSetInterface / MailboxDataInterface) are opaque; every call into them is an *effect*
that is checked at the call site against the policies below (obligations are emitted where the effect happens,
so they also cover effects inside loops):

  C12  no flag change / removal / \\Recent claim reaches the selected mailbox while the selection is read-only;
       nothing is inserted into a mailbox whose `readonly` is true
  C14  a ResponseError (tagged NO) is only raised while no effect has happened yet in this command
  C01  sequence numbers are interpreted (get_all / get_uids / find) before the selection is synchronised
       (update_selected) in the same command -- otherwise results would be labelled in a numbering the client
       has not been told about yet
  C17  add_recent is only ever applied to a read-write selection, and a message is stored `recent` exactly when
       no selection took it
  C04  the UID lists handed to AppendUid / CopyUid are the backend's answers in call order: AppendUid gets exactly the
       uids of the messages append() returned, for the UIDVALIDITY of that mailbox; CopyUid gets exactly the pairs
       (source uid handed to copy()/move(), uid it returned), sources and destinations both strictly increasing -- so
       that CopyUid's independent sorting of the two columns keeps every pair together
  C11  KeyError / ValueError of the mailbox set are turned into MailboxNotFound / MailboxConflict (tagged NO)
       and nothing else escapes

ASSUMED: the abstract backend's calls raise only what MailboxSetInterface documents (KeyError from get_mailbox/
delete_mailbox/rename_mailbox, ValueError from add_mailbox/rename_mailbox).
"""
import ast

import z3

from pyvc.values import *
from pyvc.values import _t, _b
from pyvc.engine import Contract, Loop, PyRaise, SeqView, Unsupported
from . import selected as SELM, flags as FL
from .selected import SEL, SM, NameR
from .dictmbx import Msg, Flag, Oid, Content, FLAG_SEEN

F = 'pymap/backend/session.py'

SelSetR = RefS('SelSet')
MbxR = RefS('Mbx', mailbox_id=Oid, readonly=BOOL, selected_set=SelSetR, uid_validity=INT,
            permanent_flags=SetS(Flag), session_flags=SetS(Flag))
MSET = RecS('MailboxSet')
CFG = RecS('Config', disable_search_keys=RefS('KeyList'))
SESSION = RecS('BaseSession', pyclass=(F, 'BaseSession'), mailbox_set=MSET, config=CFG)
AppendR = RefS('AppendMsg')
SeqSetS = SELM.SeqSetS

PairS = TupleS(INT, INT)
_P0 = PairS._dt().accessor(0, 0)
_P1 = PairS._dt().accessor(0, 1)

SEL_MBX = VRef(z3.Const('the-selected-mailbox', MbxR.z3()), MbxR)


class StorageFailure(Exception):
    """whatever a backend storage call may raise (a parse failure of the content, an I/O error, a cancellation)"""


class Policy:
    """which property's obligations a set of session contracts generates"""

    def __init__(self, prop):
        self.prop = prop


def _sel(ex, frame):
    v = ex.frames[0].env.get('selected')
    if isinstance(v, VRec):
        return v
    return None


def _effect(ex, frame, kind, target, site):
    """kind: flags | remove | claim | insert | sync | interpret"""
    g = ex.st.ghost
    base = f'{ex.c.name}/effect:{site}'
    pol = ex.c.policy.prop
    sel = _sel(ex, frame)
    if kind in ('flags', 'remove', 'claim'):
        if pol == 'C12':
            ro = ex.st.store[sel.rid]['_readonly'].t if sel is not None else z3.BoolVal(False)
            ex.oblige(f'{base}/not_on_a_readonly_selection', z3.Not(z3.And(ro, target.t == SEL_MBX.t)))
        g['effects'] = VBool(True)
    elif kind == 'insert':
        if pol == 'C12':
            ex.oblige(f'{base}/not_into_a_readonly_mailbox', z3.Not(_b(ex.st.heap_get(target, 'readonly'))))
        g['effects'] = VBool(True)
    elif kind == 'sync':
        g['synced'] = VBool(True)
    elif kind == 'interpret':
        if pol == 'C01':
            ex.oblige(f'{base}/sequence_numbers_interpreted_before_sync', z3.Not(_b(g['synced'])))


def ghost_init(st, sc):
    st.ghost['effects'] = VBool(False)
    st.ghost['synced'] = VBool(False)
    st.ghost['last_recent_arg'] = VBool(False)
    st.ghost['stored'] = ListS(INT).empty()        # uids this command has stored so far (APPEND)
    st.ghost['undone'] = ListS(INT).empty()        # uids handed to delete() by the command's own rollback
    st.ghost['pairs'] = ListS(PairS).empty()       # C04: (source uid given to copy/move, uid it returned), in call order
    st.ghost['last_dst'] = VInt(z3.IntVal(0))      # C04: the last uid copy/move returned in this command


# ---- the abstract mailbox set

def ms_get_mailbox(ex, frame, e, base):
    args, kw = ex.eval_args(e, frame)
    name = args[0]
    if ex.choose(2) == 1:
        raise PyRaise(KeyError)
    r = MbxR.fresh('mbx')
    sel = _sel(ex, frame)
    if sel is not None:
        lookup = ex.st.store[sel.rid]['_lookup']
        sid = ex.st.store[sel.rid]['_mailbox_id']
        rid = ex.st.heap_get(r, 'mailbox_id')
        # ASSUMED: mailbox ids identify mailboxes; the name a selection was made under finds its mailbox
        ex.assume((rid.t == sid.t) == (r.t == SEL_MBX.t))
        if isinstance(name, VRef) and name.sort.name == NameR.name:
            ex.assume(z3.Implies(name.t == lookup.t, r.t == SEL_MBX.t))
    return r


def _ms_raiser(*classes):
    def model(ex, frame, e, base):
        ex.eval_args(e, frame)
        c = ex.choose(1 + len(classes))
        if c > 0:
            raise PyRaise(classes[c - 1])
        ex.st.ghost['effects'] = VBool(True)
        return Oid.fresh('oid')
    return model


def _ms_plain(ex, frame, e, base):
    ex.eval_args(e, frame)
    ex.st.ghost['effects'] = VBool(True)
    return VNone()


ListTreeR = RefS('ListTree')


def _ms_list(ex, frame, e, base):
    ex.eval_args(e, frame)
    return ListTreeR.fresh('tree')


# ---- the abstract mailbox

def _stored_recent_iff_nobody_took_it(ex, frame, kw, site):
    if ex.c.policy.prop != 'C17':
        return
    ds = ex.frames[0].env.get('dest_selected')
    if ds is None:
        return
    taken = not isinstance(ds, VNone)
    ex.oblige(f'{ex.c.name}/effect:{site}/stored_recent_exactly_when_no_selection_takes_it',
              _b(kw.get('recent', VBool(False))) == z3.BoolVal(not taken))


def _mbx(kind, ret=None, site=None):
    def model(ex, frame, e, base):
        args, kw = ex.eval_args(e, frame)
        name = site or e.func.attr
        if kind in ('copy/move', 'append'):
            _stored_recent_iff_nobody_took_it(ex, frame, kw, e.func.attr)
        if kind == 'copy/move':
            dest = args[1]
            if e.func.attr == 'move':
                _effect(ex, frame, 'remove', base, 'move.source')
            _effect(ex, frame, 'insert', dest, e.func.attr + '.destination')
            # stored recent exactly when no selection took the message
            ex.st.ghost['last_recent_arg'] = kw.get('recent', VBool(False))
            r = OptS(INT).fresh('dest_uid')
            if ex.c.policy.prop == 'C04':
                # LINK to the UID kernel (proved per backend in C04): the uid copy()/move() returns is the destination's
                # new highest uid -- above everything assigned there before, in particular above the uid the previous
                # call of this command returned (dict: result == new _max_uid, which never decreases; maildir: result ==
                # the UID list's old next_uid, which never goes down and is advanced past it)
                g = ex.st.ghost
                none = _b(r.is_none())
                val = _t(r.val())
                ex.assume(z3.Or(none, val > _t(g['last_dst'])))
                pairs = g['pairs']
                g['pairs'] = VList(z3.If(none, pairs.n, pairs.n + 1),
                                   z3.If(none, pairs.arr, z3.Store(pairs.arr, pairs.n, PairS._dt().mk(_t(args[0]), val))),
                                   PairS)
                g['last_dst'] = VInt(z3.If(none, _t(g['last_dst']), val))
            return r
        if kind == 'append':
            if ex.c.policy.prop == 'C14':
                # ASSUMED: a storage call that raises has had no effect of its own.  It may raise an ordinary exception
                # or be CANCELLED (asyncio.CancelledError is a BaseException: `except Exception` does not see it)
                k = ex.choose(3)
                if k == 1:
                    raise PyRaise(StorageFailure)
                if k == 2:
                    import asyncio
                    raise PyRaise(asyncio.CancelledError)
            _effect(ex, frame, 'insert', base, 'append')
            ex.st.ghost['last_recent_arg'] = kw.get('recent', VBool(False))
            m = Msg.fresh('appended')
            ex.st.ghost['stored'] = ex.st.ghost['stored'].append(ex.st.heap_get(m, 'uid'))
            return m
        if kind == 'remove' and e.func.attr == 'delete':
            _effect(ex, frame, 'remove', base, 'delete')
            ex.st.ghost['undone'] = args[0] if isinstance(args[0], VList) else ex.st.ghost['undone']
            return VNone()
        if kind == 'update_selected':
            _effect(ex, frame, 'sync', base, 'update_selected')
            return args[0]
        _effect(ex, frame, kind, base, name)
        if ret is None:
            return VNone()
        if isinstance(ret, ListS):
            r = ret.fresh('ret')
            ex.assume(r.n >= 0)
            return r
        return ret.fresh('ret')
    return model


def _mbx_get(ex, frame, e, base):
    ex.eval_args(e, frame)
    return Msg.fresh('msg')


def _mbx_snapshot(ex, frame, e, base):
    return RefS('Snapshot').fresh('snap')


def _mbx_find_deleted(ex, frame, e, base):
    ex.eval_args(e, frame)
    _effect(ex, frame, 'interpret', base, 'find_deleted')
    r = ListS(INT).fresh('deleted_uids')
    ex.assume(r.n >= 0)
    return r


def _mbx_find(ex, frame, e, base):
    ex.eval_args(e, frame)
    _effect(ex, frame, 'interpret', base, 'find')
    lst = ListS(TupleS(INT, Msg)).fresh('found')
    ex.assume(lst.n >= 0)
    return lst


def _sm_interpret(ex, frame, e, base):
    """selected.messages.get_all / get_uids: proved in contracts/selected.py; here only the fact that sequence
    numbers are being interpreted matters"""
    ex.eval_args(e, frame)
    _effect(ex, frame, 'interpret', base, e.func.attr)
    es = TupleS(INT, Msg) if e.func.attr == 'get_all' else TupleS(INT, INT)
    lst = ListS(es).fresh('addressed')
    ex.assume(lst.n >= 0)
    if ex.c.policy.prop == 'C04' and e.func.attr == 'get_uids':
        # postcondition of SynchronizedMessages.get_uids (proved, contracts/selected.py, part of C04's contract list):
        # the addressed uids come in strictly increasing order
        i, j = z3.Int(fresh_name('i')), z3.Int(fresh_name('j'))
        ex.assume(z3.ForAll([i, j], z3.Implies(z3.And(0 <= i, i < j, j < lst.n), _P1(lst.arr[i]) < _P1(lst.arr[j]))))
    return lst


def _any_selected(ex, frame, ref):
    """SelectedSet.any_selected (contract proved in C17): None, or a selection that is not read-only"""
    if ex.choose(2) == 0:
        return VNone()
    other = ex.st.new_record(SEL, 'other_selection')
    ex.assume(~ex.st.store[other.rid]['_readonly'])
    return other


def _add_recent(ex, frame, e, base):
    """SessionFlags.add_recent reached through <selection>.session_flags"""
    args, kw = ex.eval_args(e, frame)
    owner = None
    for rid, fields in ex.st.store.items():
        v = fields.get('_session_flags')
        if isinstance(v, VRec) and v.rid == base.rid:
            owner = rid
    if ex.c.policy.prop in ('C17', 'C12'):
        ro = ex.st.store[owner]['_readonly'].t if owner is not None else z3.BoolVal(True)
        ex.oblige(f'{ex.c.name}/effect:add_recent/only_on_a_read_write_selection', z3.Not(ro))
        ex.oblige(f'{ex.c.name}/effect:add_recent/message_not_also_stored_recent',
                  z3.Not(_b(ex.st.ghost.get('last_recent_arg', VBool(False)))))
    rec = ex.st.store[base.rid]['_recent']
    uid = args[0].val() if isinstance(args[0], VOpt) else args[0]
    ex.st.store[base.rid]['_recent'] = rec.add(uid)
    return VNone()


def _sess_update(ex, frame, e, base):
    ex.eval_args(e, frame)
    ex.havoc_field(base, '_flags')
    return SetS(Flag).fresh('sflags')


REG = {
    ('MailboxSet', 'get_mailbox'): ms_get_mailbox,
    ('MailboxSet', 'add_mailbox'): _ms_raiser(ValueError),
    ('MailboxSet', 'delete_mailbox'): _ms_raiser(KeyError),
    ('MailboxSet', 'rename_mailbox'): _ms_raiser(KeyError, ValueError),
    ('MailboxSet', 'set_subscribed'): _ms_plain,
    ('MailboxSet', 'list_subscribed'): _ms_list,
    ('MailboxSet', 'list_mailboxes'): _ms_list,
    ('Mbx', 'update'): _mbx('flags', Msg),
    ('Mbx', 'delete'): _mbx('remove'),
    ('Mbx', 'claim_recent'): _mbx('claim'),
    ('Mbx', 'copy'): _mbx('copy/move'),
    ('Mbx', 'move'): _mbx('copy/move'),
    ('Mbx', 'append'): _mbx('append'),
    ('Mbx', 'update_selected'): _mbx('update_selected'),
    ('Mbx', 'get'): _mbx_get,
    ('Mbx', 'snapshot'): _mbx_snapshot,
    ('Mbx', 'cleanup'): lambda ex, frame, e, base: VNone(),
    ('Mbx', 'find_deleted'): _mbx_find_deleted,
    ('Mbx', 'find'): _mbx_find,
    ('SynchronizedMessages', 'get_all'): _sm_interpret,
    ('SynchronizedMessages', 'get_uids'): _sm_interpret,
    ('SessionFlags', 'add_recent'): _add_recent,
    ('SessionFlags', 'update'): _sess_update,
    ('PermanentFlags', 'intersect'): FL.perm_intersect,
}


def _getattr_hook():
    pass


def _opaque(name):
    S = RefS(name)

    def model(ex, frame, e, base=None):
        ex.eval_args(e, frame)
        return S.fresh(name.lower())
    return model


def _sel_ctor(ex, frame, e):
    """callee contract of SelectedMailbox.__init__ (`sel_init` below, proved on the real constructor), applied:
    (mailbox_id, readonly, permanent_flags, session_flags, selected_set=, lookup=) are kept as given, the new selection is
    neither deleted nor hiding expunges"""
    args, kw = ex.eval_args(e, frame)
    vals = {'_mailbox_id': args[0], '_readonly': ex.truth(args[1]), '_hide_expunged': VBool(False),
            '_is_deleted': VBool(False)}
    if isinstance(args[2], VRec):
        vals['_permanent_flags'] = args[2]
    if isinstance(args[3], VRec):
        vals['_session_flags'] = args[3]
    if 'lookup' in kw and isinstance(kw['lookup'], VRef):
        vals['_lookup'] = kw['lookup']
    return ex.st.new_record(SEL, 'new_selection', vals)


# ---- SelectedMailbox.__init__ itself: what _sel_ctor relies on (was an ASSUMED model until the last round)
_ANY = RefS('AnyObject')
_KWKEY = RefS('KwKey')
_PermObj, _SessObj, _SelSetObj = RefS('PermanentFlagsObj'), RefS('SessionFlagsObj'), RefS('SelSetObj')
SEL_NEW = RecS('SelectedMailbox', pyclass=(SELM.F, 'SelectedMailbox'), _hide_expunged=BOOL, _messages=_ANY,
               _session_flags=_SessObj, _silenced_flags=SetS(SELM.FK), _silenced_sflags=SetS(SELM.FK),
               _readonly=BOOL, _mailbox_id=Oid, _lookup=NameR, _permanent_flags=_PermObj, _is_deleted=BOOL,
               _mod_sequence=_ANY, _prev=_ANY, _selected_set=OptS(_SelSetObj), _kwargs=MapS(_KWKEY, _ANY))


def _init_none(ex, frame, e, base=None):
    ex.eval_args(e, frame)
    return VNone()


def _init_any(ex, frame, e, base=None):
    ex.eval_args(e, frame)
    return _ANY.fresh('object')


def _init_register(ex, frame, e, base=None):
    args, kw = ex.eval_args(e, frame)
    me = ex.frames[0].env['self']
    ex.oblige(f'{ex.c.name}/registers_itself_in_the_selected_set',
              z3.BoolVal(isinstance(args[0], VRec) and args[0].rid == me.rid))
    ex.st.ghost['registered'] = VBool(True)
    return VNone()


def _init_ghost(st, sc):
    st.ghost['registered'] = VBool(False)


sel_init = Contract(
    'C12', SELM.F, 'SelectedMailbox.__init__',
    params=dict(self=SEL_NEW, mailbox_id=Oid, readonly=BOOL, permanent_flags=_PermObj, session_flags=_SessObj,
                selected_set=OptS(_SelSetObj), lookup=NameR, kwargs=MapS(_KWKEY, _ANY)),
    ensures=[('keeps_the_mailbox_id', lambda s: s.self._mailbox_id == s.mailbox_id),
             ('keeps_readonly', lambda s: s.self._readonly == s.readonly),
             ('keeps_the_flag_objects', lambda s: (s.self._permanent_flags == s.permanent_flags) &
              (s.self._session_flags == s.session_flags)),
             ('keeps_the_lookup_name', lambda s: s.self._lookup == s.lookup),
             ('registered_exactly_when_a_selected_set_is_given',
              lambda s: s.ghost('registered') == ~is_none(s.selected_set)),
             ('starts_neither_deleted_nor_hiding_expunges', lambda s: ~s.self._is_deleted & ~s.self._hide_expunged)],
    # `**kwargs` of the real signature is a map from keyword to an opaque object (its three optional entries
    # _mod_sequence / _prev / _messages are not part of what the session contracts rely on); set() is the empty set,
    # SynchronizedMessages() an opaque object
    calls={'super().__init__': _init_none, 'kwargs.get': _init_any, 'set': lambda ex, frame, e, base=None: SetS(SELM.FK).empty(),
           'SynchronizedMessages': _init_any, 'selected_set.add': _init_register},
    ghost_init=_init_ghost, modifies=['self'], raises_only=(), returns=NoneS())
sel_init.str_consts = {'_messages': VRef(z3.Const('key:_messages', _KWKEY.z3()), _KWKEY)}


def _rec_ctor(sort):
    def model(ex, frame, e):
        ex.eval_args(e, frame)
        return ex.st.new_record(sort, sort.name.lower())
    return model


def _strictly_increasing(lst, acc):
    i = z3.Int(fresh_name('i'))
    return z3.ForAll([i], z3.Implies(z3.And(0 <= i, i + 1 < lst.n), acc(lst.arr[i]) < acc(lst.arr[i + 1])))


def _copyuid_ctor(ex, frame, e):
    args, kw = ex.eval_args(e, frame)
    if ex.c.policy.prop == 'C04':
        base = f'{ex.c.name}/CopyUid'
        uids, g = args[1], ex.st.ghost
        ex.oblige(f'{base}/gets_exactly_the_pairs_source_uid_returned_uid_in_call_order', _b(uids.eq(g['pairs'])))
        ex.oblige(f'{base}/sources_strictly_increasing', _strictly_increasing(uids, _P0))
        ex.oblige(f'{base}/destinations_strictly_increasing', _strictly_increasing(uids, _P1))
        ex.oblige(f'{base}/never_built_from_no_pairs', uids.n > 0)
        dest = frame.env.get('dest')
        ex.oblige(f'{base}/validity_is_the_destination_mailbox_s', _t(args[0]) == _t(ex.st.heap_get(dest, 'uid_validity')))
    return RefS('CopyUid').fresh('copyuid')


def _appenduid_ctor(ex, frame, e):
    args, kw = ex.eval_args(e, frame)
    if ex.c.policy.prop == 'C04':
        base = f'{ex.c.name}/AppendUid'
        ex.oblige(f'{base}/gets_exactly_the_uids_of_the_stored_messages_in_order', _b(args[1].eq(ex.st.ghost['stored'])))
        mbx = frame.env.get('mbx')
        ex.oblige(f'{base}/validity_is_the_mailbox_s', _t(args[0]) == _t(ex.st.heap_get(mbx, 'uid_validity')))
    return RefS('AppendUid').fresh('appenduid')


def _add_recent_site(ex, frame, e, base=None):
    """bound at the call site (not through the registry, which a property may override with the proved contract of
    SessionFlags.add_recent for its own purposes): the effect check must not be lost"""
    return _add_recent(ex, frame, e, base if base is not None else ex.eval(e.func.value, frame))


def _search_set(ex, frame, e, base=None):
    ex.eval_args(e, frame)
    r = RefS('SearchSet', sequence_set=RefS('SeqSetRef')).fresh('search')
    return r


CALLS = {
    'FetchRequirement.reduce': lambda ex, frame, e, base=None: RefS('Req').fresh('req'),
    'SearchParams': lambda ex, frame, e, base=None: (ex.eval_args(e, frame), RefS('SearchParams').fresh('params'))[1],
    'SearchCriteriaSet': _search_set,
    'search.matches': lambda ex, frame, e, base=None: (ex.eval_args(e, frame), BOOL.fresh('matches'))[1],
    'msg.load_content': lambda ex, frame, e, base=None: RefS('Loaded').fresh('loaded'),
    'dest_selected.session_flags.add_recent': _add_recent_site,
    'SelectedMailbox': _sel_ctor, 'PermanentFlags': _rec_ctor(FL.PermS), 'SessionFlags': _rec_ctor(FL.SessS),
    'AppendUid': _appenduid_ctor, 'CopyUid': _copyuid_ctor,
    'shield': lambda ex, frame, e: ex.eval(e.args[0], frame),
    'SequenceSet.all': lambda ex, frame, e: ex.st.new_record(SeqSetS, 'allset'),
    'frozenset': None,
}
del CALLS['frozenset']

INLINE = {'SelectedMailbox.set_deleted', 'BaseSession._get_selected', 'BaseSession._get_mailbox', 'BaseSession._pick_selected',
          'BaseSession._load_updates', 'PermanentFlags.__and__'}

# ResponseError classes a BaseSession method may answer NO with
from pymap.exceptions import MailboxNotFound, MailboxConflict, MailboxReadOnly, ResponseError  # noqa: E402


def _exit_policy(c):
    """C14: NO only before any effect.  C11/C06: nothing but ResponseError escapes."""
    if c.policy.prop == 'C14':
        return {ResponseError: [('no_effect_before_the_refusal', lambda s: ~s.ghost('effects'))],
                StorageFailure: [('multi_append_is_all_or_nothing', lambda s: (s.ghost('undone') == s.ghost('stored')) |
                                  (s.ghost('stored').len == 0))],
                __import__('asyncio').CancelledError: [('multi_append_is_all_or_nothing_when_cancelled', lambda s: (
                    s.ghost('undone') == s.ghost('stored')) | (s.ghost('stored').len == 0))]}
    return {ResponseError: []}


def make(prop):
    """the BaseSession contracts with the obligations of one property switched on"""
    pol = Policy(prop)
    P = dict(self=SESSION, selected=SEL)
    loop0 = {0: Loop(ghost=['effects', 'synced', 'last_recent_arg'])}
    append_loop = {0: Loop(ghost=['effects', 'synced', 'last_recent_arg', 'stored'], invariant=[
        ('uids_are_exactly_what_was_stored', lambda s: s.uids == s.ghost('stored'))])}
    copy_loop = loop0
    if prop == 'C04':
        def _pairs_inv(s):
            u, g = s.uids, s.ghost('pairs')
            j = z3.Int(fresh_name('j'))
            prev = _t(s.seq.elem(_t(s.k) - 1)[1])       # the uid addressed in the previous iteration
            return VBool(z3.And(
                _b(u.eq(g)), _strictly_increasing(u, _P0), _strictly_increasing(u, _P1),
                z3.ForAll([j], z3.Implies(z3.And(0 <= j, j < u.n), z3.And(
                    _P1(u.arr[j]) <= _t(s.ghost('last_dst')),
                    z3.And(_t(s.k) > 0, _P0(u.arr[j]) <= prev))))))
        copy_loop = {0: Loop(ghost=['effects', 'synced', 'last_recent_arg', 'pairs', 'last_dst'], invariant=[
            ('uids_are_the_pairs_so_far_both_columns_increasing', _pairs_inv)])}
    specs = [
        ('update_flags', dict(P, sequence_set=SeqSetS, flag_set=SetS(Flag), mode=FL.FlagOpS), loop0),
        ('expunge_mailbox', dict(P, uid_set=SeqSetS), {}),
        ('copy_messages', dict(P, sequence_set=SeqSetS, mailbox=NameR), copy_loop),
        ('move_messages', dict(P, sequence_set=SeqSetS, mailbox=NameR), copy_loop),
        ('fetch_messages', dict(P, sequence_set=SeqSetS, set_seen=BOOL), loop0),
        ('search_mailbox', dict(P, keys=RefS('SearchKeys')), loop0),
        ('append_messages', dict(self=SESSION, name=NameR, messages=ListS(AppendR), selected=SEL), append_loop),
        ('check_mailbox', dict(P, wait_on=NoneS(), housekeeping=BOOL), {}),
        ('select_mailbox', dict(self=SESSION, name=NameR, readonly=BOOL), {}),
        ('create_mailbox', dict(self=SESSION, name=NameR, selected=SEL), {}),
        ('delete_mailbox', dict(self=SESSION, name=NameR, selected=SEL), {}),
        ('rename_mailbox', dict(self=SESSION, before_name=NameR, after_name=NameR, selected=SEL), {}),
        ('get_mailbox', dict(self=SESSION, name=NameR, selected=SEL), {}),
    ]
    # the same methods with no mailbox selected (APPEND and the namespace commands are legal then)
    for name, params, loops in list(specs):
        if name in ('append_messages', 'create_mailbox', 'delete_mailbox', 'rename_mailbox', 'get_mailbox'):
            p2 = dict(params)
            p2['selected'] = NoneS()
            specs.append((name + '@nothing-selected', p2, loops))
    if prop == 'C04':
        specs = [x for x in specs if x[0].split('@')[0] in ('copy_messages', 'move_messages', 'append_messages')]
    out = []
    for name, params, loops in specs:
        variant = f'{prop}-effects'
        if '@' in name:
            name, tag = name.split('@')
            variant += '-' + tag
        c = Contract(prop, F, f'BaseSession.{name}', params=params, calls=CALLS, inline=INLINE,
                     requires=FL.CONSTS,
                     loops=loops, ghost_init=ghost_init, typemap={'MessageT': Msg},
                     globals={'Seen': FLAG_SEEN, 'FlagOp': FL.GLOBALS['FlagOp']},
                     variant=variant)
        if name == 'fetch_messages':
            # call-site precondition (established by ConnectionState.do_fetch, see contracts/state.py)
            c.requires = c.requires + [('set_seen_only_when_read_write',
                                        lambda s: implies(s.set_seen, ~s.selected._readonly))]
        c.policy = pol
        c.attr_models = {('SelSet', 'any_selected'): _any_selected}
        c.raises = _exit_policy(c)
        c.raises_only = (ResponseError, StorageFailure, __import__('asyncio').CancelledError) if prop == 'C14' else (ResponseError,)
        out.append(c)
    return out


