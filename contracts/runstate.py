"""Contract of IMAPConnection._run_state (pymap/imap/__init__.py): the loop that reads commands and answers them.

Everything the loop calls is abstract (the command parser, ConnectionState.do_*, the SASL exchange, IDLE, the transport):
each call may return or raise any of the exception classes the loop distinguishes -- ResponseError, AuthenticationError,
TimeoutError, CancelledError, ConnectionError, EOFError and "any other Exception" (RuntimeError stands for it).  What is
decided here is the CONTROL FLOW of the real source (try / except / else / finally nest inside `while True`):

  C06  every command that read_command() returned is answered: before the next command is read -- and before the loop is
       left for whatever reason -- exactly one response carrying that command's tag has been written, or the error
       disconnect (BYE) has been sent; never two tagged responses for one command; a response is never written for a
       command that was not read; state.do_cleanup() runs after every command; after a terminal response (BYE) no further
       command is read; an exception escapes only after the error disconnect was sent
  C05  do_authenticate -- which installs a session without passing do_command's gate -- is reached only while the state is
       not authenticated (AUTHENTICATE in any other state goes through do_command, whose refusal is proved in
       contracts/state.py); the SASL exchange is not even started otherwise

ASSUMED (stated): responses built by do_command / do_authenticate / idle carry the tag of the command they were given
(each do_* builds its response from cmd.tag); write_response swallows ConnectionError (its own try/except, 6 lines).
"""
import z3

from pyvc.values import *
from pyvc.values import _t, _b
from pyvc.engine import Contract, Loop, PyRaise, Unsupported

F = 'pymap/imap/__init__.py'

from asyncio import CancelledError  # noqa: E402
from pymap.exceptions import ResponseError  # noqa: E402
from pysasl.exception import AuthenticationError  # noqa: E402
from pymap.parsing.command.nonauth import AuthenticateCommand, StartTLSCommand  # noqa: E402
from pymap.parsing.command.select import IdleCommand  # noqa: E402
from pymap.parsing.response import ResponseOk  # noqa: E402

TagS = RefS('Tag')
CmdS = RefS('Command', tag=TagS, ckind=INT, mech_name=RefS('Bytes'))       # ckind: 0 other 1 AUTHENTICATE 2 IDLE 3 STARTTLS
RespS = RefS('Response', tag=TagS, is_bad=BOOL, is_terminal=BOOL, rkind=INT)    # rkind: 1 ResponseOk, 0 anything else
StateS = RefS('ConnState', authenticated=BOOL)
CoroS = RefS('Coro', kind=INT)          # 0 do_greeting 1 do_authenticate 2 do_command
CONN = RecS('IMAPConnection', pyclass=(F, 'IMAPConnection'), bad_command_limit=INT)
STAR = VRef(z3.Const('tag.*', TagS.z3()), TagS)

RAISES = (ResponseError, AuthenticationError, TimeoutError, CancelledError, ConnectionError, EOFError, RuntimeError)


def _cmd_isinstance(ex, ref, classes):
    k = ex.st.heap_get(ref, 'ckind').t
    r = z3.BoolVal(False)
    for c in classes:
        if c is AuthenticateCommand:
            r = z3.Or(r, k == 1)
        elif c is IdleCommand:
            r = z3.Or(r, k == 2)
        elif c is StartTLSCommand:
            r = z3.Or(r, k == 3)
        else:
            raise Unsupported(f'isinstance(cmd, {c.__name__})')
    return VBool(r)


def _resp_isinstance(ex, ref, classes):
    if classes == (ResponseOk,) or list(classes) == [ResponseOk]:
        return VBool(ex.st.heap_get(ref, 'rkind').t == 1)
    raise Unsupported(f'isinstance(response, {classes})')


CmdS.isinstance_hook = _cmd_isinstance
RespS.isinstance_hook = _resp_isinstance


def _ghost_init(st, sc):
    g = st.ghost
    g['pending'] = VBool(False)          # a command has been read and the loop has not finished with it
    g['cur_tag'] = STAR
    g['answered'] = VInt(z3.IntVal(0))   # tagged responses written for the pending command
    g['disconnected'] = VBool(False)     # the error disconnect (BYE) was sent
    g['cleanups'] = VInt(z3.IntVal(0))
    g['commands'] = VInt(z3.IntVal(0))
    g['terminal_sent'] = VBool(False)


def _may_raise(ex, classes):
    k = ex.choose(len(classes) + 1)
    if k > 0:
        raise PyRaise(classes[k - 1])


def _read_command(ex, frame, e, base=None):
    g = ex.st.ghost
    ex.oblige(f'{ex.c.name}/read_command/previous_command_was_answered',
              z3.Implies(_b(g['pending']), _t(g['answered']) == 1))
    ex.oblige(f'{ex.c.name}/read_command/cleanup_ran_after_every_command', _t(g['cleanups']) == _t(g['commands']))
    ex.oblige(f'{ex.c.name}/read_command/nothing_is_read_after_a_terminal_response', z3.Not(_b(g['terminal_sent'])))
    g['pending'] = VBool(False)
    _may_raise(ex, (ConnectionError, EOFError, CancelledError, RuntimeError))
    cmd = CmdS.fresh('cmd')
    k = ex.st.heap_get(cmd, 'ckind').t
    ex.assume(z3.And(k >= 0, k <= 3))
    ex.assume(ex.st.heap_get(cmd, 'tag').t != STAR.t)
    g['pending'] = VBool(True)
    g['cur_tag'] = ex.st.heap_get(cmd, 'tag')
    g['answered'] = VInt(z3.IntVal(0))
    g['commands'] = VInt(_t(g['commands']) + 1)
    return cmd


def _coro(kind):
    def model(ex, frame, e, base=None):
        args, kw = ex.eval_args(e, frame)
        state = base if base is not None else ex.eval(e.func.value, frame)
        if kind == 1:
            ex.oblige(f'{ex.c.name}/do_authenticate/only_while_not_authenticated',
                      z3.Not(_b(ex.st.heap_get(state, 'authenticated'))))
        c = CoroS.fresh('coro')
        ex.assume(ex.st.heap_get(c, 'kind').t == kind)
        ex.st.ghost['coro_cmd'] = args[0] if args else None
        return c
    return model


def _response_for(ex, tag):
    if not (isinstance(tag, VRef) and tag.sort.name == 'Tag'):
        tag = STAR          # b'*' : an untagged response
    r = RespS.fresh('response')
    ex.assume(ex.st.heap_get(r, 'tag').t == _t(tag))
    return r


def _exec(ex, frame, e, base=None):
    """self._exec(coro): runs the state method; the result carries the tag of the command it was given (ASSUMED)"""
    args, kw = ex.eval_args(e, frame)
    state = ex.frames[0].env['state']
    _may_raise(ex, RAISES)
    # a completed command may have changed the authentication state
    ex.st.heap_get(state, 'authenticated')
    key = ('ConnState', 'authenticated')
    ex.st.heap[key] = z3.Const(fresh_name('H.authenticated'), ex.st.heap[key].sort())
    cmd = ex.st.ghost.get('coro_cmd')
    if isinstance(cmd, VRef) and cmd.sort.name == 'Command':
        return _response_for(ex, ex.st.heap_get(cmd, 'tag'))
    # the greeting: do_greeting answers an untagged OK / PREAUTH, never a BYE (proved on the real method: contracts/state.py
    # `do_greeting`, part of C05), or raises -- a BYE greeting is built by the loop's own handler
    r = _response_for(ex, STAR)
    ex.assume(z3.Not(_b(ex.st.heap_get(r, 'is_terminal'))))
    return r


def _authenticate(ex, frame, e, base=None):
    """self.authenticate(state, mech): the SASL exchange (continuation requests and client responses)"""
    args, kw = ex.eval_args(e, frame)
    ex.oblige(f'{ex.c.name}/sasl_exchange/only_while_not_authenticated',
              z3.Not(_b(ex.st.heap_get(args[0], 'authenticated'))))
    _may_raise(ex, RAISES)
    return RefS('Creds').fresh('creds')


def _idle(ex, frame, e, base=None):
    args, kw = ex.eval_args(e, frame)
    _may_raise(ex, RAISES)
    return _response_for(ex, ex.st.heap_get(args[1], 'tag'))


def _write_response(ex, frame, e, base=None):
    args, kw = ex.eval_args(e, frame)
    g = ex.st.ghost
    resp = args[0]
    tag = ex.st.heap_get(resp, 'tag').t
    name = ex.c.name
    ex.oblige(f'{name}/write_response/a_tagged_response_only_for_the_command_just_read',
              z3.Or(tag == STAR.t, z3.And(_b(g['pending']), tag == _t(g['cur_tag']))))
    ex.oblige(f'{name}/write_response/never_a_second_tagged_response_for_one_command',
              z3.Or(tag == STAR.t, _t(g['answered']) == 0))
    ex.oblige(f'{name}/write_response/nothing_after_the_error_disconnect', z3.Not(_b(g['disconnected'])))
    g['answered'] = VInt(z3.If(tag == STAR.t, _t(g['answered']), _t(g['answered']) + 1))
    g['terminal_sent'] = VBool(z3.Or(_b(g['terminal_sent']), _b(ex.st.heap_get(resp, 'is_terminal'))))
    return VNone()


def _send_error_disconnect(ex, frame, e, base=None):
    ex.st.ghost['disconnected'] = VBool(True)
    ex.st.ghost['terminal_sent'] = VBool(True)
    return VNone()


def _do_cleanup(ex, frame, e, base=None):
    g = ex.st.ghost
    g['cleanups'] = VInt(_t(g['cleanups']) + 1)
    return VNone()


def _get_response(ex, frame, e, base=None):
    args, kw = ex.eval_args(e, frame)
    return _response_for(ex, args[0])


def _resp_ctor(bad, terminal, tagged=True):
    def model(ex, frame, e, base=None):
        args, kw = ex.eval_args(e, frame)
        r = _response_for(ex, args[0] if tagged else STAR)
        ex.assume(ex.st.heap_get(r, 'is_bad').t == bad)
        ex.assume(ex.st.heap_get(r, 'is_terminal').t == terminal)
        ex.assume(ex.st.heap_get(r, 'rkind').t == 0)
        return r
    return model


def _add_untagged(ex, frame, e, base=None):
    args, kw = ex.eval_args(e, frame)
    resp = base if base is not None else ex.eval(e.func.value, frame)
    key = ('Response', 'is_terminal')
    ex.st.heap_get(resp, 'is_terminal')
    new = z3.Or(z3.Select(ex.st.heap[key], resp.t), _b(ex.st.heap_get(args[0], 'is_terminal')))
    ex.st.heap[key] = z3.Store(ex.st.heap[key], resp.t, new)
    return VNone()


def _start_tls(ex, frame, e, base=None):
    import ssl
    _may_raise(ex, (ConnectionError, ssl.SSLError))
    return VNone()


def _opaque(sort_name):
    S = RefS(sort_name)

    def model(ex, frame, e, base=None):
        ex.eval_args(e, frame)
        return S.fresh(sort_name.lower())
    return model


def _noop(ex, frame, e, base=None):
    ex.eval_args(e, frame)
    return VNone()


def _exit_clauses():
    return [
        ('every_command_read_was_answered_or_the_error_disconnect_was_sent', lambda s: VBool(z3.Implies(
            _b(s.ghost('pending')), z3.Or(_t(s.ghost('answered')) == 1, _b(s.ghost('disconnected')))))),
        ('cleanup_ran_after_every_command', lambda s: VBool(_t(s.ghost('cleanups')) == _t(s.ghost('commands')))),
    ]


_loop_inv = [
    ('previous_command_was_answered', lambda s: VBool(z3.Implies(_b(s.ghost('pending')), _t(s.ghost('answered')) == 1))),
    ('cleanup_ran_after_every_command', lambda s: VBool(_t(s.ghost('cleanups')) == _t(s.ghost('commands')))),
    ('still_connected', lambda s: VBool(z3.And(z3.Not(_b(s.ghost('disconnected'))), z3.Not(_b(s.ghost('terminal_sent')))))),
    ('bad_commands_counted', lambda s: s.bad_commands >= 0),
]

run_state = Contract(
    'C06', F, 'IMAPConnection._run_state', params=dict(self=CONN, state=StateS), ghost_init=_ghost_init,
    requires=[('limit', lambda s: s.self.bad_command_limit >= 0)],
    ensures=_exit_clauses(),
    raises={E: _exit_clauses() + [('an_exception_escapes_only_after_the_error_disconnect_or_before_any_command_was_read',
                                   lambda s: VBool(z3.Or(_b(s.ghost('disconnected')), _t(s.ghost('commands')) == 0)))]
            for E in RAISES},
    raises_only=RAISES,
    loops={0: Loop(invariant=_loop_inv,
                   ghost=['pending', 'cur_tag', 'answered', 'disconnected', 'cleanups', 'commands', 'terminal_sent'])},
    calls={
        'self.read_command': _read_command, 'self._exec': _exec, 'self.authenticate': _authenticate, 'self.idle': _idle,
        'self.write_response': _write_response, 'self.send_error_disconnect': _send_error_disconnect,
        'self.start_tls': _start_tls, 'self._print': _noop,
        'state.do_greeting': _coro(0), 'state.do_authenticate': _coro(1), 'state.do_command': _coro(2),
        'state.do_cleanup': _do_cleanup,
        'exc.get_response': _get_response,
        'ResponseBad': _resp_ctor(True, False), 'ResponseNo': _resp_ctor(False, False),
        'ResponseBye': _resp_ctor(False, True, tagged=False), 'ResponseCode.of': _opaque('Code'),
        'response.add_untagged': _add_untagged,
        'current_command.set': _opaque('Token'), 'current_command.reset': _noop,
        'bytes': _opaque('Bytes'), 'str': _opaque('Str'),
    },
    note='control flow of the command loop over abstract callees that may raise anything the loop distinguishes')
run_state.attr_models = {('Response', 'condition'): lambda ex, frame, ref: RefS('Cond').fresh('cond')}


def _set_condition(ex, frame, resp, value):
    """resp.condition = ResponseBye.condition: the response becomes a BYE, i.e. terminal"""
    key = ('Response', 'is_terminal')
    ex.st.heap_get(resp, 'is_terminal')
    ex.st.heap[key] = z3.Store(ex.st.heap[key], resp.t, z3.BoolVal(True))


run_state.store_models = {('Response', 'condition'): _set_condition}

CONTRACTS = [run_state]
REG = {}


# ---- IMAPConnection.handle_updates (IDLE): no batch of updates is dropped
#
# state.receive_updates() applies the pending changes to the selection and FORKS it: the untagged responses it returns
# exist only in that return value -- a batch that is not written is lost for good (the next fork compares with the new
# state).  So: every batch received is handed to write_updates, under shield, before done is looked at again.
BatchS = RefS('UntaggedBatch')


def _hu_ghost(st, sc):
    st.ghost['received'] = VInt(z3.IntVal(0))
    st.ghost['written'] = VInt(z3.IntVal(0))
    st.ghost['last_batch'] = BatchS.fresh('none')
    st.ghost['shielded'] = VBool(False)


def _hu_exec(ex, frame, e, base=None):
    ex.eval_args(e, frame)
    _may_raise(ex, RAISES)
    b = BatchS.fresh('batch')
    g = ex.st.ghost
    g['received'] = VInt(_t(g['received']) + 1)
    g['last_batch'] = b
    return b


def _hu_write_updates(ex, frame, e, base=None):
    args, kw = ex.eval_args(e, frame)
    g = ex.st.ghost
    ex.oblige(f'{ex.c.name}/write_updates/writes_the_batch_just_received', _t(args[0]) == _t(g['last_batch']))
    g['written'] = VInt(_t(g['written']) + 1)
    return RefS('Coro').fresh('write_coro')


def _hu_shield(ex, frame, e, base=None):
    args, kw = ex.eval_args(e, frame)
    ex.oblige(f'{ex.c.name}/shield/the_write_is_shielded_from_cancellation',
              z3.BoolVal(isinstance(args[0], VRef) and args[0].sort.name == 'Coro'))
    return VNone()


_hu_inv = [('every_batch_received_was_written', lambda s: VBool(_t(s.ghost('received')) == _t(s.ghost('written'))))]

handle_updates = Contract(
    'C16', F, 'IMAPConnection.handle_updates', params=dict(self=CONN, state=StateS, done=RefS('Event'), cmd=CmdS),
    ghost_init=_hu_ghost, ensures=_hu_inv, raises={E: _hu_inv for E in RAISES}, raises_only=RAISES,
    loops={0: Loop(invariant=_hu_inv, ghost=['received', 'written', 'last_batch'])},
    calls={'done.is_set': lambda ex, frame, e, base=None: BOOL.fresh('done'), 'self._exec': _hu_exec,
           'state.receive_updates': _opaque('Coro'), 'self.write_updates': _hu_write_updates, 'shield': _hu_shield},
    note='a batch returned by receive_updates is never discarded, whatever `done` says in between')

CONTRACTS_IDLE = [handle_updates]


# ---- IMAPConnection.idle: DONE (or anything else the client sends, or a failure of either task) ends IDLE
#
# Two tasks run while idling: handle_updates (loops until `done` is set) and read_idle_done (returns when the client sent a
# line).  Ordering obligations: `done.set()` happens on EVERY path before the updates task is awaited (otherwise that await
# never returns), both tasks have been awaited before idle() returns or raises (no task is left behind), the continuation
# request is written exactly once and only after do_command accepted IDLE, the final response carries the command's tag.
TaskS = RefS('Task', tkind=INT)          # 1 updates task, 2 done task


def _idle_ghost(st, sc):
    g = st.ghost
    g['done_set'] = VBool(False)
    g['awaited_updates'] = VBool(False)
    g['awaited_done'] = VBool(False)
    g['continuation_written'] = VInt(z3.IntVal(0))
    g['tasks_started'] = VBool(False)
    g['accepted'] = VBool(False)
    g['coro_cmd'] = None


def _idle_exec(ex, frame, e, base=None):
    ex.eval_args(e, frame)
    _may_raise(ex, RAISES)
    r = _response_for(ex, ex.st.heap_get(ex.frames[0].env['cmd'], 'tag'))
    ex.st.ghost['accepted'] = VBool(ex.st.heap_get(r, 'rkind').t == 1)
    return r


def _idle_write(ex, frame, e, base=None):
    args, kw = ex.eval_args(e, frame)
    g = ex.st.ghost
    g['continuation_written'] = VInt(_t(g['continuation_written']) + 1)
    return VNone()


def _create_task(ex, frame, e, base=None):
    args, kw = ex.eval_args(e, frame)
    ex.oblige(f'{ex.c.name}/create_task/idling_only_after_do_command_answered_ok', _b(ex.st.ghost['accepted']))
    ex.oblige(f'{ex.c.name}/create_task/the_continuation_request_was_written_first',
              _t(ex.st.ghost['continuation_written']) == 1)
    ex.st.ghost['tasks_started'] = VBool(True)
    return args[0]


def _task(kind):
    def model(ex, frame, e, base=None):
        ex.eval_args(e, frame)
        t = TaskS.fresh('task')
        ex.assume(ex.st.heap_get(t, 'tkind').t == kind)
        return t
    return model


def _await_task(ex, frame, task):
    g = ex.st.ghost
    k = ex.st.heap_get(task, 'tkind').t
    if ex.decide(VBool(k == 1)):
        ex.oblige(f'{ex.c.name}/await_updates_task/done_was_set_before', _b(g['done_set']))
        g['awaited_updates'] = VBool(True)
        _may_raise(ex, (ResponseError, ConnectionError, EOFError, RuntimeError))
        return VNone()
    g['awaited_done'] = VBool(True)
    _may_raise(ex, (ConnectionError, EOFError, RuntimeError))
    return BOOL.fresh('ok')


TaskS.await_hook = _await_task


def _done_set(ex, frame, e, base=None):
    ex.st.ghost['done_set'] = VBool(True)
    return VNone()


def _idle_exit(tagged):
    def no_task_left(s):
        g = s._st.ghost
        return VBool(z3.Implies(_b(g['tasks_started']), z3.And(_b(g['awaited_updates']), _b(g['awaited_done']), _b(g['done_set']))))
    out = [('both_tasks_were_awaited_and_done_was_set', no_task_left),
           ('at_most_one_continuation_request', lambda s: VBool(_t(s.ghost('continuation_written')) <= 1))]
    if tagged:
        out.append(('the_answer_carries_the_tag_of_the_idle_command', lambda s: s.wrap(s.result).tag == s.cmd.tag))
        out.append(('idling_only_after_do_command_accepted', lambda s: VBool(z3.Implies(
            _b(s.ghost('tasks_started')), _t(s.ghost('continuation_written')) == 1))))
    return out


idle = Contract(
    'C16', F, 'IMAPConnection.idle', params=dict(self=CONN, state=StateS, cmd=CmdS), returns=RespS, ghost_init=_idle_ghost,
    ensures=_idle_exit(True), raises={E: _idle_exit(False) for E in RAISES}, raises_only=RAISES,
    calls={'self._exec': _idle_exec, 'state.do_command': _opaque('Coro'), 'self.write_response': _idle_write,
           'ResponseContinuation': _opaque('Continuation'), 'subsystem.get().new_event': _opaque('Event'),
           'asyncio.create_task': _create_task, 'self.handle_updates': _task(1), 'self.read_idle_done': _task(2),
           'done.set': _done_set, 'ResponseBad': _resp_ctor(True, False)},
    note='create_task is modelled as handing back the task; awaiting it gives its result or its exception (CancelledError '
         'is a BaseException and is not caught by `except Exception`: it propagates, which the raises clauses cover)')
CONTRACTS_IDLE = [handle_updates, idle]


# ---- IMAPConnection.authenticate: the SASL exchange (C09 / C06)
#
# The mechanism (pysasl) is abstract: server_attempt(responses) returns (creds, final) or raises ServerChallenge /
# UnicodeError.  Decided: the credentials handed back are exactly what the mechanism returned for the list of responses;
# that list only ever grows by (challenge data, base64-decoded client line) for a line that was read AFTER the challenge
# was written; a `*` line or undecodable base64 ends the exchange with AuthenticationError (which _run_state answers BAD)
# before anything is appended; no other exception class is produced by the function itself; an unknown mechanism gives None
# without any I/O.
import binascii  # noqa: E402
from pysasl.mechanism import ServerChallenge  # noqa: E402

MechS = RefS('Mech')
BytesS = RefS('Bytes')
CredsS = RefS('Creds')
RespItem = RefS('ChallengeResponse')
IO_RAISES = (ConnectionError, EOFError, CancelledError)


def _auth_ghost(st, sc):
    g = st.ghost
    g['written'] = VInt(z3.IntVal(0))       # continuation requests written
    g['read'] = VInt(z3.IntVal(0))          # client lines read
    g['appended'] = VInt(z3.IntVal(0))
    g['mech_creds'] = OptS(CredsS).none()
    g['attempts'] = VInt(z3.IntVal(0))
    g['last_line_decoded'] = VBool(False)
    g['cancelled'] = VBool(False)
    g['appended_before_line'] = VInt(z3.IntVal(0))


def _get_server(ex, frame, e, base=None):
    ex.eval_args(e, frame)
    return OptS(MechS).fresh('mech')


def _server_attempt(ex, frame, e, base=None):
    args, kw = ex.eval_args(e, frame)
    g = ex.st.ghost
    ex.oblige(f'{ex.c.name}/server_attempt/gets_the_responses_collected_so_far',
              _t(args[0].len) == _t(g['appended']))
    g['attempts'] = VInt(_t(g['attempts']) + 1)
    k = ex.choose(3)
    if k == 1:
        raise PyRaise(ServerChallenge)
    if k == 2:
        raise PyRaise(UnicodeError)
    creds = OptS(CredsS).fresh('creds')
    g['mech_creds'] = creds
    return VTuple([creds, OptS(BytesS).fresh('final')])


def _auth_write(ex, frame, e, base=None):
    ex.eval_args(e, frame)
    g = ex.st.ghost
    g['written'] = VInt(_t(g['written']) + 1)
    return VNone()


def _read_continuation(ex, frame, e, base=None):
    ex.eval_args(e, frame)
    g = ex.st.ghost
    ex.oblige(f'{ex.c.name}/read_continuation/only_after_a_continuation_request', _t(g['written']) == _t(g['read']) + 1)
    _may_raise(ex, IO_RAISES)
    g['read'] = VInt(_t(g['read']) + 1)
    g['last_line_decoded'] = VBool(False)
    g['appended_before_line'] = g['appended']
    return BytesS.fresh('line')


def _b64decode(ex, frame, e, base=None):
    ex.eval_args(e, frame)
    if ex.choose(2) == 1:
        raise PyRaise(binascii.Error)
    ex.st.ghost['last_line_decoded'] = VBool(True)
    return BytesS.fresh('decoded')


def _challenge_response(ex, frame, e, base=None):
    ex.eval_args(e, frame)
    g = ex.st.ghost
    ex.oblige(f'{ex.c.name}/ChallengeResponse/from_a_line_that_was_decoded_and_is_not_the_cancel_line',
              z3.And(_b(g['last_line_decoded']), z3.Not(_b(g['cancelled']))))
    g['appended'] = VInt(_t(g['appended']) + 1)
    g['appended_before_line'] = g['appended']        # the line has been dealt with
    return RespItem.fresh('item')


def _auth_equal(ex, a, b):
    """resp_bytes.rstrip(b'\\r\\n') == b'*' : the cancel line or not"""
    if (isinstance(a, VRef) and a.sort.name == 'Bytes') or (isinstance(b, VRef) and b.sort.name == 'Bytes'):
        c = BOOL.fresh('is_cancel_line')
        ex.st.ghost['cancelled'] = c
        return c
    return None


def _opt_term(v):
    return OptS(CredsS).none().t if isinstance(v, VNone) else _t(v)


_auth_inv = [
    ('no_line_is_pending_between_rounds', lambda s: VBool(z3.And(
        _t(s.ghost('appended')) == _t(s.ghost('appended_before_line')), _t(s.ghost('attempts')) >= 0))),
    ('one_line_read_per_challenge_written', lambda s: VBool(_t(s.ghost('written')) == _t(s.ghost('read')))),
    ('responses_are_the_decoded_lines', lambda s: VBool(z3.And(_t(s.responses.len) == _t(s.ghost('appended')),
                                                                 _t(s.ghost('appended')) <= _t(s.ghost('read'))))),
]

authenticate = Contract(
    'C09', F, 'IMAPConnection.authenticate', params=dict(self=CONN, state=RefS('ConnState2', auth=RefS('Auth')), mech_name=BytesS),
    returns=OptS(CredsS), ghost_init=_auth_ghost, typemap={'ChallengeResponse': RespItem},
    ensures=[('credentials_are_exactly_what_the_mechanism_returned',
              lambda s: VBool(z3.Or(_t(s.ghost('attempts')) == 0, _opt_term(s.result) == _opt_term(s.ghost('mech_creds'))))),
             ('unknown_mechanism_gives_none_without_io', lambda s: VBool(z3.Implies(
                 _t(s.ghost('attempts')) == 0,
                 z3.And(_b(is_none(s.result)), _t(s.ghost('written')) == 0, _t(s.ghost('read')) == 0))))],
    raises={AuthenticationError: [('nothing_appended_for_the_failing_line', lambda s: VBool(
        _t(s.ghost('appended')) == _t(s.ghost('appended_before_line'))))]},
    raises_only=(AuthenticationError,) + IO_RAISES,
    loops={0: Loop(invariant=_auth_inv, ghost=['written', 'read', 'appended', 'mech_creds', 'attempts', 'last_line_decoded',
                                               'cancelled', 'appended_before_line'])},
    calls={'state.auth.get_server': _get_server, 'mech.server_attempt': _server_attempt,
           'b64encode': _opaque('Bytes'), 'ResponseContinuation': _opaque('Continuation'),
           'self.write_response': _auth_write, 'self.read_continuation': _read_continuation,
           'bytes': lambda ex, frame, e, base=None: ex.eval(e.args[0], frame),
           'resp_bytes.rstrip': _opaque('Bytes'), 'b64decode': _b64decode, 'ChallengeResponse': _challenge_response,
           'AuthenticationError': None},
    note='pysasl mechanisms are abstract; termination of the exchange depends on the mechanism and is not claimed')
del authenticate.calls['AuthenticationError']
authenticate.equal_model = _auth_equal
CONTRACTS_AUTH = [authenticate]


# ---- IMAPConnection._interrupt / read_command: literals that need a continuation (C06 / C18)
#
# Commands.parse raises ParsingInterrupt when a {n} literal needs the rest of the command from the client (its contract
# is in contracts/total.py: nothing else escapes it).  Decided here: _interrupt writes exactly one continuation request
# and then reads exactly the announced number of bytes, which it appends to the continuations; anything else it was asked
# for is a TypeError.  read_command parses the SAME line again with all continuations read so far (one more per round) and
# returns the command of the first parse that completes; it writes nothing but the continuation requests.
from pymap.parsing.state import ParsingInterrupt  # noqa: E402
from pymap.parsing.state import ExpectContinuation  # noqa: E402

ExpectedS = RefS('Expected', ekind=INT, message=BytesS, literal_length=INT)      # ekind 1: ExpectContinuation
InterruptS = RefS('Interrupt', expected=ExpectedS)
ViewS = RefS('MemoryView')


def _expected_isinstance(ex, ref, classes):
    if list(classes) == [ExpectContinuation]:
        return VBool(ex.st.heap_get(ref, 'ekind').t == 1)
    raise Unsupported(f'isinstance(expected, {classes})')


ExpectedS.isinstance_hook = _expected_isinstance


def _int_ghost(st, sc):
    st.ghost['written'] = VInt(z3.IntVal(0))
    st.ghost['read'] = VInt(z3.IntVal(0))
    st.ghost['read_len'] = VInt(z3.IntVal(-1))
    st.ghost['last_view'] = ViewS.fresh('none')


def _int_write(ex, frame, e, base=None):
    ex.eval_args(e, frame)
    g = ex.st.ghost
    ex.oblige(f'{ex.c.name}/write_response/before_the_read', _t(g['read']) == 0)
    g['written'] = VInt(_t(g['written']) + 1)
    return VNone()


def _int_read(ex, frame, e, base=None):
    args, kw = ex.eval_args(e, frame)
    g = ex.st.ghost
    ex.oblige(f'{ex.c.name}/read_continuation/after_the_continuation_request', _t(g['written']) == 1)
    _may_raise(ex, IO_RAISES)
    g['read'] = VInt(_t(g['read']) + 1)
    g['read_len'] = VInt(_t(args[0]))
    v = ViewS.fresh('literal')
    g['last_view'] = v
    return v


interrupt = Contract(
    'C06', F, 'IMAPConnection._interrupt',
    params=dict(self=CONN, state=StateS, interrupt=InterruptS, continuations=ListS(ViewS)), ghost_init=_int_ghost,
    ensures=[('one_request_then_one_read_of_the_announced_length', lambda s: VBool(z3.And(
        _t(s.ghost('written')) == 1, _t(s.ghost('read')) == 1,
        _t(s.ghost('read_len')) == _t(s.wrap(s.interrupt.expected).literal_length)))),
        ('the_bytes_read_are_appended_to_the_continuations', lambda s: VBool(z3.And(
            _t(s.continuations.len) == _t(s.old.continuations.len) + 1,
            _t(s.continuations[s.old.continuations.len]) == _t(s.ghost('last_view'))))),
        ('earlier_continuations_untouched', lambda s: forall(lambda i: implies(
            (i >= 0) & (i < s.old.continuations.len), VBool(_t(s.continuations[i]) == _t(s.old.continuations[i])))))],
    raises={TypeError: [('nothing_written_or_read_for_an_unknown_request', lambda s: VBool(z3.And(
        _t(s.ghost('written')) == 0, _t(s.ghost('read')) == 0)))]},
    raises_only=(TypeError,) + IO_RAISES,
    calls={'ResponseContinuation': _opaque('Continuation'), 'self.write_response': _int_write,
           'self.read_continuation': _int_read},
    modifies=['continuations'])
CONTRACTS_READ = [interrupt]


def _rc_ghost(st, sc):
    g = st.ghost
    g['interrupts'] = VInt(z3.IntVal(0))
    g['parses'] = VInt(z3.IntVal(0))
    g['ps_len'] = VInt(z3.IntVal(-1))
    g['line'] = BytesS.fresh('noline')
    g['parsed_cmd'] = CmdS.fresh('nocmd')


def _rc_readline(ex, frame, e, base=None):
    _may_raise(ex, IO_RAISES)
    ln = BytesS.fresh('line')
    ex.st.ghost['line'] = ln
    return ln


def _rc_parsing_state(ex, frame, e, base=None):
    args, kw = ex.eval_args(e, frame)
    conts = kw['continuations']
    ex.st.ghost['ps_len'] = VInt(_t(conts.len))
    return RefS('ParsingState').fresh('pstate')


def _rc_parse(ex, frame, e, base=None):
    args, kw = ex.eval_args(e, frame)
    g = ex.st.ghost
    ex.oblige(f'{ex.c.name}/parse/always_the_line_that_was_read', _t(args[0]) == _t(g['line']))
    ex.oblige(f'{ex.c.name}/parse/with_every_continuation_read_so_far', _t(g['ps_len']) == _t(g['interrupts']))
    g['parses'] = VInt(_t(g['parses']) + 1)
    if ex.choose(2) == 1:
        raise PyRaise(ParsingInterrupt)
    cmd = CmdS.fresh('cmd')
    g['parsed_cmd'] = cmd
    return VTuple([cmd, BytesS.fresh('rest')])


def _rc_interrupt(ex, frame, e, base=None):
    """self._interrupt through its proved contract: one more continuation at the end of the list, or an exception"""
    args, kw = ex.eval_args(e, frame)
    _may_raise(ex, (TypeError,) + IO_RAISES)
    g = ex.st.ghost
    g['interrupts'] = VInt(_t(g['interrupts']) + 1)
    conts = frame.env['conts']
    from pyvc.engine import Alias
    cur = ex.st.read(conts.loc) if isinstance(conts, Alias) else conts
    new = cur.append(ViewS.fresh('literal'))
    if isinstance(conts, Alias):
        ex.st.write(conts.loc, new)
    elif getattr(cur, 'loc', None) is not None:
        ex.st.write(cur.loc, new)
    else:
        frame.env['conts'] = new
    return VNone()


_rc_inv = [('one_continuation_per_interrupt', lambda s: VBool(z3.And(
    _t(s.conts.len) == _t(s.ghost('interrupts')), _t(s.ghost('parses')) == _t(s.ghost('interrupts')),
    _t(s.ghost('interrupts')) >= 0)))]

read_command = Contract(
    'C06', F, 'IMAPConnection.read_command', params=dict(self=CONN, state=StateS), returns=CmdS, ghost_init=_rc_ghost,
    typemap={'memoryview': ViewS},
    ensures=[('returns_the_command_of_the_parse_that_completed', lambda s: VBool(_t(s.result) == _t(s.ghost('parsed_cmd')))),
             ('one_parse_per_interrupt_plus_the_final_one', lambda s: VBool(
                 _t(s.ghost('parses')) == _t(s.ghost('interrupts')) + 1))],
    raises_only=(TypeError,) + IO_RAISES,
    loops={0: Loop(invariant=_rc_inv, ghost=['interrupts', 'parses', 'ps_len', 'parsed_cmd'])},
    calls={'self.readline': _rc_readline, 'ParsingState': _rc_parsing_state, 'self.params.copy': _opaque('Params'),
           'self.commands.parse': _rc_parse, 'self._interrupt': _rc_interrupt},
    note='Commands.parse: only ParsingInterrupt escapes it (contracts/total.py); _interrupt through its contract')
CONTRACTS_READ = [interrupt, read_command]


# ---- IMAPConnection.readline: a non-synchronising literal is opaque
#
# readline() assembles a command line with its {n+} literals: line, n octets, rest of the line, ...  Whether ANOTHER
# literal follows is announced by the END OF THE LINE JUST READ; the octets of a literal are data and must never be
# looked at for that.  Bytes are opaque here; every value carries a ghost tag -- `the line read last`, `a copy of it`, or
# `accumulated` (something was appended) -- and the obligation sits on every test for the announcement (endswith(b'+}..')
# and the _literal_plus regex): it looks at the line read last, or at an unextended copy of it.
BufS = RefS('Buf')


def _rl_ghost(st, sc):
    st.ghost['lines_read'] = VInt(z3.IntVal(0))
    st.ghost['literals_read'] = VInt(z3.IntVal(0))
    st.ghost['last_line'] = BufS.fresh('noline')


def _rl_readline(ex, frame, e, base=None):
    _may_raise(ex, IO_RAISES)
    g = ex.st.ghost
    ln = BufS.fresh('line')
    g['last_line'] = ln
    g['lines_read'] = VInt(_t(g['lines_read']) + 1)
    return ln


def _rl_readexactly(ex, frame, e, base=None):
    ex.eval_args(e, frame)
    _may_raise(ex, IO_RAISES)
    g = ex.st.ghost
    g['literals_read'] = VInt(_t(g['literals_read']) + 1)
    return BufS.fresh('literal')


def _rl_binop(ex, op, a, b):
    import ast as _a
    if isinstance(op, _a.Add) and isinstance(a, VRef) and a.sort.name == 'Buf':
        return BufS.fresh('accumulated')
    return None


def _marker_test(kind):
    def model(ex, frame, e, base=None):
        import ast as _a
        subject = ex.eval(e.func.value, frame) if kind == 'endswith' else ex.eval(e.args[0], frame)
        arg = e.args[0].value if kind == 'endswith' and isinstance(e.args[0], _a.Constant) else None
        if kind == 'search' or (isinstance(arg, bytes) and arg.startswith(b'+}')):
            ex.oblige(f'{ex.c.name}/literal_announcement_test/looks_only_at_the_line_read_last_never_at_literal_data',
                      _t(subject) == _t(ex.st.ghost['last_line']))
        if kind == 'search':
            return OptS(RefS('Match')).fresh('match')
        return BOOL.fresh('endswith')
    return model


def _rl_inv(s):
    out = _t(s.ghost('lines_read')) == _t(s.ghost('literals_read')) + 1
    try:
        line = s.line
    except AttributeError:
        return VBool(out)           # an implementation without a `line` local: the tests will have to justify themselves
    return VBool(z3.And(out, _t(line) == _t(s.ghost('last_line'))))


readline = Contract(
    'C06', F, 'IMAPConnection.readline', params=dict(self=CONN), returns=RefS('MemoryView'), ghost_init=_rl_ghost,
    raises_only=(EOFError,) + IO_RAISES,
    ensures=[('one_more_line_than_literals', lambda s: VBool(_t(s.ghost('lines_read')) == _t(s.ghost('literals_read')) + 1))],
    loops={0: Loop(invariant=[('one_more_line_than_literals_and_line_is_the_line_read_last', _rl_inv)],
                   ghost=['lines_read', 'literals_read', 'last_line'])},
    calls={'self.reader.readline': _rl_readline, 'self.reader.readexactly': _rl_readexactly,
           'bytearray': lambda ex, frame, e, base=None: (ex.eval_args(e, frame), BufS.fresh('bytearray'))[1],
           'buf.endswith': _marker_test('endswith'), 'line.endswith': _marker_test('endswith'),
           'self._literal_plus.search': _marker_test('search'),
           'lit_plus.group': _opaque('Bytes'), 'len': lambda ex, frame, e, base=None: INT.fresh('len'),
           'int': lambda ex, frame, e, base=None: INT.fresh('n'), 'memoryview': _opaque('MemoryView'), 'self._print': _noop},
    note='bytes are opaque: only WHICH value each test for a literal announcement looks at is decided')
readline.binop_model = _rl_binop
CONTRACTS_READ = [interrupt, read_command, readline]


# ---- IMAPConnection.start_tls: plain text sent ahead of the handshake is discarded (C09)
def _stls_ghost(st, sc):
    st.ghost['buffer_cleared'] = VBool(False)
    st.ghost['handshake_started_with_clean_buffer'] = VBool(False)


def _stls_clear(ex, frame, e, base=None):
    ex.st.ghost['buffer_cleared'] = VBool(True)
    return VNone()


def _stls_handshake(ex, frame, e, base=None):
    ex.eval_args(e, frame)
    ex.oblige(f'{ex.c.name}/handshake/what_was_buffered_in_plain_text_has_been_discarded', _b(ex.st.ghost['buffer_cleared']))
    ex.st.ghost['handshake_started_with_clean_buffer'] = ex.st.ghost['buffer_cleared']
    import ssl
    _may_raise(ex, (ConnectionError, ssl.SSLError))
    return VNone()


start_tls = Contract(
    'C09', F, 'IMAPConnection.start_tls', params=dict(self=RecS('IMAPConnection2', pyclass=(F, 'IMAPConnection'),
                                                                   config=RefS('Config', ssl_context=RefS('SSLContext')))),
    ghost_init=_stls_ghost, calls={'self.reader._buffer.clear': _stls_clear, 'self.writer.start_tls': _stls_handshake,
                                   'self._print': _noop},
    ensures=[('the_handshake_started_on_an_empty_read_buffer', lambda s: s.ghost('handshake_started_with_clean_buffer'))],
    raises_only=(ConnectionError, __import__('ssl').SSLError),
    note='a LOGIN pipelined behind STARTTLS in the same plain-text segment is never read as if it had arrived protected')
CONTRACTS_AUTH = [authenticate, start_tls]
