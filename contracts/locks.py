"""Contracts of pymap/concurrent.py for C20.

FileLock.write_lock / read_lock (async generators used through @asynccontextmanager): ghost `held` is set when
_try_lock() grants the lock file and cleared by _unlock(); the `yield` (the critical section) may raise anything
(an exception in the body, a cancellation).  Obligations: the critical section is only entered while `held`; on
EVERY exit of the generator -- normal, TimeoutError, or an exception coming out of the critical section -- a
granted lock has been released; between two attempts the lock is not held.

_AsyncioReadWriteLock: the sequential contracts of _acquire_read / _release_read (count bookkeeping) are proved
here; mutual exclusion under all interleavings and cancellation is the bounded exploration (harness/e2e_locks.py).
"""
import z3

from pyvc.values import *
from pyvc.values import _b, _t
from pyvc.engine import Contract, Loop, PyRaise, SeqView

F = 'pymap/concurrent.py'
FLOCK = RecS('FileLock', pyclass=(F, 'FileLock'), _path=RefS('Path'), _write_retry_delay=ListS(RefS('Delay')),
             _read_retry_delay=ListS(RefS('Delay')))


class BodyFailure(Exception):
    """whatever the critical section raises (includes cancellation)"""


def _ghost_init(st, sc):
    st.ghost['held'] = VBool(False)
    st.ghost['entered_cs'] = VBool(False)


def _try_lock(ex, frame, e, base):
    r = BOOL.fresh('granted')
    ex.oblige(f'{ex.c.name}/try_lock/not_while_already_holding', z3.Not(_b(ex.st.ghost['held'])))
    ex.st.ghost['held'] = VBool(z3.Or(_b(ex.st.ghost['held']), r.t))
    return r


def _check_lock(ex, frame, e, base):
    return BOOL.fresh('free')


def _unlock(ex, frame, e, base):
    ex.st.ghost['held'] = VBool(False)
    return VNone()


def _sleep(ex, frame, e):
    ex.oblige(f'{ex.c.name}/sleep/lock_not_held_while_waiting_to_retry', z3.Not(_b(ex.st.ghost['held'])))
    return VNone()


def _delays(ex, frame, ref):
    l = ListS(RefS('Delay')).fresh('delays')
    ex.assume(l.n >= 0)
    return l


def _on_yield(kind):
    def hook(ex, frame, v):
        """the critical section: entered only while the lock is held (write); may raise"""
        if kind == 'write':
            ex.oblige(f'{ex.c.name}/critical_section/entered_only_while_holding_the_lock_file',
                      _b(ex.st.ghost['held']))
        ex.st.ghost['entered_cs'] = VBool(True)
        if ex.choose(2) == 1:
            raise PyRaise(BodyFailure)
    return hook


def _filelock(name, kind):
    c = Contract('C20', F, f'FileLock.{name}', params=dict(self=FLOCK),
                 ghost_init=_ghost_init, yields=INT,
                 ensures=[('granted_lock_is_released_on_exit', lambda s: ~s.ghost('held')),
                          ('critical_section_was_entered', lambda s: s.ghost('entered_cs'))],
                 raises={TimeoutError: [('granted_lock_is_released_on_exit', lambda s: ~s.ghost('held')),
                                        ('never_entered', lambda s: ~s.ghost('entered_cs'))],
                         BodyFailure: [('granted_lock_is_released_on_exit', lambda s: ~s.ghost('held'))]},
                 raises_only=(TimeoutError, BodyFailure),
                 loops={0: Loop(invariant=[('not_held_between_attempts', lambda s: ~s.ghost('held')),
                                           ('not_entered_yet', lambda s: ~s.ghost('entered_cs'))],
                                ghost=['held', 'entered_cs'])},
                 calls={'asyncio.sleep': _sleep, 'os.path.exists': lambda ex, frame, e: BOOL.fresh('exists')})
    c.on_yield_value = _on_yield(kind)
    c.attr_models = {}
    return c


REG = {('FileLock', '_try_lock'): _try_lock, ('FileLock', '_check_lock'): _check_lock,
       ('FileLock', '_unlock'): _unlock}

write_lock = _filelock('write_lock', 'write')
read_lock = _filelock('read_lock', 'read')
for c in (write_lock, read_lock):
    c.attr_models = {}

# ---- _AsyncioReadWriteLock bookkeeping (sequential contracts)
ALOCK = RecS('AsyncioLock', locked=BOOL)
RWL = RecS('RWLock', pyclass=(F, '_AsyncioReadWriteLock'), _read_lock=ALOCK, _write_lock=ALOCK, _counter=INT)


def _lock_ctx(ex, frame, item, phase):
    base = ex.eval(item.context_expr, frame)
    if phase == 'enter':
        ex.assume(~ex.st.store[base.rid]['locked'])          # granted: it was (or became) free
        ex.st.store[base.rid]['locked'] = VBool(True)
    else:
        ex.oblige(f'{ex.c.name}/release/of_a_lock_that_is_held', ex.st.store[base.rid]['locked'].t)
        ex.st.store[base.rid]['locked'] = VBool(False)


def _alock_acquire(ex, frame, e, base):
    ex.assume(~ex.st.store[base.rid]['locked'])
    ex.st.store[base.rid]['locked'] = VBool(True)
    return VBool(True)


def _alock_release(ex, frame, e, base):
    ex.oblige(f'{ex.c.name}/release/of_a_lock_that_is_held', ex.st.store[base.rid]['locked'].t)
    ex.st.store[base.rid]['locked'] = VBool(False)
    return VNone()


RW_REG = {('AsyncioLock', 'acquire'): _alock_acquire, ('AsyncioLock', 'release'): _alock_release}
_rw_inv = [('count_nonneg', lambda s: s.self._counter >= 0),
           ('readers_hold_the_write_mutex', lambda s: implies(s.self._counter > 0, s.self._write_lock.locked))]

acquire_read = Contract(
    'C20', F, '_AsyncioReadWriteLock._acquire_read', params=dict(self=RWL),
    requires=_rw_inv + [('readers_mutex_free_on_entry', lambda s: ~s.self._read_lock.locked)],
    ensures=_rw_inv + [('one_more_reader', lambda s: s.self._counter == s.old.self._counter + 1),
                       ('write_mutex_held_for_the_readers', lambda s: s.self._write_lock.locked),
                       ('readers_mutex_released', lambda s: ~s.self._read_lock.locked)],
    calls={'self._read_lock': _lock_ctx}, raises_only=(),
    note='sequential: the write mutex is taken BEFORE the count is incremented (a cancellation while waiting leaves '
         'the count unchanged), with the readers mutex held')
release_read = Contract(
    'C20', F, '_AsyncioReadWriteLock._release_read', params=dict(self=RWL),
    requires=_rw_inv + [('a_reader_is_inside', lambda s: s.self._counter > 0)],
    ensures=_rw_inv + [('one_reader_less', lambda s: s.self._counter == s.old.self._counter - 1),
                       ('last_reader_frees_the_write_mutex', lambda s: implies(
                           s.self._counter == 0, ~s.self._write_lock.locked)),
                       ('others_keep_it', lambda s: implies(s.self._counter > 0, s.self._write_lock.locked))],
    calls={'self._read_lock': _lock_ctx}, raises_only=())

CONTRACTS = [write_lock, read_lock, acquire_read, release_read]
ALL_REG = dict(REG)
ALL_REG.update(RW_REG)


# ---- _AsyncioReadWriteLock under interleaving: yield-point invariant with per-task ghost contributions
#
# Every task sees the lock through its OWN contribution and the sum of everybody else's:
#   mine / rest     this task's / the other tasks' net contribution to _counter  (mine is updated by the write hook on
#                   `_counter`: every write by this task changes `mine` by the same amount)
#   wmine / wrest   1 while this task / another task is inside write_lock (holds the write mutex as THE writer)
#   rmine / rrest   1 while this task / another task holds the readers' mutex
# INV is asserted at every suspension point and at every exit (normal, cancelled, failing critical section) and is all
# that is known after a suspension (the record and rest/wrest/rrest are havocked: any number of other tasks ran any
# number of segments).  Composition (lemma rwlock_views_compose, proved by z3): if task j's segment preserves INV in
# j's view and leaves j's `rest` alone, INV holds in every other task's view afterwards.
RWLI = RecS('RWLockI', pyclass=(F, '_AsyncioReadWriteLock'), _read_lock=ALOCK, _write_lock=ALOCK, _counter=INT)
_G = ('mine', 'rest', 'wmine', 'wrest', 'rmine', 'rrest')


def _counter_hook(st, rec, old, new):
    if old is not None and 'mine' in st.ghost:
        st.ghost['mine'] = VInt(st.ghost['mine'].t + (new.t - old.t))


RWLI.hooks['_counter'] = _counter_hook


def _gi(s, n):
    return _t(s.ghost(n))


def _i_ghost_init(st, sc):
    for g in _G:
        st.ghost[g] = INT.fresh('g_' + g)


def _writers(s):
    return _gi(s, 'wmine') + _gi(s, 'wrest')


INV = [
    ('count_is_the_sum_of_contributions', lambda s: _t(s.self._counter) == _gi(s, 'mine') + _gi(s, 'rest')),
    ('contributions_nonneg', lambda s: z3.And(_gi(s, 'mine') >= 0, _gi(s, 'rest') >= 0)),
    ('at_most_one_writer', lambda s: z3.And(_gi(s, 'wmine') >= 0, _gi(s, 'wrest') >= 0, _writers(s) <= 1)),
    ('readers_hold_the_write_mutex', lambda s: z3.Implies(_t(s.self._counter) > 0, _b(s.self._write_lock.locked))),
    ('a_writer_holds_the_write_mutex_and_excludes_readers',
     lambda s: z3.Implies(_writers(s) == 1, z3.And(_b(s.self._write_lock.locked), _t(s.self._counter) == 0))),
    ('write_mutex_is_never_orphaned',
     lambda s: z3.Implies(_b(s.self._write_lock.locked), z3.Or(_t(s.self._counter) > 0, _writers(s) == 1))),
    ('readers_mutex_has_one_holder',
     lambda s: z3.And(_gi(s, 'rmine') >= 0, _gi(s, 'rrest') >= 0, _gi(s, 'rmine') + _gi(s, 'rrest') <= 1,
                      _b(s.self._read_lock.locked) == (_gi(s, 'rmine') + _gi(s, 'rrest') == 1))),
]


def _i_on_yield(ex):
    for g in ('rest', 'wrest', 'rrest'):
        ex.st.ghost[g] = INT.fresh('g_' + g)


def _i_atomic():
    from pyvc.engine import Atomic
    return Atomic(shared=['self'], invariant=INV, may_cancel=True, on_yield=_i_on_yield)


def _i_acquire(ex, lock, site, owner):
    """asyncio.Lock.acquire (assumed contract): returns -- possibly after a suspension, during which a cancellation
    may be delivered and nothing is taken -- only when nobody holds the lock, and this task holds it from then on"""
    if ex.choose(2) == 1:
        ex.yield_point(site)
    ex.assume(~ex.st.store[lock.rid]['locked'])
    ex.st.store[lock.rid]['locked'] = VBool(True)
    if owner:
        ex.oblige(f'{ex.c.name}/{site}/not_already_the_holder', ex.st.ghost[owner].t == 0)
        ex.st.ghost[owner] = VInt(z3.IntVal(1))


def _i_release(ex, lock, site, owner):
    ex.oblige(f'{ex.c.name}/{site}/release_of_a_lock_that_is_held', ex.st.store[lock.rid]['locked'].t)
    if owner:
        ex.oblige(f'{ex.c.name}/{site}/release_by_the_holder', ex.st.ghost[owner].t == 1)
        ex.st.ghost[owner] = VInt(z3.IntVal(0))
    else:
        # the write mutex given up on behalf of the readers: no writer may be inside
        ex.oblige(f'{ex.c.name}/{site}/readers_release_only_what_the_readers_hold',
                  ex.st.ghost['wmine'].t + ex.st.ghost['wrest'].t == 0)
    ex.st.store[lock.rid]['locked'] = VBool(False)


def _i_ctx(owner):
    def model(ex, frame, item, phase):
        base = ex.eval(item.context_expr, frame)
        site = ast_name(item.context_expr)
        if phase == 'enter':
            _i_acquire(ex, base, f'acquire.{site}', owner)
        else:
            _i_release(ex, base, f'release.{site}', owner)
    return model


def ast_name(e):
    import ast
    return ast.unparse(e).replace('self.', '')


def _i_w_acquire(ex, frame, e, base=None):
    base = base if base is not None else ex.eval(e.func.value, frame)
    _i_acquire(ex, base, 'acquire._write_lock', None)
    return VBool(True)


def _i_w_release(ex, frame, e, base=None):
    base = base if base is not None else ex.eval(e.func.value, frame)
    _i_release(ex, base, 'release._write_lock', None)
    return VNone()


def _same(*names):
    return [(f'{n}_as_on_entry', (lambda s, n=n: _gi(s, n) == _gi(s.old, n))) for n in names]


import asyncio as _asyncio

_I_CALLS = {'self._read_lock': _i_ctx('rmine'), 'self._write_lock.acquire': _i_w_acquire,
            'self._write_lock.release': _i_w_release}
_not_holding_R = ('not_holding_the_readers_mutex', lambda s: _gi(s, 'rmine') == 0)

i_acquire_read = Contract(
    'C20', F, '_AsyncioReadWriteLock._acquire_read', variant='interleaved', params=dict(self=RWLI),
    ghost_init=_i_ghost_init, requires=INV + [_not_holding_R], atomic=_i_atomic(), calls=_I_CALLS,
    ensures=INV + [_not_holding_R, ('counted_as_a_reader', lambda s: _gi(s, 'mine') == _gi(s.old, 'mine') + 1)] +
    _same('wmine'),
    raises={_asyncio.CancelledError: INV + [_not_holding_R] + _same('mine', 'wmine')},
    raises_only=(_asyncio.CancelledError,),
    note='any number of other tasks may run at every suspension; a cancellation may arrive at every suspension')

i_release_read = Contract(
    'C20', F, '_AsyncioReadWriteLock._release_read', variant='interleaved', params=dict(self=RWLI),
    ghost_init=_i_ghost_init, requires=INV + [('counted_as_a_reader', lambda s: _gi(s, 'mine') >= 1)],
    calls=_I_CALLS, raises_only=(),
    ensures=INV + [('no_longer_counted', lambda s: _gi(s, 'mine') == _gi(s.old, 'mine') - 1)] +
    _same('wmine', 'rmine'))


def _cs(kind):
    def hook(ex, frame, v):
        """the critical section (the `yield` of the context manager): any number of suspensions, during which any
        number of other tasks run; it may fail or be cancelled"""
        g = ex.st.ghost
        rec = ex.st.store[ex.entry_names['self'].rid]

        def claims(when):
            base = f'{ex.c.name}/critical_section.{when}'
            if kind == 'read':
                ex.oblige(f'{base}/the_reader_is_counted', g['mine'].t >= 1)
                ex.oblige(f'{base}/no_writer_is_inside', g['wmine'].t + g['wrest'].t == 0)
            else:
                ex.oblige(f'{base}/this_task_is_the_writer', g['wmine'].t == 1)
                ex.oblige(f'{base}/no_reader_is_inside', rec['_counter'].t == 0)
                ex.oblige(f'{base}/no_other_writer_is_inside', g['wrest'].t == 0)
        claims('on_entry')
        ex.yield_point('critical_section', frame)
        claims('after_any_interleaving')
        g['entered_cs'] = VBool(True)
        if ex.choose(2) == 1:
            raise PyRaise(BodyFailure)
    return hook


def _i_ghost_init_cs(st, sc):
    _i_ghost_init(st, sc)
    st.ghost['entered_cs'] = VBool(False)


def _i_lock(name, kind, extra_req=()):
    post = INV + _same('mine', 'wmine', 'rmine')
    c = Contract(
        'C20', F, f'_AsyncioReadWriteLock.{name}', variant='interleaved', params=dict(self=RWLI),
        ghost_init=_i_ghost_init_cs, yields=INT, requires=INV + [_not_holding_R] + list(extra_req),
        atomic=_i_atomic(),
        calls=dict(_I_CALLS, **{'self._write_lock': _i_ctx('wmine')}),
        inline={'RWLockI._acquire_read', 'RWLockI._release_read'},
        ensures=post + [('critical_section_was_entered', lambda s: s.ghost('entered_cs'))],
        raises={_asyncio.CancelledError: post, BodyFailure: post},
        raises_only=(_asyncio.CancelledError, BodyFailure))
    c.on_yield_value = _cs(kind)
    return c


i_read_lock = _i_lock('read_lock', 'read')
i_write_lock = _i_lock('write_lock', 'write',
                       [('not_already_the_writer', lambda s: _gi(s, 'wmine') == 0),
                        ('not_a_reader', lambda s: _gi(s, 'mine') == 0)])


def rwlock_views_compose():
    """composition lemma: a segment of task j that preserves INV in j's view, leaving j's `rest` ghosts alone, leaves
    INV true in the view of any other task i (whose `rest` absorbs j's change)"""
    I = z3.Int
    c, c2, mi, mj, mj2, t = I('c'), I('c2'), I('mi'), I('mj'), I('mj2'), I('t')
    wi, wj, wj2, wt = I('wi'), I('wj'), I('wj2'), I('wt')
    ri, rj, rj2, rt = I('ri'), I('rj'), I('rj2'), I('rt')
    W, W2, R, R2 = z3.Bool('W'), z3.Bool('W2'), z3.Bool('R'), z3.Bool('R2')

    def inv(c, mine, rest, wmine, wrest, rmine, rrest, W, R):
        wr = wmine + wrest
        return z3.And(c == mine + rest, mine >= 0, rest >= 0, wmine >= 0, wrest >= 0, wr <= 1,
                      z3.Implies(c > 0, W), z3.Implies(wr == 1, z3.And(W, c == 0)),
                      z3.Implies(W, z3.Or(c > 0, wr == 1)),
                      rmine >= 0, rrest >= 0, rmine + rrest <= 1, R == (rmine + rrest == 1))
    hyp = z3.And(t >= 0, wt >= 0, rt >= 0,
                 inv(c, mi, mj + t, wi, wj + wt, ri, rj + rt, W, R),          # i's view before
                 inv(c, mj, mi + t, wj, wi + wt, rj, ri + rt, W, R),          # j's view before
                 inv(c2, mj2, mi + t, wj2, wi + wt, rj2, ri + rt, W2, R2))    # j's view after j's segment
    goal = inv(c2, mi, mj2 + t, wi, wj2 + wt, ri, rj2 + rt, W2, R2)           # i's view after
    return [hyp], goal


CONTRACTS_INTERLEAVED = [i_acquire_read, i_release_read, i_read_lock, i_write_lock]
CONTRACTS = CONTRACTS + CONTRACTS_INTERLEAVED
