"""Contracts of pymap/concurrent.py for C20.

FileLock.write_lock / read_lock (async generators used through @asynccontextmanager): ghost `held` is set when
_try_lock() grants the lock file and cleared by _unlock(); the `yield` (the critical section) may raise anything
(an exception in the body, a cancellation).  Obligations: the critical section is only entered while `held`; on
EVERY exit of the generator -- normal, TimeoutError, or an exception coming out of the critical section -- a
granted lock has been released; between two attempts the lock is not held.

_AsyncioReadWriteLock: the sequential contracts of _acquire_read / _release_read (count bookkeeping) are proved
here; mutual exclusion under all interleavings and cancellation is the bounded exploration (harness/e2e_locks.py).
"""
import z3

from pyvc.values import *
from pyvc.values import _b
from pyvc.engine import Contract, Loop, PyRaise, SeqView

F = 'pymap/concurrent.py'
FLOCK = RecS('FileLock', pyclass=(F, 'FileLock'), _path=RefS('Path'), _write_retry_delay=ListS(RefS('Delay')),
             _read_retry_delay=ListS(RefS('Delay')))


class BodyFailure(Exception):
    """whatever the critical section raises (includes cancellation)"""


def _ghost_init(st, sc):
    st.ghost['held'] = VBool(False)
    st.ghost['entered_cs'] = VBool(False)


def _try_lock(ex, frame, e, base):
    r = BOOL.fresh('granted')
    ex.oblige(f'{ex.c.name}/try_lock/not_while_already_holding', z3.Not(_b(ex.st.ghost['held'])))
    ex.st.ghost['held'] = VBool(z3.Or(_b(ex.st.ghost['held']), r.t))
    return r


def _check_lock(ex, frame, e, base):
    return BOOL.fresh('free')


def _unlock(ex, frame, e, base):
    ex.st.ghost['held'] = VBool(False)
    return VNone()


def _sleep(ex, frame, e):
    ex.oblige(f'{ex.c.name}/sleep/lock_not_held_while_waiting_to_retry', z3.Not(_b(ex.st.ghost['held'])))
    return VNone()


def _delays(ex, frame, ref):
    l = ListS(RefS('Delay')).fresh('delays')
    ex.assume(l.n >= 0)
    return l


def _on_yield(kind):
    def hook(ex, frame, v):
        """the critical section: entered only while the lock is held (write); may raise"""
        if kind == 'write':
            ex.oblige(f'{ex.c.name}/critical_section/entered_only_while_holding_the_lock_file',
                      _b(ex.st.ghost['held']))
        ex.st.ghost['entered_cs'] = VBool(True)
        if ex.choose(2) == 1:
            raise PyRaise(BodyFailure)
    return hook


def _filelock(name, kind):
    c = Contract('C20', F, f'FileLock.{name}', params=dict(self=FLOCK),
                 ghost_init=_ghost_init, yields=INT,
                 ensures=[('granted_lock_is_released_on_exit', lambda s: ~s.ghost('held')),
                          ('critical_section_was_entered', lambda s: s.ghost('entered_cs'))],
                 raises={TimeoutError: [('granted_lock_is_released_on_exit', lambda s: ~s.ghost('held')),
                                        ('never_entered', lambda s: ~s.ghost('entered_cs'))],
                         BodyFailure: [('granted_lock_is_released_on_exit', lambda s: ~s.ghost('held'))]},
                 raises_only=(TimeoutError, BodyFailure),
                 loops={0: Loop(invariant=[('not_held_between_attempts', lambda s: ~s.ghost('held')),
                                           ('not_entered_yet', lambda s: ~s.ghost('entered_cs'))],
                                ghost=['held', 'entered_cs'])},
                 calls={'asyncio.sleep': _sleep, 'os.path.exists': lambda ex, frame, e: BOOL.fresh('exists')})
    c.on_yield_value = _on_yield(kind)
    c.attr_models = {}
    return c


REG = {('FileLock', '_try_lock'): _try_lock, ('FileLock', '_check_lock'): _check_lock,
       ('FileLock', '_unlock'): _unlock}

write_lock = _filelock('write_lock', 'write')
read_lock = _filelock('read_lock', 'read')
for c in (write_lock, read_lock):
    c.attr_models = {}

# ---- _AsyncioReadWriteLock bookkeeping (sequential contracts)
ALOCK = RecS('AsyncioLock', locked=BOOL)
RWL = RecS('RWLock', pyclass=(F, '_AsyncioReadWriteLock'), _read_lock=ALOCK, _write_lock=ALOCK, _counter=INT)


def _lock_ctx(ex, frame, item, phase):
    base = ex.eval(item.context_expr, frame)
    if phase == 'enter':
        ex.assume(~ex.st.store[base.rid]['locked'])          # granted: it was (or became) free
        ex.st.store[base.rid]['locked'] = VBool(True)
    else:
        ex.oblige(f'{ex.c.name}/release/of_a_lock_that_is_held', ex.st.store[base.rid]['locked'].t)
        ex.st.store[base.rid]['locked'] = VBool(False)


def _alock_acquire(ex, frame, e, base):
    ex.assume(~ex.st.store[base.rid]['locked'])
    ex.st.store[base.rid]['locked'] = VBool(True)
    return VBool(True)


def _alock_release(ex, frame, e, base):
    ex.oblige(f'{ex.c.name}/release/of_a_lock_that_is_held', ex.st.store[base.rid]['locked'].t)
    ex.st.store[base.rid]['locked'] = VBool(False)
    return VNone()


RW_REG = {('AsyncioLock', 'acquire'): _alock_acquire, ('AsyncioLock', 'release'): _alock_release}
_rw_inv = [('count_nonneg', lambda s: s.self._counter >= 0),
           ('readers_hold_the_write_mutex', lambda s: implies(s.self._counter > 0, s.self._write_lock.locked))]

acquire_read = Contract(
    'C20', F, '_AsyncioReadWriteLock._acquire_read', params=dict(self=RWL),
    requires=_rw_inv + [('readers_mutex_free_on_entry', lambda s: ~s.self._read_lock.locked)],
    ensures=_rw_inv + [('one_more_reader', lambda s: s.self._counter == s.old.self._counter + 1),
                       ('write_mutex_held_for_the_readers', lambda s: s.self._write_lock.locked),
                       ('readers_mutex_released', lambda s: ~s.self._read_lock.locked)],
    calls={'self._read_lock': _lock_ctx}, raises_only=(),
    note='sequential: the write mutex is taken BEFORE the count is incremented (a cancellation while waiting leaves '
         'the count unchanged), with the readers mutex held')
release_read = Contract(
    'C20', F, '_AsyncioReadWriteLock._release_read', params=dict(self=RWL),
    requires=_rw_inv + [('a_reader_is_inside', lambda s: s.self._counter > 0)],
    ensures=_rw_inv + [('one_reader_less', lambda s: s.self._counter == s.old.self._counter - 1),
                       ('last_reader_frees_the_write_mutex', lambda s: implies(
                           s.self._counter == 0, ~s.self._write_lock.locked)),
                       ('others_keep_it', lambda s: implies(s.self._counter > 0, s.self._write_lock.locked))],
    calls={'self._read_lock': _lock_ctx}, raises_only=())

CONTRACTS = [write_lock, read_lock, acquire_read, release_read]
ALL_REG = dict(REG)
ALL_REG.update(RW_REG)
