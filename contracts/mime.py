"""Contracts of the byte-level kernel of C03: pymap/mime/__init__.py (_find_lines, _split_lines),
pymap/mime/_util.py (find_any, get_raw) and pymap/fetch.py (_get_partial)."""
import z3

from pyvc.values import *
from pyvc.values import _t, _b
from pyvc.engine import Contract, Loop, SeqView

FM = 'pymap/mime/__init__.py'
FU = 'pymap/mime/_util.py'
FF = 'pymap/fetch.py'

LINE = TupleS(INT, INT, INT)
BYTES = ListS(INT)
BYTES.bytes = True


def is_bytes(b):
    return forall(lambda i: implies((i >= 0) & (i < b.len), (b[i] >= 0) & (b[i] <= 255)))


def partition(lines, data, upto=None, closed=True):
    """lines is a partition of data[0:upto] into (start, end, next) triples: consecutive, start <= end <= next,
    data[end:next] is the line terminator (LF or CRLF), no LF inside data[start:end]"""
    L = lines
    n = L.len
    cl = [
        ('first_starts_at_0', implies(n > 0, L[0][0] == 0)),
        ('consecutive', forall(lambda i: implies((i >= 0) & (i + 1 < n), L[i][2] == L[i + 1][0]))),
        ('ordered', forall(lambda i: implies((i >= 0) & (i < n), (L[i][0] <= L[i][1]) & (L[i][1] <= L[i][2]) &
                                             (L[i][0] >= 0) & (L[i][2] <= data.len)))),
        ('no_lf_inside_a_line', forall(lambda i, j: implies(
            (i >= 0) & (i < n) & (j >= L[i][0]) & (j < L[i][1]), data[j] != 10), n=2)),
        ('terminated_lines', forall(lambda i: implies(
            (i >= 0) & (i < n) & (L[i][1] < L[i][2]),
            (data[L[i][2] - 1] == 10) & ((L[i][2] - L[i][1] == 1) |
                                         ((L[i][2] - L[i][1] == 2) & (data[L[i][1]] == 13)))))),
    ]
    return cl


P_LABELS = ['first_starts_at_0', 'consecutive', 'ordered', 'no_lf_inside_a_line', 'terminated_lines']


def _find_lines_loop():
    def inv(s):
        d = dict(partition(s.ret, s.data))
        out = [(l, d[l]) for l in P_LABELS]
        out += [('covers_prefix', ite(s.ret.len > 0, s.ret[s.ret.len - 1][2] == s.start, s.start == 0)),
                ('all_terminated_so_far', forall(lambda i: implies((i >= 0) & (i < s.ret.len),
                                                                   s.ret[i][1] < s.ret[i][2]))),
                ('bounds', (s.start >= 0) & (s.start <= s.end) & (s.end == s.data.len))]
        return out
    labels = P_LABELS + ['covers_prefix', 'all_terminated_so_far', 'bounds']
    return Loop(invariant=[(l, (lambda s, l=l: dict(inv(s))[l])) for l in labels],
                decreases=lambda s: s.end - s.start)


find_lines = Contract(
    'C03', FM, 'MessageContent._find_lines', params=dict(cls=NoneS(), data=BYTES),
    requires=[('data_is_bytes', lambda s: is_bytes(s.data))],
    ensures=[(l, (lambda s, l=l: dict(partition(s.result, s.data))[l])) for l in P_LABELS] + [
        ('nonempty', lambda s: s.result.len >= 1),
        ('covers_all_of_data', lambda s: s.result[s.result.len - 1][2] == s.data.len),
        ('only_the_last_line_is_unterminated', lambda s: forall(lambda i: implies(
            (i >= 0) & (i + 1 < s.result.len), s.result[i][1] < s.result[i][2])) &
            (s.result[s.result.len - 1][1] == s.result[s.result.len - 1][2])),
    ],
    loops={0: _find_lines_loop()}, typemap={'_Line': LINE}, modifies=[], raises_only=(),
    returns=ListS(LINE), pure=True)


# ---- find_any

def hit(s, i):
    return s.end_marker.has(s.data[i]) == s.inverse


def _find_any_loop():
    def inv(s):
        k = s.k
        return [('no_hit_before', ite(
            s.reverse,
            forall(lambda i: implies((i >= s.end - k) & (i < s.end) & (i >= s.start), ~hit(s, i))),
            forall(lambda i: implies((i >= s.start) & (i < s.start + k), ~hit(s, i)))))]
    return Loop(invariant=[('no_hit_before', lambda s: dict(inv(s))['no_hit_before'])])


find_any = Contract(
    'C03', FU, 'find_any',
    params=dict(data=BYTES, end_marker=SetS(INT), start=INT, end=INT, inverse=BOOL, reverse=BOOL),
    requires=[('range_inside_data', lambda s: (s.start >= 0) & (s.start <= s.end) & (s.end <= s.data.len))],
    ensures=[
        ('minus_one_iff_no_hit', lambda s: (s.result == -1) == forall(
            lambda i: implies((i >= s.start) & (i < s.end), ~hit(s, i)))),
        ('forward_result_is_first_hit', lambda s: implies(
            ~s.reverse & (s.result != -1), (s.result >= s.start) & (s.result < s.end) & hit(s, s.result) &
            forall(lambda i: implies((i >= s.start) & (i < s.result), ~hit(s, i))))),
        ('reverse_result_is_one_past_last_hit', lambda s: implies(
            s.reverse & (s.result != -1), (s.result - 1 >= s.start) & (s.result - 1 < s.end) & hit(s, s.result - 1) &
            forall(lambda i: implies((i > s.result - 1) & (i < s.end), ~hit(s, i))))),
    ],
    loops={0: _find_any_loop()}, modifies=[], raises_only=(), returns=INT, pure=True)


# ---- get_raw  (one and two line groups: the two arities it is called with)

def _get_raw_post(ngroups):
    def post(s):
        groups = [getattr(s, f'g{i}') for i in range(ngroups)]
        view = s.view
        res = s.result
        lo, hi = res.slice_bounds

        def first_nonempty(idx):
            # start of the first line of the first non-empty group from idx on, else None
            if idx == len(groups):
                return None
            g = groups[idx]
            rest = first_nonempty(idx + 1)
            return ('ite', g.len > 0, g[0][0], rest)

        def last_nonempty(idx):
            if idx < 0:
                return None
            g = groups[idx]
            rest = last_nonempty(idx - 1)
            return ('ite', g.len > 0, g[g.len - 1][2], rest)

        def build(t, default):
            if t is None:
                return default
            _, c, v, rest = t
            return ite(c, v, build(rest, default))
        any_nonempty = disj(*[g.len > 0 for g in groups])
        a = build(first_nonempty(0), VInt(0))
        b = build(last_nonempty(len(groups) - 1), VInt(0))
        return ite(any_nonempty, (VInt(lo) == a) & (VInt(hi) == b), VInt(hi) - VInt(lo) <= 0)
    return post


def _wf_groups(ngroups):
    def req(s):
        out = VBool(True)
        for i in range(ngroups):
            g = getattr(s, f'g{i}')
            out = out & forall(lambda k, g=g: implies((k >= 0) & (k < g.len), (g[k][0] >= 0) & (g[k][0] <= g[k][2]) &
                                                      (g[k][2] <= s.view.len)))
        return out
    return req


def _get_raw_contract(n):
    params = dict(view=BYTES)
    for i in range(n):
        params[f'g{i}'] = ListS(LINE)
    c = Contract('C03', FU, 'get_raw', params=params, variant=f'{n}-groups',
                 requires=[('groups_are_lines_of_view', _wf_groups(n))],
                 ensures=[('slice_spans_the_nonempty_groups', _get_raw_post(n))],
                 modifies=[], raises_only=(), pure=True)
    c.varargs = ('lines', [f'g{i}' for i in range(n)])
    return c


get_raw1 = _get_raw_contract(1)
get_raw2 = _get_raw_contract(2)


# ---- DynamicLoadedFetchValue._get_partial : BODY[]<o.n> == b[o:o+n]

PartialR = RefS('FetchPartial', start=INT, length=OptS(INT))


def _identity(ex, frame, e):
    return ex.eval(e.args[0], frame)


def _partial_post(s):
    full, r = s.data, s.result
    st = s.partial.start
    ln = s.partial.length
    end = ite(is_none(ln), full.len, st + ln.val())
    lo = ite(st < full.len, st, full.len)
    hi = ite(end < full.len, end, full.len)
    want_len = ite(hi > lo, hi - lo, VInt(0))
    return (r.len == want_len) & forall(lambda i: implies((i >= 0) & (i < r.len), r[i] == full[st + i]))


get_partial = Contract(
    'C03', FF, 'DynamicLoadedFetchValue._get_partial', params=dict(cls=NoneS(), data=BYTES, partial=PartialR),
    requires=[('partial_nonneg', lambda s: (s.partial.start >= 0) & when_some(s.partial.length, lambda l: l >= 0))],
    ensures=[('is_exactly_the_requested_octets', _partial_post)],
    calls={'bytes': _identity, 'Writeable.wrap': _identity}, modifies=[], raises_only=(), returns=BYTES, pure=True)

get_partial_none = Contract(
    'C03', FF, 'DynamicLoadedFetchValue._get_partial', params=dict(cls=NoneS(), data=BYTES, partial=NoneS()),
    variant='no-partial', ensures=[('whole_section', lambda s: s.result == s.data)],
    calls={'bytes': _identity, 'Writeable.wrap': _identity}, modifies=[], raises_only=(), returns=BYTES, pure=True)

CONTRACTS = [find_lines, find_any, get_raw1, get_raw2, get_partial, get_partial_none]


# ---- MessageContent._split_lines : header ++ body == lines

def _same_slice(part, whole, offset):
    if getattr(part, 'empty_literal', False):
        return VBool(True)
    return forall(lambda i: implies((i >= 0) & (i < part.len), part[i].term() == whole[i + offset].term()))


split_lines = Contract(
    'C03', FM, 'MessageContent._split_lines', params=dict(cls=NoneS(), data=BYTES, lines=ListS(LINE)),
    requires=[('lines_inside_data', lambda s: forall(lambda i: implies(
        (i >= 0) & (i < s.lines.len), (s.lines[i][0] >= 0) & (s.lines[i][0] <= s.lines[i][1]) &
        (s.lines[i][1] <= s.data.len))))],
    ensures=[
        ('header_then_body_is_all_lines', lambda s: (s.result[0].len + s.result[1].len == s.lines.len) &
         (s.result[0].len >= 0) & (s.result[1].len >= 0) &
         _same_slice(s.result[0], s.lines, VInt(0)) & _same_slice(s.result[1], s.lines, s.result[0].len)),
    ],
    loops={0: Loop()}, calls={'find_any': find_any}, modifies=[], raises_only=(),
    returns=TupleS(), pure=True)


# ---- lemma over the contracts: the stored raw bytes are the whole input, and HEADER + TEXT == b

def content_lemma():
    """from the postconditions of _find_lines, _split_lines and get_raw only:
         get_raw(view, header_lines, body_lines) is view[0:len]     (bytes(content) == data, len == len(data))
         get_raw(view, header_lines) ++ get_raw(view, body_lines) == view[0:len]   (HEADER followed by TEXT)"""
    n = z3.Int('n')            # number of lines
    k = z3.Int('k')            # header = lines[0:k], body = lines[k:]
    ln = z3.Int('len')
    S = z3.Function('start', z3.IntSort(), z3.IntSort())
    N = z3.Function('next', z3.IntSort(), z3.IntSort())
    i = z3.Int('i')
    hyp = [n >= 1, k >= 0, k <= n, ln >= 0, S(0) == 0, N(n - 1) == ln,
           z3.ForAll([i], z3.Implies(z3.And(i >= 0, i + 1 < n), N(i) == S(i + 1))),
           z3.ForAll([i], z3.Implies(z3.And(i >= 0, i < n), z3.And(S(i) <= N(i), S(i) >= 0, N(i) <= ln)))]
    # get_raw over (header, body): first non-empty group's first start .. last non-empty group's last next
    a_all = z3.If(k > 0, S(0), S(k))
    b_all = z3.If(n - k > 0, N(n - 1), N(k - 1))
    # get_raw over header alone / body alone (empty group -> empty slice)
    h_lo, h_hi = z3.If(k > 0, S(0), 0), z3.If(k > 0, N(k - 1), 0)
    t_lo, t_hi = z3.If(n - k > 0, S(k), 0), z3.If(n - k > 0, N(n - 1), 0)
    goal = z3.And(a_all == 0, b_all == ln,
                  # header slice followed by text slice is [0, len): contiguous, starts at 0, ends at len
                  z3.If(k > 0, z3.If(n - k > 0, z3.And(h_lo == 0, h_hi == t_lo, t_hi == ln),
                                     z3.And(h_lo == 0, h_hi == ln, t_hi - t_lo == 0)),
                        z3.And(h_hi - h_lo == 0, t_lo == 0, t_hi == ln)))
    return hyp, goal


CONTRACTS += [split_lines]
