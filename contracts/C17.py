"""C17 -- \\Recent is announced to exactly one session and never stored.

Deductive:
  PermanentFlags.__init__, SessionFlags.update/get/add_recent   \\Recent is never a permanent flag, never kept among a
                              session's stored flags, and appears in get() exactly for the uids in _recent
  SelectedSet.any_selected    never hands out a read-only selection
  Message.copy (dict)         the copy is recent only if asked (never inherits the source's pending \\Recent)
  dict MailboxData.append     stored permanent flags never contain \\Recent; stored recent bit = the argument
  dict MailboxData.claim_recent   every stored-recent message is handed to this session and its stored bit cleared,
                              in one atomic segment; nothing else changes
  BaseSession.append/copy/move_messages, select_mailbox (abstract backend)   add_recent only reaches a read-write
                              selection, a message is stored recent exactly when no selection took it, claim_recent
                              only for read-write selections
Bounded (real server): histories of deliveries with 2..3 sessions selecting/examining/closing/re-selecting.
"""
import z3

from pyvc.values import *
from pyvc.values import _t
from pyvc.engine import Contract, Loop, SeqView
from pyvc.prop import Property, Bounded
from . import flags as FL, selected as SELM, dictmbx as D, session as SES, C04 as C04M
from .dictmbx import MBX, Msg, F, FLAG_RECENT
from harness.e2e_recent import bounded_recent

REG = dict(SES.REG)
REG.update(D.BASE_REGISTRY)
REG[('ModSeq', 'update')] = C04M.weak_update
REG[('ModSeq', 'expunge')] = C04M.weak_expunge
REG[('SessionFlags', 'add_recent')] = FL.sess_add_recent       # for claim_recent: the proved contract

_calls = dict(D.BASE_CALLS)

append = Contract('C17', F, 'MailboxData.append', variant='recent',
                  params=dict(self=MBX, append_msg=D.AppendMsg, recent=BOOL), calls=_calls,
                  ghost_init=D.ghost_init, returns=Msg, globals={'Recent': FLAG_RECENT},
                  ensures=[('recent_is_never_stored_as_a_flag',
                            lambda s: ~s.wrap(s.result).permanent_flags.has(FLAG_RECENT)),
                           ('other_flags_as_given', lambda s: forall(lambda f: implies(
                               f != FLAG_RECENT, s.wrap(s.result).permanent_flags.has(f) == s.append_msg.flag_set.has(f)),
                               sort=D.Flag)),
                           ('stored_recent_bit_is_the_argument', lambda s: s.wrap(s.result).recent == s.recent)],
                  raises_only=())

_claim_calls = dict(D.BASE_CALLS)
_claim_calls['self.messages'] = C04M.messages_gen(False)


def _claim_loop():
    def inv(s):
        m, p = s.self, s.pre.self
        sf, psf = s.selected._session_flags, s.pre.selected._session_flags
        k = s.k
        pos = lambda u: VInt(s.seq.keys_enum.pos(_t(u)))
        msgs = m._messages
        return [
            ('mailbox_contents_fixed', (m._messages == p._messages) & (m._max_uid == p._max_uid)),
            ('processed_are_not_recent', forall(lambda u: implies(msgs.has(u) & (pos(u) < k), ~msgs[u].recent))),
            ('pending_untouched', forall(lambda u: implies(msgs.has(u) & (pos(u) >= k),
                                                           msgs[u].recent == s.pre.wrap(p._messages[u]).recent))),
            ('session_got_exactly_the_processed_recent_ones', forall(lambda u: sf._recent.has(u) == (
                psf._recent.has(u) | (msgs.has(u) & (pos(u) < k) & s.pre.wrap(p._messages[u]).recent)))),
            ('uids_list_is_what_was_claimed', forall(lambda i: implies(
                (i >= 0) & (i < s.uids.len), msgs.has(s.uids[i])))),
            ('session_flags_otherwise_fixed', (sf._flags == psf._flags) & (sf._defined == psf._defined)),
        ]
    labels = ['mailbox_contents_fixed', 'processed_are_not_recent', 'pending_untouched',
              'session_got_exactly_the_processed_recent_ones', 'uids_list_is_what_was_claimed',
              'session_flags_otherwise_fixed']
    return Loop(invariant=[(l, (lambda s, l=l: dict(inv(s))[l])) for l in labels])


claim_recent = Contract(
    'C17', F, 'MailboxData.claim_recent', params=dict(self=MBX, selected=SELM.SEL), calls=_claim_calls,
    requires=[('KeyUid', lambda s: forall(lambda u: implies(s.self._messages.has(u), s.self._messages[u].uid == u)))],
    ensures=[
        ('no_message_is_stored_recent_any_more', lambda s: forall(lambda u: implies(
            s.self._messages.has(u), ~s.self._messages[u].recent))),
        ('session_got_exactly_the_stored_recent_ones', lambda s: forall(lambda u: s.selected._session_flags._recent.has(u)
                                                                          == (s.old.selected._session_flags._recent.has(u) |
                                                                              (s.old.self._messages.has(u) &
                                                                               s.old.wrap(s.old.self._messages[u]).recent)))),
        ('mailbox_contents_fixed', lambda s: s.self._messages == s.old.self._messages),
    ],
    loops={0: _claim_loop()}, raises_only=(),
    note='no suspension between reading the stored bit and clearing it (NoYieldUnderLock, C04): one atomic segment')

_session = [c for c in SES.make('C17') if c.qualname.split('.')[-1] in (
    'append_messages', 'copy_messages', 'move_messages', 'select_mailbox')]

PROPERTY = Property(
    'C17', '\\Recent is announced to exactly one session and never stored',
    contracts=[FL.perm_init, FL.sess_update, FL.sess_get, FL.sess_add_recent, SELM.any_selected, D.message_copy,
               append, claim_recent] + _session, registry=REG,
    bounded=[Bounded('delivery / select / examine / close histories (real server)',
                     'ops {SELECT, EXAMINE, CLOSE by session 0/1, APPEND, APPEND with (\\Recent \\Seen), COPY from a '
                     'selected and from an examined source with a pending-recent message, STORE +-\\Recent}: all '
                     'histories of length 3 (quick) / 4 (thorough) with 2 sessions, plus seeded histories of length 5-6 '
                     'with 3 sessions; after every step every selected session is polled (NOOP + FETCH 1:* (UID FLAGS))',
                     bounded_recent('C17'), decisive=False)],
    level='proof', design_ref='6 C17',
    trusted_base=['abstract backend in the BaseSession contracts', 'NoYieldUnderLock (C04) for the atomicity of claim_recent',
                  'exactly-once over whole histories is the composition of these per-function facts (paper) and the '
                  'bounded run'],
)
