"""C17 -- \\Recent is announced to exactly one session and never stored.

Deductive:
  PermanentFlags.__init__, SessionFlags.update/get/add_recent   \\Recent is never a permanent flag, never kept among a
                              session's stored flags, and appears in get() exactly for the uids in _recent
  SelectedSet.any_selected    never hands out a read-only selection
  Message.copy (dict)         the copy is recent only if asked (never inherits the source's pending \\Recent)
  dict MailboxData.append     stored permanent flags never contain \\Recent; stored recent bit = the argument
  dict MailboxData.claim_recent   every stored-recent message is handed to this session and its stored bit cleared,
                              in one atomic segment; nothing else changes
  BaseSession.append/copy/move_messages, select_mailbox (abstract backend)   add_recent only reaches a read-write
                              selection, a message is stored recent exactly when no selection took it, claim_recent
                              only for read-write selections
Bounded (real server): histories of deliveries with 2..3 sessions selecting/examining/closing/re-selecting.
"""
import z3

from pyvc.values import *
from pyvc.values import _t
from pyvc.engine import Contract, Loop, SeqView
from pyvc.prop import Property, Bounded, Lemma
from . import flags as FL, selected as SELM, dictmbx as D, session as SES, C04 as C04M, state as ST
from .dictmbx import MBX, Msg, F, FLAG_RECENT
from harness.e2e_recent import bounded_recent
from harness.e2e_recent_md import bounded_recent_maildir

REG = dict(SES.REG)
REG.update(D.BASE_REGISTRY)
REG[('ModSeq', 'update')] = C04M.weak_update
REG[('ModSeq', 'expunge')] = C04M.weak_expunge
REG[('SessionFlags', 'add_recent')] = FL.sess_add_recent       # for claim_recent: the proved contract

_calls = dict(D.BASE_CALLS)

append = Contract('C17', F, 'MailboxData.append', variant='recent',
                  params=dict(self=MBX, append_msg=D.AppendMsg, recent=BOOL), calls=_calls,
                  ghost_init=D.ghost_init, returns=Msg, globals={'Recent': FLAG_RECENT},
                  ensures=[('recent_is_never_stored_as_a_flag',
                            lambda s: ~s.wrap(s.result).permanent_flags.has(FLAG_RECENT)),
                           ('other_flags_as_given', lambda s: forall(lambda f: implies(
                               f != FLAG_RECENT, s.wrap(s.result).permanent_flags.has(f) == s.append_msg.flag_set.has(f)),
                               sort=D.Flag)),
                           ('stored_recent_bit_is_the_argument', lambda s: s.wrap(s.result).recent == s.recent)],
                  raises_only=())

_claim_calls = dict(D.BASE_CALLS)
_claim_calls['self.messages'] = C04M.messages_gen(False)


def _claim_loop():
    def inv(s):
        m, p = s.self, s.pre.self
        sf, psf = s.selected._session_flags, s.pre.selected._session_flags
        k = s.k
        pos = lambda u: VInt(s.seq.keys_enum.pos(_t(u)))
        msgs = m._messages
        return [
            ('mailbox_contents_fixed', (m._messages == p._messages) & (m._max_uid == p._max_uid)),
            ('processed_are_not_recent', forall(lambda u: implies(msgs.has(u) & (pos(u) < k), ~msgs[u].recent))),
            ('pending_untouched', forall(lambda u: implies(msgs.has(u) & (pos(u) >= k),
                                                           msgs[u].recent == s.pre.wrap(p._messages[u]).recent))),
            ('session_got_exactly_the_processed_recent_ones', forall(lambda u: sf._recent.has(u) == (
                psf._recent.has(u) | (msgs.has(u) & (pos(u) < k) & s.pre.wrap(p._messages[u]).recent)))),
            ('uids_list_is_what_was_claimed', forall(lambda i: implies(
                (i >= 0) & (i < s.uids.len), msgs.has(s.uids[i])))),
            ('session_flags_otherwise_fixed', (sf._flags == psf._flags) & (sf._defined == psf._defined)),
        ]
    labels = ['mailbox_contents_fixed', 'processed_are_not_recent', 'pending_untouched',
              'session_got_exactly_the_processed_recent_ones', 'uids_list_is_what_was_claimed',
              'session_flags_otherwise_fixed']
    return Loop(invariant=[(l, (lambda s, l=l: dict(inv(s))[l])) for l in labels])


claim_recent = Contract(
    'C17', F, 'MailboxData.claim_recent', params=dict(self=MBX, selected=SELM.SEL), calls=_claim_calls,
    requires=[('KeyUid', lambda s: forall(lambda u: implies(s.self._messages.has(u), s.self._messages[u].uid == u)))],
    ensures=[
        ('no_message_is_stored_recent_any_more', lambda s: forall(lambda u: implies(
            s.self._messages.has(u), ~s.self._messages[u].recent))),
        ('session_got_exactly_the_stored_recent_ones', lambda s: forall(lambda u: s.selected._session_flags._recent.has(u)
                                                                          == (s.old.selected._session_flags._recent.has(u) |
                                                                              (s.old.self._messages.has(u) &
                                                                               s.old.wrap(s.old.self._messages[u]).recent)))),
        ('mailbox_contents_fixed', lambda s: s.self._messages == s.old.self._messages),
    ],
    loops={0: _claim_loop()}, raises_only=(),
    note='no suspension between reading the stored bit and clearing it (NoYieldUnderLock, C04): one atomic segment')

# ---- composition (z3): the per-function facts make "\\Recent is announced to exactly one session, never stored twice"
#
# Plain model: stored(u) -- the mailbox holds u with its recent bit; R(s, u) -- session s has u in its recent set;
# A(u) -- u has been announced to some session at some time; RW(s) -- s is a read-write selection.  INV: a message is either
# still stored recent or has been announced, never both; at most one session holds it; only read-write sessions that it was
# announced to hold it.  The three kinds of steps are restated from the contracts proved above (delivery: BaseSession
# append/copy/move -- stored recent exactly when no selection took it, add_recent only on a read-write selection, dict
# append stores the bit it is given; claim: dict claim_recent; deselect: the session's flags object is dropped) and each
# is shown to preserve INV and to announce a message only if it was never announced before.
def _c17_syms():
    S = z3.DeclareSort('Sess')
    I, B = z3.IntSort(), z3.BoolSort()
    return dict(S=S, stored=z3.Function('stored', I, B), stored2=z3.Function('stored2', I, B),
                A=z3.Function('A', I, B), A2=z3.Function('A2', I, B), E=z3.Function('exists', I, B), E2=z3.Function('exists2', I, B),
                R=z3.Function('R', S, I, B), R2=z3.Function('R2', S, I, B), RW=z3.Function('RW', S, B),
                u=z3.Int('u'), s=z3.Const('s', S), t=z3.Const('t', S))


def _c17_inv(y, stored, A, E, R):
    u, s, t = y['u'], y['s'], y['t']
    return z3.And(
        z3.ForAll([u], z3.Implies(E(u), stored(u) != A(u))),
        z3.ForAll([u], z3.Implies(z3.Not(E(u)), z3.And(z3.Not(stored(u)), z3.Not(A(u))))),
        z3.ForAll([s, t, u], z3.Implies(z3.And(R(s, u), R(t, u)), s == t)),
        z3.ForAll([s, u], z3.Implies(R(s, u), z3.And(A(u), y['RW'](s), z3.Not(stored(u))))))


def _c17_once(y):
    """a session gains a message only if it had never been announced"""
    u, s = y['u'], y['s']
    return z3.ForAll([s, u], z3.Implies(z3.And(y['R2'](s, u), z3.Not(y['R'](s, u))), z3.Not(y['A'](u))))


def lemma_delivery():
    y = _c17_syms()
    u, s = y['u'], y['s']
    n = z3.Int('new_uid')
    taker = z3.Const('taker', y['S'])
    taken = z3.Bool('taken')
    hyp = [_c17_inv(y, y['stored'], y['A'], y['E'], y['R']), z3.Not(y['E'](n)),
           z3.Implies(taken, y['RW'](taker)),                                  # add_recent only on a read-write selection
           z3.ForAll([u], y['E2'](u) == z3.Or(y['E'](u), u == n)),
           z3.ForAll([u], y['stored2'](u) == z3.If(u == n, z3.Not(taken), y['stored'](u))),   # stored recent iff nobody took it
           z3.ForAll([u], y['A2'](u) == z3.If(u == n, taken, y['A'](u))),
           z3.ForAll([s, u], y['R2'](s, u) == z3.Or(y['R'](s, u), z3.And(taken, s == taker, u == n)))]
    return hyp, z3.And(_c17_inv(y, y['stored2'], y['A2'], y['E2'], y['R2']), _c17_once(y))


def lemma_claim():
    y = _c17_syms()
    u, s = y['u'], y['s']
    c = z3.Const('claimer', y['S'])
    hyp = [_c17_inv(y, y['stored'], y['A'], y['E'], y['R']), y['RW'](c),           # select_mailbox claims only when read-write
           z3.ForAll([u], y['E2'](u) == y['E'](u)),
           z3.ForAll([u], z3.Not(y['stored2'](u))),                                 # no message is stored recent any more
           z3.ForAll([u], y['A2'](u) == z3.Or(y['A'](u), y['stored'](u))),
           z3.ForAll([s, u], y['R2'](s, u) == z3.Or(y['R'](s, u), z3.And(s == c, y['stored'](u))))]   # exactly the stored-recent ones
    return hyp, z3.And(_c17_inv(y, y['stored2'], y['A2'], y['E2'], y['R2']), _c17_once(y))


def lemma_deselect():
    y = _c17_syms()
    u, s = y['u'], y['s']
    c = z3.Const('closing', y['S'])
    hyp = [_c17_inv(y, y['stored'], y['A'], y['E'], y['R']),
           z3.ForAll([u], z3.And(y['E2'](u) == y['E'](u), y['stored2'](u) == y['stored'](u), y['A2'](u) == y['A'](u))),
           z3.ForAll([s, u], y['R2'](s, u) == z3.And(y['R'](s, u), s != c))]
    return hyp, z3.And(_c17_inv(y, y['stored2'], y['A2'], y['E2'], y['R2']), _c17_once(y))


_session = [c for c in SES.make('C17') if c.qualname.split('.')[-1] in (
    'append_messages', 'copy_messages', 'move_messages', 'select_mailbox')]

PROPERTY = Property(
    'C17', '\\Recent is announced to exactly one session and never stored',
    contracts=[FL.perm_init, FL.sess_update, FL.sess_get, FL.sess_add_recent, SELM.any_selected, D.message_copy,
               append, claim_recent, ST.do_select] + D.CTOR_CONTRACTS + _session,
    registry=dict(list(ST.REG.items()) + list(REG.items())),
    lemmas=[Lemma('C17/lemma/delivery_keeps_recent_exactly_once', lemma_delivery),
            Lemma('C17/lemma/claim_keeps_recent_exactly_once', lemma_claim),
            Lemma('C17/lemma/deselect_keeps_recent_exactly_once', lemma_deselect)],
    bounded=[Bounded('delivery / select / examine / close histories (real server)',
                     'ops {SELECT, EXAMINE, CLOSE by session 0/1, APPEND, APPEND with (\\Recent \\Seen), COPY from a '
                     'selected and from an examined source with a pending-recent message, STORE +-\\Recent}: all '
                     'histories of length 3 (quick) / 4 (thorough) with 2 sessions, plus seeded histories of length 5-6 '
                     'with 3 sessions; after every step every selected session is polled (NOOP + FETCH 1:* (UID FLAGS))',
                     bounded_recent('C17'), decisive=False),
             Bounded('the same statement on the maildir backend, wire-only (real MaildirBackend on a temporary directory)',
                     'deliveries (3 flag lists) into a mailbox with 0..2 of {SELECT, EXAMINE, CLOSE, own APPEND} sessions: 29 '
                     'fixed histories on the ++ layout (quick), plus 300 seeded histories of length 4-9 and the fixed ones on '
                     'the fs layout (thorough)',
                     bounded_recent_maildir('C17'), decisive=False)],
    level='proof', design_ref='6 C17',
    trusted_base=['abstract backend in the BaseSession contracts', 'NoYieldUnderLock (C04) for the atomicity of claim_recent',
                  'exactly-once over whole histories is the composition of these per-function facts (paper) and the '
                  'bounded run'],
)
