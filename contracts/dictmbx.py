"""Shared sorts and call models for the dict backend's MailboxData (pymap/backend/dict/mailbox.py).

Opaque object sorts (attributes live in heap arrays, so aliasing between e.g. the mailbox's message
objects and a session's cached message objects is handled by the solver):
  Msg      a dict-backend Message: uid, recent, permanent_flags, content, expunged
  Flag     an IMAP flag; Recent/Seen/Deleted/Wildcard are distinct constants
  Content, Date, Oid  never inspected
"""
import z3

from pyvc.values import *
from pyvc.values import _t, _b
from pyvc.engine import Contract, Atomic, Loop, PyRaise, with_loc
from .modseq import ModSeq

F = 'pymap/backend/dict/mailbox.py'

Flag = RefS('Flag')
Content = RefS('Content')
Date = RefS('Date')
Oid = RefS('Oid')
Msg = RefS('Msg', uid=INT, recent=BOOL, permanent_flags=SetS(Flag), content=Content, expunged=BOOL,
           internal_date=Date, email_id=Oid, thread_id=Oid)
AppendMsg = RefS('AppendMsg', when=OptS(Date), flag_set=SetS(Flag), literal=Content)

FLAG_RECENT = VRef(z3.Const('Flag.Recent', Flag.z3()), Flag)
FLAG_SEEN = VRef(z3.Const('Flag.Seen', Flag.z3()), Flag)
FLAG_DELETED = VRef(z3.Const('Flag.Deleted', Flag.z3()), Flag)
FLAG_WILDCARD = VRef(z3.Const('Flag.Wildcard', Flag.z3()), Flag)
FLAGS_DISTINCT = z3.Distinct(FLAG_RECENT.t, FLAG_SEEN.t, FLAG_DELETED.t, FLAG_WILDCARD.t)

Event = RecS('Event')
Lock = RecS('Lock')
Cache = RecS('Cache')
MBX = RecS('MailboxData', pyclass=(F, 'MailboxData'),
           _max_uid=INT, _messages=MapS(INT, Msg), _mod_sequences=ModSeq, _updated=Event,
           _messages_lock=Lock, _content_cache=Cache, _thread_cache=Cache, _readonly=BOOL)


# ---- models of the surrounding calls (ASSUMED: stated contracts of code that is not verified here)

class LockCtx:
    """`async with lock.read_lock()/write_lock()`: acquisition is a yield point (the task may be
    suspended, other tasks run); release is not (asyncio.Lock.release never suspends; the read-lock
    release path awaits only the internal counter mutex, which by NoYieldUnderLock is never held at a
    yield point).  The body's mutual exclusion is the subject of C20, not assumed here: between two
    yield points a coroutine is atomic regardless of the lock."""

    def __init__(self, yield_on_exit=False):
        self.yield_on_exit = yield_on_exit

    def __call__(self, ex, frame, item, phase):
        if phase == 'enter':
            ex.yield_point('acquire%d' % ex.site_ord(item.context_expr, frame), frame)
            ex.st.ghost['locks_held'] = ex.st.ghost.get('locks_held', 0) + 1
        else:
            ex.st.ghost['locks_held'] = ex.st.ghost.get('locks_held', 0) - 1
            if self.yield_on_exit:
                ex.yield_point('release%d' % ex.site_ord(item.context_expr, frame), frame)


lock_ctx = LockCtx()


def alloc(ex):
    g = ex.st.ghost
    if 'alloc.Msg' not in g:
        g['alloc.Msg'] = SetS(Msg).fresh('alloc.Msg')
    return g['alloc.Msg']


def ghost_init(st, sc):
    st.ghost.setdefault('alloc.Msg', SetS(Msg).fresh('alloc.Msg'))


def alloc_on_yield(ex):
    """other tasks may allocate new messages while this one is suspended; none is freed"""
    old = ex.st.ghost['alloc.Msg']
    new = SetS(Msg).fresh('alloc.Msg')
    ex.st.ghost['alloc.Msg'] = new
    ex.assume(old.subset(new))


def alloc_inv(s, p):
    m = getattr(s, p)
    a = s.ghost('alloc.Msg')
    return forall(lambda u: implies(m._messages.has(u), a.has(m._messages[u])))


def _set_attr(ex, ref, attr, value):
    ex.st.heap_get(ref, attr)
    ex.st.write(('heap', ref.sort.name, attr, ref.t), value)


def new_message(ex, uid, internal_date, flags, recent, content, expunged, email_id=None, thread_id=None):
    """model of Message.__init__/BaseMessage.__init__: a fresh object whose attributes are the constructor arguments
    (permanent_flags = frozenset(flags)).  That the attributes are the arguments is proved on the two real constructors
    (`base_message_init`, `message_init` below); that a constructor call yields an object distinct from every existing one
    is Python's semantics (ASSUMED: freshness of constructed objects); the property getters recent / permanent_flags /
    flags_key are proved to return the fields of the same name (GETTER_CONTRACTS), uid / expunged are plain attributes."""
    a = alloc(ex)
    m = Msg.fresh('newmsg')
    ex.assume(~a.has(m))
    ex.st.ghost['alloc.Msg'] = a.add(m)
    _set_attr(ex, m, 'uid', uid)
    _set_attr(ex, m, 'recent', recent)
    _set_attr(ex, m, 'permanent_flags', flags)
    _set_attr(ex, m, 'expunged', expunged)
    if content is not None:
        _set_attr(ex, m, 'content', content)
    return m


def msg_ctor(ex, frame, e):
    args, kw = ex.eval_args(e, frame)
    uid, date, flags = args[0], args[1], args[2]
    return new_message(ex, uid, date, flags, kw.get('recent', VBool(False)), kw.get('content'),
                       kw.get('expunged', VBool(False)))


def msg_copy(ex, frame, e):
    """Message.copy(msg, *, uid=None, recent=False, expunged=False): inlined from the real classmethod
    body would need the constructor anyway; modelled as: fresh object, same flags/date/content."""
    args, kw = ex.eval_args(e, frame)
    src = args[0]
    uid = kw.get('uid', VNone())
    if isinstance(uid, VNone):
        uid = ex.st.heap_get(src, 'uid')
    flags = ex.st.heap_get(src, 'permanent_flags')
    content = ex.st.heap_get(src, 'content')
    return new_message(ex, uid, None, flags, kw.get('recent', VBool(False)), content,
                       kw.get('expunged', VBool(False)))


def opaque(sort, name):
    def model(ex, frame, e, base=None):
        ex.eval_args(e, frame)
        return sort.fresh(name)
    return model


def event_set(ex, frame, e, base):
    ex.st.events.append('updated.set')
    ex.st.ghost['signalled'] = VBool(True)
    return VNone()


BASE_CALLS = {
    '*.read_lock': lock_ctx, '*.write_lock': lock_ctx,
    'Message': msg_ctor, 'Message.copy': msg_copy,
    'MessageContent.parse': opaque(Content, 'content'),
    'datetime.now': opaque(Date, 'now'),
}

BASE_REGISTRY = {
    ('Event', 'set'): event_set,
    ('Cache', 'add'): opaque(Oid, 'oid'),
}

GLOBALS = {'Seen': FLAG_SEEN, 'Recent': FLAG_RECENT}


def flags_requires():
    return [('flags_distinct', lambda s: VBool(FLAGS_DISTINCT))]


def _bind_pyclasses():
    from pymap.backend.dict.mailbox import Message
    Msg.pyclass = Message


_bind_pyclasses()


# ---- the real Message.copy (classmethod) against the model `msg_copy` used by the MailboxData contracts

Msg.alias = {'_content': 'content'}


def _cls_ctor(ex, frame, e):
    return msg_ctor(ex, frame, e)


message_copy = Contract(
    'C17', F, 'Message.copy', params=dict(cls=NoneS(), msg=Msg, uid=OptS(INT), recent=BOOL, expunged=BOOL),
    calls={'cls': _cls_ctor}, ghost_init=ghost_init,
    requires=[('source_is_allocated', lambda s: s.ghost('alloc.Msg').has(s.msg))],
    ensures=[
        ('copy_is_recent_only_if_asked', lambda s: s.wrap(s.result).recent == s.recent),
        ('same_flags', lambda s: s.wrap(s.result).permanent_flags == s.msg.permanent_flags),
        ('same_content_object', lambda s: s.wrap(s.result).content == s.msg.content),
        ('uid_as_given_or_kept', lambda s: s.wrap(s.result).uid == ite(is_none(s.uid), s.msg.uid, s.uid.val())),
        ('expunged_as_given', lambda s: s.wrap(s.result).expunged == s.expunged),
        ('a_fresh_object', lambda s: ~s.old.ghost('alloc.Msg').has(s.result)),
    ],
    raises_only=(), returns=Msg,
    note='justifies the model msg_copy() that stands for Message.copy inside the MailboxData contracts')


# ---- the two real constructors against the model `new_message` (was an ASSUMED model until the last round)
import ast as _ast  # noqa: E402
from pyvc.engine import Scope as _Scope  # noqa: E402

MF = 'pymap/message.py'
_Date = RefS('Datetime')
_MsgContent = RefS('MessageContent')
_FKey = TupleS(INT, SetS(Flag))
_BASE_FIELDS = dict(uid=INT, internal_date=_Date, expunged=BOOL, _email_id=Oid, _thread_id=Oid,
                    _permanent_flags=SetS(Flag), _flags_key=_FKey)
BaseMsgRec = RecS('BaseMessage', pyclass=(MF, 'BaseMessage'), **_BASE_FIELDS)
DictMsgRec = RecS('Message', pyclass=(F, 'Message'), _recent=BOOL, _content=OptS(_MsgContent), **_BASE_FIELDS)


def _ctor_none(ex, frame, e, base=None):
    ex.eval_args(e, frame)
    return VNone()


def _ctor_oid(ex, frame, e, base=None):
    ex.eval_args(e, frame)
    return Oid.fresh('oid')


def _frozenset_or_empty(ex, frame, e, base=None):
    """frozenset(x or ()) for a set x is x: an empty x is falsy and replaced by (), whose frozenset is empty as well.
    Any other argument shape is outside this model (the contract then reports undecided, never a pass)."""
    a = e.args[0]
    if not (isinstance(a, _ast.BoolOp) and isinstance(a.op, _ast.Or) and len(a.values) == 2 and
            isinstance(a.values[1], _ast.Tuple) and not a.values[1].elts):
        from pyvc.engine import Unsupported
        raise Unsupported('frozenset(...) of an argument that is not `x or ()`')
    return ex.eval(a.values[0], frame)


_CTOR_POST = [
    ('keeps_uid_date_expunged', lambda s: (s.self.uid == s.uid) & (s.self.internal_date == s.internal_date) &
     (s.self.expunged == s.expunged)),
    ('permanent_flags_are_exactly_the_given_flags', lambda s: s.self._permanent_flags == s.permanent_flags),
    ('flags_key_is_uid_and_flags', lambda s: (s.self._flags_key[0] == s.uid) & (s.self._flags_key[1] == s.permanent_flags)),
]

base_message_init = Contract(
    'C17', MF, 'BaseMessage.__init__',
    params=dict(self=BaseMsgRec, uid=INT, internal_date=_Date, permanent_flags=SetS(Flag), email_id=OptS(Oid),
                thread_id=OptS(Oid), expunged=BOOL),
    ensures=_CTOR_POST + [('keeps_a_given_email_id', lambda s: when_some(s.email_id, lambda r: s.self._email_id == r)),
                          ('keeps_a_given_thread_id', lambda s: when_some(s.thread_id, lambda r: s.self._thread_id == r))],
    calls={'super().__init__': _ctor_none, 'ObjectId': _ctor_oid, 'frozenset': _frozenset_or_empty},
    modifies=['self'], raises_only=(), returns=NoneS(),
    note='justifies the model new_message(); ObjectId has no __bool__/__len__, so `email_id or ObjectId(None)` keeps a given id')


def _super_init(ex, frame, e, base=None):
    """callee contract of BaseMessage.__init__ (base_message_init, proved), applied to self: its ensures, nothing more"""
    args, kw = ex.eval_args(e, frame)
    me = ex.frames[0].env['self']
    f = ex.st.store[me.rid]
    f['uid'], f['internal_date'], f['_permanent_flags'] = args[0], args[1], args[2]
    f['expunged'] = kw['expunged']
    key = _FKey.fresh('flags_key')
    sc = _Scope(ex.st, {'k': key})
    ex.assume(_b(sc.k[0] == args[0]))
    ex.assume(_b(sc.k[1] == args[2]))
    f['_flags_key'] = key
    f['_email_id'], f['_thread_id'] = Oid.fresh('email_id'), Oid.fresh('thread_id')
    return VNone()


message_init = Contract(
    'C17', F, 'Message.__init__',
    params=dict(self=DictMsgRec, uid=INT, internal_date=_Date, permanent_flags=SetS(Flag), expunged=BOOL,
                email_id=OptS(Oid), thread_id=OptS(Oid), recent=BOOL, content=OptS(_MsgContent)),
    ensures=_CTOR_POST + [('keeps_recent_and_content', lambda s: (s.self._recent == s.recent) & (s.self._content == s.content))],
    calls={'super().__init__': _super_init}, modifies=['self'], raises_only=(), returns=NoneS(),
    note='justifies the model new_message(): \\Recent of a new dict message is exactly the `recent` argument')


# the one-line property getters the heap model reads as attributes of the same name (find_function takes the first
# definition of the name, which is the @property getter; the setters are not addressed here)
def _getter(relfile, qual, rec, field, sort):
    return Contract('C17', relfile, qual, params=dict(self=rec),
                    ensures=[('returns_the_field_and_changes_nothing', lambda s: s.result == getattr(s.self, field))],
                    modifies=[], raises_only=(), returns=sort,
                    note=f'justifies reading msg.{qual.split(".")[-1]} as the field {field} in the message model')


GETTER_CONTRACTS = [
    _getter(F, 'Message.recent', DictMsgRec, '_recent', BOOL),
    _getter(MF, 'BaseMessage.permanent_flags', BaseMsgRec, '_permanent_flags', SetS(Flag)),
    _getter(MF, 'BaseMessage.flags_key', BaseMsgRec, '_flags_key', _FKey),
]
CTOR_CONTRACTS = [base_message_init, message_init] + GETTER_CONTRACTS
