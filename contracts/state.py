"""Contracts of pymap/imap/state.py (ConnectionState): the command gate, SELECT/CLOSE, and the
hide_expunged / set_seen protocol of FETCH, STORE and SEARCH (C05, C01, C12).

The session (SessionInterface) is abstract here: its methods are used through the call-site facts established by
the BaseSession contracts (contracts/session.py): update_flags / expunge_mailbox raise MailboxReadOnly exactly
for a read-only selection; select_mailbox returns a selection made under the requested name, read-only if asked.
"""
import z3

from pyvc.values import *
from pyvc.values import _t, _b
from pyvc.engine import Contract, Loop, PyRaise, Unsupported, unview
from .selected import SEL, NameR
from .dictmbx import Msg, Flag
from . import flags as FL, selected as SELM

from pymap.exceptions import MailboxReadOnly, MailboxNotFound, ResponseError, CloseConnection, NotSupportedError

F = 'pymap/imap/state.py'

SessR = RefS('Sess')
RespR = RefS('Response', kind=INT, code=RefS('Code'))      # kind: 1 OK 2 NO 3 BAD
AttrR = RefS('FetchAttr', set_seen=BOOL)
# list-valued attributes cannot live in heap arrays: cmd.attributes is modelled by a ghost list per contract

STATE = RecS('ConnectionState', pyclass=(F, 'ConnectionState'), _session=OptS(SessR), _selected=SEL,
             _capability=RefS('CapList'), auth=RefS('Auth'), config=RefS('Config'), login=RefS('Login'))
STATE_NOSEL = RecS('ConnectionState', pyclass=(F, 'ConnectionState'), _session=OptS(SessR), _selected=NoneS(),
                   _capability=RefS('CapList'), auth=RefS('Auth'), config=RefS('Config'), login=RefS('Login'))


def _resp(kind):
    def model(ex, frame, e):
        r = RespR.fresh('resp')
        ex.st.heap_get(r, 'kind')
        ex.st.write(('heap', 'Response', 'kind', r.t), VInt(kind))
        return r
    return model


def _noop_method(ex, frame, e, base):
    import ast as _ast
    if not any(isinstance(a, _ast.Starred) for a in e.args):
        ex.eval_args(e, frame)      # the arguments are evaluated (their constructors may carry obligations)
    return VNone()


def _opaque(name):
    S = RefS(name)

    def model(ex, frame, e, base=None):
        return S.fresh(name.lower())
    return model


def _attributes(ex, frame, ref):
    g = ex.st.ghost
    if 'cmd.attributes' not in g:
        l = ListS(AttrR).fresh('cmd.attributes')
        ex.assume(l.n >= 0)
        g['cmd.attributes'] = l
    return g['cmd.attributes']


def _the_selected(ex):
    st = ex.frames[0].env['self']
    return ex.st.store[st.rid]['_selected']


def _session_call(kind):
    """call-site obligations of the BaseSession method + its result"""
    def model(ex, frame, e, base):
        args, kw = ex.eval_args(e, frame)
        name = ex.c.name
        sel = args[0] if args and isinstance(args[0], VRec) else None
        cmd = ex.frames[0].env.get('cmd')
        if kind in ('fetch_messages', 'update_flags', 'search_mailbox'):
            uid = ex.st.heap_get(cmd, 'uid')
            hide = ex.st.store[sel.rid]['_hide_expunged']
            ex.oblige(f'{name}/call:{kind}/expunges_hidden_for_a_non_uid_command',
                      z3.Implies(z3.Not(uid.t), hide.t))
            ex.oblige(f'{name}/call:{kind}/expunges_not_hidden_for_a_uid_command',
                      z3.Implies(uid.t, hide.t == ex.old_scope._st.store[sel.rid]['_hide_expunged'].t))
            ex.oblige(f'{name}/call:{kind}/on_the_connections_selection',
                      z3.BoolVal(sel is not None and sel.rid == _the_selected(ex).rid))
        if kind == 'fetch_messages':
            set_seen = args[2]
            ex.oblige(f'{name}/call:fetch_messages/set_seen_only_when_read_write',
                      z3.Implies(_b(set_seen), z3.Not(ex.st.store[sel.rid]['_readonly'].t)))
        if kind in ('fetch_messages', 'update_flags', 'search_mailbox', 'expunge_mailbox') and ex.choose(2) == 1:
            # BaseSession contract: every method that looks the selection's mailbox up (_get_selected) answers
            # MailboxNotFound when another session has deleted that mailbox meanwhile
            raise PyRaise(MailboxNotFound)
        if kind in ('update_flags', 'expunge_mailbox'):
            # BaseSession contract: MailboxReadOnly exactly for a read-only selection, before any effect
            ro = ex.st.store[sel.rid]['_readonly']
            if ex.decide(ro):
                raise PyRaise(MailboxReadOnly)
        if kind == 'select_mailbox':
            if ex.choose(2) == 1:
                raise PyRaise(MailboxNotFound)
            new = ex.st.new_record(SEL, 'new_selection')
            ex.assume(ex.st.store[new.rid]['_lookup'].t == args[0].t)
            ex.assume(z3.Implies(_b(args[1]), ex.st.store[new.rid]['_readonly'].t))
            ex.st.ghost['new_selection'] = new
            return VTuple([RefS('Snapshot', recent=INT, exists=INT, permanent_flags=RefS('FlagList'), flags=RefS('FlagList'),
                                next_uid=INT, uid_validity=INT, first_unseen=INT,
                                mailbox_id=RefS('Oid')).fresh('snapshot'), new])
        if kind in ('fetch_messages', 'update_flags', 'search_mailbox'):
            lst = ListS(TupleS(INT, Msg)).fresh('messages')
            ex.assume(lst.n >= 0)
            return VTuple([lst, sel])
        if kind == 'expunge_mailbox':
            return sel
        raise Unsupported(kind)
    return model


def _deselect_site(ex, frame, e, base):
    """selected.deselect(): the object leaves the set of selected mailbox objects NOW (a selection that merely becomes
    unreferenced stays in the weak set until it is collected, and would go on taking the \\Recent of later deliveries)"""
    ex.st.ghost['deselected'] = base
    return VNone()


def _old_selection_left_the_set(s):
    old = unview_field(s.old, '_selected')
    if isinstance(old, VNone):
        return VBool(True)
    d = s._st.ghost.get('deselected')
    return VBool(d is not None and getattr(d, 'rid', None) == old.rid)


def _exists_site(ex, frame, e):
    """ExistsResponse(n) in do_select: the count the client is told is the count of the VIEW the server will number from
    (the new selection's synchronized messages) -- not the snapshot's, which another session may have outdated between
    snapshot() and update_selected(); the first fork has nothing to compare with and would never repair the difference"""
    from pyvc import builtins_model as bm
    args, kw = ex.eval_args(e, frame)
    new = ex.st.ghost.get('new_selection')
    if new is not None and ex.c.qualname.endswith('do_select'):
        sm = ex.st.store[new.rid]['_messages']
        uids = ex.st.store[sm.rid]['_uids']
        ex.oblige(f'{ex.c.name}/ExistsResponse/is_the_count_of_the_view_the_server_numbers_from',
                  _t(args[0]) == _t(bm.card(ex, uids)))
    return RefS('Untagged').fresh('untagged')


def _silence_site(ex, frame, e, base):
    """selected.silence(...): what it records is only taken back by the fork that follows a COMPLETED command, so it may
    only be asked for a STORE that is going to be attempted -- never on a read-only selection, whose STORE is refused"""
    ex.eval_args(e, frame)
    ex.oblige(f'{ex.c.name}/call:silence/never_for_a_store_that_will_be_refused_as_read_only',
              z3.Not(ex.st.store[base.rid]['_readonly'].t))
    return VNone()


REG = {
    ('Sess', 'fetch_messages'): _session_call('fetch_messages'),
    ('Sess', 'update_flags'): _session_call('update_flags'),
    ('Sess', 'search_mailbox'): _session_call('search_mailbox'),
    ('Sess', 'expunge_mailbox'): _session_call('expunge_mailbox'),
    ('Sess', 'select_mailbox'): _session_call('select_mailbox'),
    ('Response', 'add_untagged'): _noop_method,
    ('Response', 'add_untagged_ok'): _noop_method,
    ('SelectedMailbox', 'silence'): lambda ex, frame, e, base: _silence_site(ex, frame, e, base),
    ('SelectedMailbox', 'deselect'): lambda ex, frame, e, base: _deselect_site(ex, frame, e, base),
    ('Msg', 'get_flags'): _opaque('FSetV'),
    ('MsgAttrs', 'load_hook'): _opaque('Hook'),
}

CALLS = {
    'ResponseOk': _resp(1), 'ResponseNo': _resp(2), 'ResponseBad': _resp(3),
    'ResponseCode.of': _opaque('Code'), 'MessageAttributes': _opaque('MsgAttrs'),
    'FetchResponse': _opaque('Untagged'), 'SearchResponse': _opaque('Untagged'),
    'FetchValue.of': _opaque('FetchValue'), 'List': _opaque('PList'), 'Number': _opaque('PNumber'),
    'FlagsResponse': _opaque('Untagged'), 'ExistsResponse': lambda ex, frame, e, base=None: _exists_site(ex, frame, e),
    'RecentResponse': _opaque('Untagged'), 'PermanentFlags': _opaque('Code'), 'UidNext': _opaque('Code'),
    'UidValidity': _opaque('Code'), 'Unseen': _opaque('Code'), 'MailboxId': _opaque('Code'),
}
INLINE = {'ConnectionState.selected', 'ConnectionState.session', 'ConnectionState._deselect'}
CmdS = RefS('Cmd', uid=BOOL, silent=BOOL, readonly=BOOL, mailbox=NameR, cmdkind=INT, tag=RefS('Tag'),
            command=RefS('Bytes'), sequence_set=RefS('SeqSetRef'), flag_set=RefS('FlagSetRef'),
            mode=RefS('FlagOp'), keys=RefS('Keys'))


def _mk(name, params, **kw):
    c = Contract(kw.pop('prop', 'C05'), F, f'ConnectionState.{name}', params=params, calls=CALLS, inline=INLINE,
                 typemap={'FetchValue': RefS('FetchValue'), 'int': INT}, **kw)
    c.attr_models = {('Cmd', 'attributes'): _attributes}
    return c


_loop = {0: Loop()}

do_fetch = _mk('do_fetch', dict(self=STATE, cmd=CmdS), prop='C01', loops=_loop,
               ensures=[('returns_the_selection_for_forking', lambda s: VBool(unview(s.result[1]).rid == unview(s.self._selected).rid))],
               raises_only=(ResponseError, AttributeError))
do_store = _mk('do_store', dict(self=STATE, cmd=CmdS), prop='C01', loops=_loop,
               ensures=[('returns_the_selection_for_forking', lambda s: VBool(unview(s.result[1]).rid == unview(s.self._selected).rid))],
               raises={ResponseError: []}, raises_only=(ResponseError, AttributeError))
do_search = _mk('do_search', dict(self=STATE, cmd=CmdS), prop='C01', loops=_loop,
                ensures=[('returns_the_selection_for_forking', lambda s: VBool(unview(s.result[1]).rid == unview(s.self._selected).rid))],
                raises_only=(ResponseError, AttributeError))

do_close = _mk('do_close', dict(self=STATE, cmd=CmdS), prop='C05',
               ensures=[('answers_ok', lambda s: s.wrap(s.result[0]).kind == 1),
                        ('deselects', lambda s: VBool(isinstance(unview_field(s, '_selected'), VNone))),
                        ('the_old_selection_is_taken_out_of_the_selected_set', _old_selection_left_the_set),
                        ('hands_back_no_selection', lambda s: is_none(s.result[1]))],
               raises_only=(AttributeError,),
               note='CLOSE always succeeds and deselects (statement of C05/C12), for read-only selections too')


def unview_field(s, f):
    st = s._st
    rec = s._names['self']
    return st.store[rec.rid][f]


do_select = _mk('do_select', dict(self=STATE, cmd=CmdS), prop='C05',
                ensures=[
                    ('selects_exactly_the_requested_mailbox', lambda s: s.wrap(s.result[1])._lookup == s.cmd.mailbox),
                    ('read_only_when_examined', lambda s: implies(s.cmd.readonly, s.wrap(s.result[1])._readonly)),
                    ('hands_back_the_new_selection', lambda s: VBool(
                        unview(s.result[1]).rid == s.ghost('new_selection').rid)),
                    ('the_old_selection_is_taken_out_of_the_selected_set', _old_selection_left_the_set),
                ],
                raises={ResponseError: [('failed_select_leaves_none_selected', lambda s: VBool(
                    isinstance(unview_field(s, '_selected'), VNone))),
                    ('the_old_selection_is_taken_out_of_the_selected_set', _old_selection_left_the_set)]},
                raises_only=(ResponseError, AttributeError))

CONTRACTS = [do_fetch, do_store, do_search, do_close, do_select]


# ---- do_command: the RFC 3501 section 3 gate, and the fork after every command

from pymap.parsing.command import CommandAuth, CommandNonAuth, CommandSelect  # noqa: E402
from pymap.parsing.commands import InvalidCommand  # noqa: E402

K_INVALID, K_NONAUTH, K_AUTH, K_SELECT, K_ANY = range(5)


def _cmd_isinstance(ex, ref, classes):
    k = ex.st.heap_get(ref, 'cmdkind').t
    r = z3.BoolVal(False)
    for c in classes:
        if c is InvalidCommand:
            r = z3.Or(r, k == K_INVALID)
        elif c is CommandNonAuth:
            r = z3.Or(r, k == K_NONAUTH)
        elif c is CommandAuth:
            r = z3.Or(r, k == K_AUTH, k == K_SELECT)
        elif c is CommandSelect:
            r = z3.Or(r, k == K_SELECT)
        else:
            raise Unsupported(f'isinstance(cmd, {c.__name__})')
    return VBool(r)


CmdS.isinstance_hook = _cmd_isinstance
CmdS.attrs['message'] = RefS('Bytes')


def _func_model(ex, frame, e):
    """`await func(cmd)`: the dispatched do_* method (each under its own contract).  Here: the dispatch event,
    and a result (response, None | a selection to fork)"""
    ex.st.ghost['dispatched'] = True
    cur = _the_selected(ex)
    if isinstance(cur, VRec):
        ex.oblige(f'{ex.c.name}/dispatch/every_command_starts_with_expunges_not_hidden',
                  z3.Not(ex.st.store[cur.rid]['_hide_expunged'].t))
    resp = RespR.fresh('do_response')
    if ex.choose(2) == 0:
        return VTuple([resp, VNone()])
    sel = ex.st.new_record(SEL, 'updates')
    ex.st.ghost['updates'] = sel
    return VTuple([resp, sel])


def _fork_model(ex, frame, e, base):
    new = ex.st.new_record(SEL, 'forked')
    ex.assume(~ex.st.store[new.rid]['_hide_expunged'])
    ex.st.ghost['forked'] = new
    ex.st.ghost['forked_from'] = base
    return VTuple([new, RefS('UntaggedList').fresh('untagged')])


def _getattr_model(ex, frame, e):
    if ex.choose(2) == 1:
        raise PyRaise(AttributeError)
    return VConst('bound-method')


def _refused(s):
    k = s.cmd.cmdkind
    has_session = ~is_none(s.old.self._session)
    sel = unview_field(s.old, '_selected')
    has_sel = VBool(not isinstance(sel, VNone))
    return (k == K_INVALID) | (has_session & (k == K_NONAUTH)) | \
        (~has_session & ((k == K_AUTH) | (k == K_SELECT))) | (~has_sel & (k == K_SELECT))


def _cmd_contract(state_sort, variant):
    c = _mk('do_command', dict(self=state_sort, cmd=CmdS), prop='C05', variant=variant,
            requires=[('command_kind', lambda s: (s.cmd.cmdkind >= 0) & (s.cmd.cmdkind <= 4))],
            ensures=[
                ('refused_command_is_answered_bad', lambda s: implies(_refused(s), s.wrap(s.result).kind == 3)),
                ('refused_command_is_not_dispatched', lambda s: implies(
                    _refused(s), VBool(not s._st.ghost.get('dispatched', False)))),
                ('refused_command_leaves_the_state_alone', lambda s: implies(
                    _refused(s), (s.self._session == s.old.self._session) & VBool(
                        same_sel(unview_field(s, '_selected'), unview_field(s.old, '_selected'))))),
                ('selection_is_replaced_by_the_fork_of_the_returned_one', lambda s: VBool(
                    ('updates' not in s._st.ghost) or (
                        'forked' in s._st.ghost and
                        unview_field(s, '_selected').rid == s._st.ghost['forked'].rid and
                        s._st.ghost['forked_from'].rid == s._st.ghost['updates'].rid))),
            ],
            raises_only=(ResponseError,))
    c.calls = dict(c.calls)
    c.calls.update({'func': _func_model, 'getattr': _getattr_model,
                    'self._get_func_name': _opaque('FuncName')})
    return c


def same_sel(a, b):
    if isinstance(a, VNone) or isinstance(b, VNone):
        return isinstance(a, VNone) and isinstance(b, VNone)
    return a.rid == b.rid


REG[('SelectedMailbox', 'fork')] = _fork_model
do_command_sel = _cmd_contract(STATE, 'mailbox-selected')
do_command_nosel = _cmd_contract(STATE_NOSEL, 'nothing-selected')
CONTRACTS += [do_command_sel, do_command_nosel]


# ---- ConnectionState.do_greeting (C05): what the run loop's model of the greeting relies on (contracts/runstate.py
#      assumed "answers OK / PREAUTH, or raises ResponseError"; proved here on the real method)
from pymap.parsing.response import ResponseOk as _ROk, ResponsePreAuth as _RPreAuth, ResponseBye as _RBye  # noqa: E402

_CredR = RefS('Creds')
GreetCfg = RecS('IMAPConfig', reject_dnsbl=BOOL, preauth_credentials=OptS(_CredR), tls_auth=RefS('Auth'),
                greeting=RefS('Bytes'))
SockInfo = RecS('SocketInfo', dnsbl=OptS(RefS('Str')), from_localhost=BOOL)
GREET_STATE = RecS('ConnectionState', pyclass=(F, 'ConnectionState'), _session=OptS(SessR), auth=RefS('Auth'),
                   config=GreetCfg, capability=RefS('CapList'))


def _greet_sock(ex, frame, e, base=None):
    return ex.st.new_record(SockInfo, 'sock_info')


def _greet_login(ex, frame, e, base=None):
    """self._login(creds): returns a session or raises a ResponseError (its own contract is C09's subject)"""
    ex.eval_args(e, frame)
    ex.st.ghost['login_called'] = VBool(True)
    if ex.decide(BOOL.fresh('login_refused')):
        raise PyRaise(ResponseError)
    return SessR.fresh('session')


def _greet_response(ex, frame, e, base=None):
    """resp_cls(b'*', greeting, capability): the class is whatever the real code bound to resp_cls on this path"""
    args, kw = ex.eval_args(e, frame)
    cls = frame.env['resp_cls']
    py = getattr(cls, 'py', None)
    base_name = f'{ex.c.name}/greeting'
    ex.oblige(f'{base_name}/is_an_OK_or_a_PREAUTH_response_never_a_BYE',
              z3.BoolVal(py in (_ROk, _RPreAuth) and not issubclass(py, _RBye)))
    tag = args[0]
    ex.oblige(f'{base_name}/is_untagged', z3.And(tag.n == 1, tag.arr[0] == 42) if isinstance(tag, VList) else z3.BoolVal(False))
    ex.st.ghost['preauth_greeting'] = VBool(py is _RPreAuth)
    return RespR.fresh('greeting')


def _greet_ghost(st, sc):
    st.ghost['login_called'] = VBool(False)
    st.ghost['preauth_greeting'] = VBool(False)


do_greeting = Contract(
    'C05', F, 'ConnectionState.do_greeting', params=dict(self=GREET_STATE),
    requires=[('no_session_yet', lambda s: is_none(s.self._session))],
    ensures=[('logs_in_exactly_when_preauth_credentials_are_configured',
              lambda s: s.ghost('login_called') == ~is_none(s.self.config.preauth_credentials)),
             ('PREAUTH_exactly_when_a_session_was_established',
              lambda s: s.ghost('preauth_greeting') == ~is_none(s.self._session)),
             ('a_session_only_from_a_login', lambda s: implies(~is_none(s.self._session), s.ghost('login_called')))],
    calls={'socket_info.get': _greet_sock, 'self._login': _greet_login, 'resp_cls': _greet_response,
           'NotAllowedError': lambda ex, frame, e, base=None: RefS('Exc').fresh('exc')},
    ghost_init=_greet_ghost, modifies=['self._session', 'self.auth'], raises={ResponseError: [
        ('a_refused_greeting_leaves_no_session', lambda s: is_none(s.self._session))]}, returns=RespR)
