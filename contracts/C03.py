"""C03 -- message bytes are stored and returned verbatim.

Deductive kernel:
  MessageContent._find_lines     the line index is a partition of [0, len(data)): consecutive triples
                                 (start, end, next), terminators exactly LF / CRLF, terminates
  find_any                       first / last (non-)marker byte in a range
  MessageContent._split_lines    header lines ++ body lines == all lines
  get_raw (1 and 2 groups)       the slice from the first line of the first non-empty group to the end of the
                                 last line of the last non-empty group; empty when all groups are empty
  lemma (over these contracts)   bytes(content) is data[0:len] and HEADER followed by TEXT is data[0:len]
  _get_partial                   BODY[...]<o.n> is exactly full[o:o+n]
  dict MailboxData.append        the stored message holds the content parsed from THIS literal
  dict MailboxData.copy / move   the copy holds the same content object (contracts of C10)
Bounded: APPEND of byte strings to the real server and FETCH in every form the statement names.
"""
import z3

from pyvc.values import *
from pyvc.engine import Contract
from pyvc.prop import Property, Bounded, Lemma
from . import mime as M, dictmbx as D, C10 as C10M, loaded as LD
from .C04 import weak_update, weak_expunge
from harness.e2e_bytes import bounded_bytes


def _parse_model(ex, frame, e):
    ex.eval_args(e, frame)
    c = D.Content.fresh('parsed')
    ex.st.ghost['parsed_content'] = c
    return c


_calls = dict(D.BASE_CALLS)
_calls['MessageContent.parse'] = _parse_model
REG = dict(D.BASE_REGISTRY)
REG[('ModSeq', 'update')] = weak_update
REG[('ModSeq', 'expunge')] = weak_expunge
REG[('Cache', 'get')] = D.opaque(D.Content, 'cached_content')

append = Contract('C03', D.F, 'MailboxData.append', globals=D.GLOBALS, variant='content',
                  params=dict(self=D.MBX, append_msg=D.AppendMsg, recent=BOOL), calls=_calls,
                  ghost_init=D.ghost_init, returns=D.Msg,
                  ensures=[('stores_the_content_parsed_from_this_literal',
                            lambda s: s.wrap(s.result).content == s.ghost('parsed_content')),
                           ('stored_under_its_uid',
                            lambda s: s.self._messages[s.wrap(s.result).uid] == s.wrap(s.result))],
                  raises_only=())

FACTORIES = {}


def _factories():
    from pymap.parsing.specials.fetchattr import FetchPartial
    FACTORIES['FetchPartial'] = lambda name, attrs, ctx: FetchPartial(attrs.get('start', 0), attrs.get('length'))


_factories()


def _lift_bytes(result, lifter):
    return lifter.lift(M.BYTES, list(bytes(result)))


for c in (M.get_partial, M.get_partial_none):
    c.lift_result = _lift_bytes

PROPERTY = Property(
    'C03', 'Message bytes are stored and returned verbatim',
    contracts=M.CONTRACTS + [append, C10M.copy, C10M.move] + LD.CONTRACTS, registry=REG, factories=FACTORIES,
    lemmas=[Lemma('C03/lemma/raw_is_whole_input_and_header_plus_text_is_input', M.content_lemma)],
    bounded=[Bounded('APPEND b, FETCH every form (real server, dict backend)',
                     'b: 20 special shapes (empty, no header, no separator, no final newline, CR/LF/NUL/8-bit, folded '
                     'headers, multipart, message/rfc822, 70 KB header line) + every string over '
                     '{CR,LF,SP,TAB,a,:,NUL,0x80} up to length 3 (quick) / 4 (thorough) + seeded strings up to 300 '
                     'bytes; forms: BODY[], RFC822, RFC822.SIZE, HEADER+TEXT, 9 partial ranges, the same for the COPY '
                     'and the MOVEd message, BODYSTRUCTURE octets vs BODY[1]',
                     bounded_bytes('C03'), decisive=False),
             Bounded('the same on the maildir backend (real MaildirBackend on a temporary directory)',
                     'the 20 special shapes, every string over the alphabet up to length 2 (thorough 3), 60 (600) seeded longer '
                     'ones; first clause: the stored bytes (BODY[] right after APPEND) equal the appended bytes -- known finding '
                     'C03-maildir-reserialises-messages; every other clause is then checked against the bytes the backend stored',
                     bounded_bytes('C03', backend='++'), decisive=False)],
    level='proof', design_ref='6 C03',
    trusted_base=['bytes.find / slicing axioms of the engine', 'MessageHeader/MessageBody keep the line groups they '
                  'are given (bounded)', 'LiteralString writes len(payload) and the payload (bounded)',
                  'maildir: bounded only, see the known finding'],
)
