"""Contracts of pymap.backend.dict.mailbox._ModSequenceMapping -- the change log that carries C02.

Representation invariant RI (conjunct-wise, each conjunct its own obligation):
  R1 highest >= 0
  R2 every key of _updates/_expunges lies in 1.._highest
  R3 no mod-seq is a key of both maps
  R4 _mod_seqs_order is strictly increasing
  R5 every element of _mod_seqs_order is a key of one of the maps
  R6 every key is in _mod_seqs_order (ghost position map g_pos; maintained by a write hook)
  R7/R8 u in _updates[m] (resp. _expunges[m])  ==>  _uids[u] == m
  R9 every logged uid has a live record at its mod-seq:  u in dom(_uids) ==> u in _updates[_uids[u]] or
     u in _expunges[_uids[u]]
(R3+R7+R8: a uid has exactly one live record.)
"""
from pyvc.values import *
from pyvc.values import _t, _b
from pyvc.engine import Contract, Loop
import z3

F = 'pymap/backend/dict/mailbox.py'

ModSeq = RecS('ModSeq', pyclass=(F, '_ModSequenceMapping'),
              _highest=INT, _uids=MapS(INT, INT), _updates=MapS(INT, SetS(INT)),
              _expunges=MapS(INT, SetS(INT)), _mod_seqs_order=ListS(INT), g_pos=MapS(INT, INT))
ModSeq.ghost['g_pos'] = lambda obj: {v: i for i, v in enumerate(obj._mod_seqs_order)}


def _order_hook(st, rec, old, new):
    """ghost: keep g_pos the position map of _mod_seqs_order (append / remove are the only writers)"""
    g = st.store[rec.rid]['g_pos']
    if old is None or not isinstance(old, VList):
        return
    x = z3.Int(fresh_name('gx'))
    if hasattr(new, 'removed_at'):
        idx = new.removed_at
        val = z3.Lambda([x], z3.If(g.val[x] > idx, g.val[x] - 1, g.val[x]))
        st.store[rec.rid]['g_pos'] = VMap(g.dom, val, INT, INT)
    else:
        d = z3.simplify(new.n - old.n)
        if z3.is_int_value(d) and d.as_long() == 1:
            st.store[rec.rid]['g_pos'] = VMap(g.dom, z3.Store(g.val, new.arr[old.n], old.n), INT, INT)


ModSeq.hooks['_mod_seqs_order'] = _order_hook


def kind_upd(m, u):
    return m._updates.has(m._uids[u]) & m._updates[m._uids[u]].has(u)


def kind_exp(m, u):
    return m._expunges.has(m._uids[u]) & m._expunges[m._uids[u]].has(u)


def RI(m, skip=()):
    U, X, O, uid, H, pos = m._updates, m._expunges, m._mod_seqs_order, m._uids, m._highest, m.g_pos
    iskey = lambda k: U.has(k) | X.has(k)
    cl = [
        ('R1_highest_nonneg', H >= 0),
        ('R2_key_range', forall(lambda k: implies(iskey(k), (k >= 1) & (k <= H)))),
        ('R3_disjoint', forall(lambda k: ~(U.has(k) & X.has(k)))),
        ('R4_order_sorted', forall(lambda i, j: implies((i >= 0) & (i < j) & (j < O.len), O[i] < O[j]), n=2)),
        ('R5_order_are_keys', forall(lambda i: implies((i >= 0) & (i < O.len), iskey(O[i])))),
        ('R6_keys_in_order', forall(lambda k: implies(iskey(k), (pos[k] >= 0) & (pos[k] < O.len) & (O[pos[k]] == k)))),
        ('R7_upd_sound', forall(lambda k, u: implies(U.has(k) & U[k].has(u), uid.has(u) & (uid[u] == k)), n=2)),
        ('R8_exp_sound', forall(lambda k, u: implies(X.has(k) & X[k].has(u), uid.has(u) & (uid[u] == k)), n=2)),
        ('R9_uid_live', forall(lambda u: implies(uid.has(u), kind_upd(m, u) | kind_exp(m, u)))),
    ]
    return [(l, c) for l, c in cl if l not in skip]


def ri_clauses(sel, skip=()):
    """[(label, lambda s: ...)] for the record selected by sel(s)"""
    labels = [l for l, _ in RI_LABELS if l not in skip]
    return [(l, (lambda s, l=l: dict(RI(sel(s)))[l])) for l in labels]


RI_LABELS = [(l, None) for l in ['R1_highest_nonneg', 'R2_key_range', 'R3_disjoint', 'R4_order_sorted',
                                 'R5_order_are_keys', 'R6_keys_in_order', 'R7_upd_sound', 'R8_exp_sound',
                                 'R9_uid_live']]


def in_list(lst, u, lo=0, hi=None):
    hi = lst.len if hi is None else hi
    return exists(lambda i: (i >= lo) & (i < hi) & (lst[i] == u))


def distinct(lst):
    return forall(lambda i, j: implies((i >= 0) & (i < j) & (j < lst.len), lst[i] != lst[j]), n=2)


def _set_loop(which):
    """loop invariant of `for uid in uids` inside _set (inlined into update / expunge)"""
    data = (lambda m: m._updates) if which == 'upd' else (lambda m: m._expunges)
    other = (lambda m: m._expunges) if which == 'upd' else (lambda m: m._updates)

    def inv(s):
        m, p = s.self, s.old.self
        ms = s.mod_seq
        uids = s.uids
        k = s.k
        D, Oth, uid = data(m), other(m), m._uids
        processed = lambda u: in_list(uids, u, 0, k)
        pending = lambda u: in_list(uids, u, k, uids.len)
        cl = dict(RI(m, skip=('R7_upd_sound', 'R8_exp_sound', 'R9_uid_live')))
        out = [(l, c) for l, c in cl.items()]
        out += [
            ('highest_fixed', (m._highest == p._highest + 1) & (ms == m._highest)),
            ('new_set_present', D.has(ms) & ~Oth.has(ms)),
            ('new_set_is_uids', forall(lambda u: D[ms].has(u) == in_list(uids, u))),
            ('processed_uids', forall(lambda u: implies(processed(u), uid.has(u) & (uid[u] == ms)))),
            ('pending_uids', forall(lambda u: implies(pending(u) & ~processed(u),
                                                      (uid.has(u) == p._uids.has(u)) & (uid[u] == p._uids[u])))),
            ('other_uids', forall(lambda u: implies(~in_list(uids, u),
                                                    (uid.has(u) == p._uids.has(u)) & (uid[u] == p._uids[u])))),
            ('old_uids_below', forall(lambda u: implies(p._uids.has(u), p._uids[u] < ms))),
            ('sound_data', forall(lambda kk, u: implies(D.has(kk) & D[kk].has(u),
                                                        ((kk == ms) & pending(u) & ~processed(u)) |
                                                        (uid.has(u) & (uid[u] == kk))), n=2)),
            ('sound_other', forall(lambda kk, u: implies(Oth.has(kk) & Oth[kk].has(u),
                                                         uid.has(u) & (uid[u] == kk)), n=2)),
            ('live', forall(lambda u: implies(uid.has(u), kind_upd(m, u) | kind_exp(m, u)))),
            ('other_membership', forall(lambda kk, u: implies(
                ~in_list(uids, u),
                ((D.has(kk) & D[kk].has(u)) == (data(p).has(kk) & data(p)[kk].has(u))) &
                ((Oth.has(kk) & Oth[kk].has(u)) == (other(p).has(kk) & other(p)[kk].has(u)))), n=2)),
        ]
        return out

    labels = ['R1_highest_nonneg', 'R2_key_range', 'R3_disjoint', 'R4_order_sorted', 'R5_order_are_keys',
              'R6_keys_in_order', 'highest_fixed', 'new_set_present', 'new_set_is_uids', 'processed_uids',
              'pending_uids', 'other_uids', 'old_uids_below', 'sound_data', 'sound_other', 'live',
              'other_membership']
    return Loop(invariant=[(l, (lambda s, l=l: dict(inv(s))[l])) for l in labels])


def _post(which):
    data = (lambda m: m._updates) if which == 'upd' else (lambda m: m._expunges)
    kind = kind_upd if which == 'upd' else kind_exp
    okind = kind_exp if which == 'upd' else kind_upd
    return ri_clauses(lambda s: s.self) + [
        ('highest_bumped', lambda s: s.self._highest == s.old.self._highest + 1),
        ('logged_at_new', lambda s: forall(lambda u: implies(in_list(s.uids, u),
                                                             s.self._uids.has(u) & (s.self._uids[u] == s.self._highest)
                                                             & kind(s.self, u)))),
        ('others_untouched', lambda s: forall(lambda u: implies(
            ~in_list(s.uids, u),
            (s.self._uids.has(u) == s.old.self._uids.has(u)) & (s.self._uids[u] == s.old.self._uids[u]) &
            (kind_upd(s.self, u) == kind_upd(s.old.self, u)) & (kind_exp(s.self, u) == kind_exp(s.old.self, u))))),
    ]


def _requires():
    return ri_clauses(lambda s: s.self) + [('uids_distinct', lambda s: distinct(s.uids))]


update = Contract('C02', F, '_ModSequenceMapping.update',
                  params=dict(self=ModSeq, uids=ListS(INT)),
                  requires=_requires(), ensures=_post('upd'),
                  inline={'ModSeq._set', 'ModSeq._remove_prev'},
                  loops={'ModSeq._set#0': _set_loop('upd')},
                  modifies=['self._highest', 'self._uids', 'self._updates', 'self._expunges',
                            'self._mod_seqs_order', 'self.g_pos'],
                  raises_only=(), returns=NoneS())

expunge = Contract('C02', F, '_ModSequenceMapping.expunge',
                   params=dict(self=ModSeq, uids=ListS(INT)),
                   requires=_requires(), ensures=_post('exp'),
                   inline={'ModSeq._set', 'ModSeq._remove_prev'},
                   loops={'ModSeq._set#0': _set_loop('exp')},
                   modifies=['self._highest', 'self._uids', 'self._updates', 'self._expunges',
                             'self._mod_seqs_order', 'self.g_pos'],
                   raises_only=(), returns=NoneS())


def _find_loop():
    def inv(s):
        m = s.self
        O = m._mod_seqs_order
        idx = s.idx
        k = s.k
        return [
            ('upd_exact', forall(lambda u: s.updates_ret.has(u) == (
                m._uids.has(u) & kind_upd(m, u) & (m.g_pos[m._uids[u]] >= idx) & (m.g_pos[m._uids[u]] < idx + k)))),
            ('exp_exact', forall(lambda u: s.expunges_ret.has(u) == (
                m._uids.has(u) & kind_exp(m, u) & (m.g_pos[m._uids[u]] >= idx) & (m.g_pos[m._uids[u]] < idx + k)))),
            ('idx_partition', (idx >= 0) & (idx <= O.len) &
             forall(lambda i: implies((i >= 0) & (i < idx), O[i] < s.mod_seq)) &
             forall(lambda i: implies((i >= idx) & (i < O.len), O[i] >= s.mod_seq))),
            ('len_fixed', s.mod_seqs_len == O.len),
        ]
    labels = ['upd_exact', 'exp_exact', 'idx_partition', 'len_fixed']
    return Loop(invariant=[(l, (lambda s, l=l: dict(inv(s))[l])) for l in labels])


find_updated = Contract(
    'C02', F, '_ModSequenceMapping.find_updated',
    params=dict(self=ModSeq, mod_seq=INT),
    requires=ri_clauses(lambda s: s.self),
    ensures=[
        ('updates_exact', lambda s: forall(lambda u: s.result[0].has(u) == (
            s.self._uids.has(u) & (s.self._uids[u] >= s.mod_seq) & kind_upd(s.self, u)))),
        ('expunges_exact', lambda s: forall(lambda u: s.result[1].has(u) == (
            s.self._uids.has(u) & (s.self._uids[u] >= s.mod_seq) & kind_exp(s.self, u)))),
    ],
    loops={0: _find_loop()},
    modifies=[], raises_only=(), returns=TupleS(SetS(INT), SetS(INT)),
    locals={'updates_ret': SetS(INT), 'expunges_ret': SetS(INT)})

CONTRACTS = [update, expunge, find_updated]
