"""Contracts of pymap/selected.py: SynchronizedMessages (sorted UID list + sequence cache) and
SelectedMailbox._compare (the untagged diff) -- the kernel of C01.

Ghost state
  SM.g_pos      position map of SM._sorted, maintained by a write hook (insert shifts, re-sort resets)
  Frozen.g_sorted  the strictly increasing enumeration of Frozen.uids (Frozen.seqs_cache is its rank map)
  cv / cvpos    the CLIENT's view while the response list is produced: updated by a hook on every
                `yield <response>` exactly as an IMAP client applies untagged responses
"""
import z3

from pyvc.values import *
from pyvc.values import _t, _b
from pyvc.engine import Contract, Loop, SeqView, with_loc
from pyvc import builtins_model as bm
from .dictmbx import Msg, Flag

F = 'pymap/selected.py'

FSet = RefS('FSet')                    # a frozenset of flags, never inspected here
FK = TupleS(INT, FSet)                 # FlagsKey = (uid, frozenset[Flag])

SM = RecS('SynchronizedMessages', pyclass=(F, 'SynchronizedMessages'),
          _uids=SetS(INT), _sorted=ListS(INT), _seqs_cache=MapS(INT, INT), _cache=MapS(INT, Msg),
          _flags_key_map=MapS(INT, FK), _flags_key_set=SetS(FK), _pending_remove=SetS(INT),
          g_pos=MapS(INT, INT))
SM.ghost['g_pos'] = lambda obj: {v: i for i, v in enumerate(obj._sorted)}


def _sorted_hook(st, rec, old, new):
    g = st.store[rec.rid]['g_pos']
    x = z3.Int(fresh_name('gx'))
    if hasattr(new, 'inserted_at'):
        i, v = new.inserted_at, new.inserted_val
        val = z3.Lambda([x], z3.If(x == v, i, z3.If(g.val[x] >= i, g.val[x] + 1, g.val[x])))
        st.store[rec.rid]['g_pos'] = VMap(g.dom, val, INT, INT)
    elif hasattr(new, 'sorted_of'):
        sset, posfn, order = new.sorted_of
        st.store[rec.rid]['g_pos'] = VMap(g.dom, z3.Lambda([x], posfn(x)), INT, INT)


SM.hooks['_sorted'] = _sorted_hook


def sm_ri(m, with_seqs=True):
    S, U, Q, pos = m._sorted, m._uids, m._seqs_cache, m.g_pos
    cl = [
        ('S1_sorted_increasing', forall(lambda i, j: implies((i >= 0) & (i < j) & (j < S.len), S[i] < S[j]), n=2)),
        ('S2_sorted_in_uids', forall(lambda i: implies((i >= 0) & (i < S.len), U.has(S[i]) & (pos[S[i]] == i)))),
        ('S3_uids_in_sorted', forall(lambda u: implies(U.has(u), (pos[u] >= 0) & (pos[u] < S.len) & (S[pos[u]] == u)))),
        ('S4_cache_dom', forall(lambda u: (m._cache.has(u) == U.has(u)) & (m._flags_key_map.has(u) == U.has(u)))),
        ('S6_flag_keys', forall(lambda u: implies(U.has(u), (m._flags_key_map[u][0] == u) &
                                                  m._flags_key_set.has(m._flags_key_map[u].term())))),
    ]
    cl.append(('S8_count', card_is(U, S.len)))
    cl.append(('S9_cached_message_has_its_uid', forall(lambda u: implies(U.has(u), m._cache[u].uid == u))))
    if with_seqs:
        cl.append(('S5_seqs_are_ranks', forall(lambda u: (Q.has(u) == U.has(u)) &
                                               implies(U.has(u), Q[u] == pos[u] + 1))))
    return cl


SM_LABELS = ['S1_sorted_increasing', 'S2_sorted_in_uids', 'S3_uids_in_sorted', 'S4_cache_dom', 'S6_flag_keys',
             'S5_seqs_are_ranks', 'S8_count', 'S9_cached_message_has_its_uid']


def sm_clauses(sel, labels=SM_LABELS):
    return [(l, (lambda s, l=l: dict(sm_ri(sel(s)))[l])) for l in labels]


def msg_flags_key(ex, ref):
    """msg.flags_key == (msg.uid, <opaque frozenset>)  (BaseMessage._flags_key is (uid, permanent_flags))"""
    uid = ex.st.heap_get(ref, 'uid')
    fs = ex.st.heap_get(ref, 'fkey_flags')
    return VTuple([uid, fs], FK)


Msg.attrs['flags_key'] = FK
MsgC = Msg


def _getattr_flags_key(ex, frame, e, base=None):
    raise NotImplementedError


# ---- SynchronizedMessages._update

def _update_loop0():
    def inv(s):
        m, p = s.self, s.pre.self
        msgs = s.messages
        k = s.k
        low = s.lowest_idx
        added = lambda u: exists(lambda i: (i >= 0) & (i < k) & (s.wrap(msgs[i]).uid == u))
        base = dict(sm_ri(m, with_seqs=False))
        out = [(l, base[l]) for l in ['S1_sorted_increasing', 'S2_sorted_in_uids', 'S3_uids_in_sorted',
                                      'S4_cache_dom', 'S6_flag_keys', 'S8_count', 'S9_cached_message_has_its_uid']]
        out += [
            ('uids_grow', forall(lambda u: m._uids.has(u) == (p._uids.has(u) | added(u)))),
            ('seqs_untouched', m._seqs_cache == p._seqs_cache),
            ('pending_untouched', m._pending_remove == p._pending_remove),
            ('prefix_stable', when_some(low, lambda lo: (lo >= 0) & (lo <= m._sorted.len) & forall(
                lambda u: implies(m._uids.has(u) & (m.g_pos[u] < lo), p._uids.has(u) & (p.g_pos[u] == m.g_pos[u]))),
                none=True)),
            ('nothing_inserted', implies(is_none(low), (m._sorted == p._sorted) & forall(
                lambda u: implies(m._uids.has(u), p._uids.has(u) & (m.g_pos[u] == p.g_pos[u]))))),
            ('flag_set_sound', forall(lambda t: implies(m._flags_key_set.has(t.term()), m._uids.has(t[0]) & (
                m._flags_key_map[t[0]].term() == t.term())), sort=FK)),
        ]
        return out
    labels = ['S1_sorted_increasing', 'S2_sorted_in_uids', 'S3_uids_in_sorted', 'S4_cache_dom', 'S6_flag_keys', 'S8_count',
              'S9_cached_message_has_its_uid', 'uids_grow', 'seqs_untouched', 'pending_untouched', 'prefix_stable', 'nothing_inserted',
              'flag_set_sound']
    return Loop(invariant=[(l, (lambda s, l=l: dict(inv(s))[l])) for l in labels])


def _update_loop1():
    def inv(s):
        m, p = s.self, s.pre.self
        low = s.lowest_idx
        k = s.k
        lo = low.val() if isinstance(low, VOpt) else low
        return [
            ('rest_fixed', (m._sorted == p._sorted) & (m._uids == p._uids) & (m.g_pos == p.g_pos) &
             (m._cache == p._cache) & (m._flags_key_map == p._flags_key_map) &
             (m._flags_key_set == p._flags_key_set) & (m._pending_remove == p._pending_remove)),
            ('renumbered_prefix', forall(lambda u: implies(m._uids.has(u) & (m.g_pos[u] < lo + k),
                                                           m._seqs_cache.has(u) & (m._seqs_cache[u] == m.g_pos[u] + 1)))),
            ('seqs_dom', forall(lambda u: implies(m._seqs_cache.has(u) & ~m._uids.has(u), p._seqs_cache.has(u)))),
            ('seqs_dom2', forall(lambda u: implies(p._seqs_cache.has(u), m._seqs_cache.has(u)))),
        ]
    labels = ['rest_fixed', 'renumbered_prefix', 'seqs_dom', 'seqs_dom2']
    return Loop(invariant=[(l, (lambda s, l=l: dict(inv(s))[l])) for l in labels])


def flag_set_sound(m):
    return forall(lambda t: implies(m._flags_key_set.has(t.term()), m._uids.has(t[0]) & (
        m._flags_key_map[t[0]].term() == t.term())), sort=FK)


def _flags_key_attr(ex, frame, e, base=None):
    pass


sm_update = Contract(
    'C01', F, 'SynchronizedMessages._update',
    params=dict(self=SM, messages=ListS(MsgC)),
    requires=sm_clauses(lambda s: s.self) + [
        ('S7_flag_set_sound', lambda s: flag_set_sound(s.self)),
        ('msg_flags_key_has_uid', lambda s: forall(lambda i: implies(
            (i >= 0) & (i < s.messages.len), s.messages[i].flags_key[0] == s.messages[i].uid)))],
    ensures=sm_clauses(lambda s: s.self) + [
        ('S7_flag_set_sound', lambda s: flag_set_sound(s.self)),
        ('uids_post', lambda s: forall(lambda u: s.self._uids.has(u) == (
            s.old.self._uids.has(u) | exists(lambda i: (i >= 0) & (i < s.messages.len) &
                                             (s.wrap(s.messages[i]).uid == u))))),
        ('pending_untouched', lambda s: s.self._pending_remove == s.old.self._pending_remove),
    ],
    loops={0: _update_loop0(), 1: _update_loop1()},
    modifies=['self._uids', 'self._sorted', 'self._seqs_cache', 'self._cache', 'self._flags_key_map',
              'self._flags_key_set', 'self.g_pos'],
    raises_only=(), returns=NoneS())


# ---- SynchronizedMessages._remove

def _remove_loop():
    def inv(s):
        m, p = s.self, s.pre.self
        k = s.k
        seq = s.seq
        s1, s2 = seq.chain          # (uids list, ghost enumeration of _pending_remove)
        n1 = VInt(s1.n)
        ppos = lambda u: VInt(s2.pos(_t(u)))
        gone = lambda u: exists(lambda i: (i >= 0) & (i < k) & (i < n1) & (s.uids[i] == u)) | \
            ((k > n1) & p._pending_remove.has(u) & (ppos(u) < k - n1))
        return [
            ('uids_shrink', forall(lambda u: m._uids.has(u) == (p._uids.has(u) & ~gone(u)))),
            ('S4_cache_dom', forall(lambda u: (m._cache.has(u) == m._uids.has(u)) &
                                    (m._flags_key_map.has(u) == m._uids.has(u)))),
            ('S6_flag_keys', forall(lambda u: implies(m._uids.has(u), (m._flags_key_map[u][0] == u) &
                                                      m._flags_key_set.has(m._flags_key_map[u])))),
            ('S7_flag_set_sound', flag_set_sound(m)),
            ('kept_entries', forall(lambda u: implies(m._uids.has(u), (m._cache[u] == p._cache[u]) &
                                                      (m._flags_key_map[u].term() == p._flags_key_map[u].term())))),
            ('order_untouched', (m._sorted == p._sorted) & (m._seqs_cache == p._seqs_cache) &
             (m.g_pos.val == p.g_pos.val) & (m._pending_remove == p._pending_remove)),
            ('any_removed_flag', implies(~s.any_removed, m._uids == p._uids)),
        ]
    labels = ['uids_shrink', 'S4_cache_dom', 'S6_flag_keys', 'S7_flag_set_sound', 'kept_entries',
              'order_untouched', 'any_removed_flag']
    return Loop(invariant=[(l, (lambda s, l=l: dict(inv(s))[l])) for l in labels])


def _in_list(lst, u):
    if hasattr(lst, 'has') and not hasattr(lst, 'len'):
        return lst.has(u)       # a set passed where an Iterable is expected: membership is all that matters
    return exists(lambda i: (i >= 0) & (i < lst.len) & (lst[i] == u))


sm_remove = Contract(
    'C01', F, 'SynchronizedMessages._remove',
    params=dict(self=SM, uids=ListS(INT), pending=BOOL),
    requires=sm_clauses(lambda s: s.self) + [('S7_flag_set_sound', lambda s: flag_set_sound(s.self))],
    ensures=sm_clauses(lambda s: s.self) + [
        ('S7_flag_set_sound', lambda s: flag_set_sound(s.self)),
        ('deferred_when_pending', lambda s: implies(
            s.pending,
            (s.self._uids == s.old.self._uids) & (s.self._sorted == s.old.self._sorted) &
            (s.self._seqs_cache == s.old.self._seqs_cache) &
            forall(lambda u: s.self._pending_remove.has(u) == (s.old.self._pending_remove.has(u) |
                                                               _in_list(s.uids, u))))),
        ('removed_when_not_pending', lambda s: implies(
            ~s.pending,
            forall(lambda u: s.self._uids.has(u) == (s.old.self._uids.has(u) & ~_in_list(s.uids, u) &
                                                     ~s.old.self._pending_remove.has(u))) &
            s.self._pending_remove.is_empty())),
        ('kept_entries', lambda s: forall(lambda u: implies(
            s.self._uids.has(u), s.self._cache[u] == s.old.self._cache[u]))),
    ],
    loops={0: _remove_loop()},
    modifies=['self._uids', 'self._sorted', 'self._seqs_cache', 'self._cache', 'self._flags_key_map',
              'self._flags_key_set', 'self._pending_remove', 'self.g_pos'],
    raises_only=(), returns=NoneS())


# ---- SelectedMailbox._compare : the untagged diff, checked against a ghost IMAP client

RESP = TupleS(INT, INT, INT)        # (kind, number, ghost uid)  kind: 1 EXPUNGE 2 EXISTS 3 RECENT 4 FETCH 5 BYE
Frozen = RecS('Frozen', pyclass=(F, '_Frozen'), is_deleted=BOOL, uids=SetS(INT), seqs_cache=MapS(INT, INT),
              flags=SetS(FK), recent=SetS(INT), sflags=SetS(FK), g_sorted=ListS(INT))
Frozen.ghost['g_sorted'] = lambda obj: sorted(obj.uids)
from .flags import PermS, SessS  # noqa: E402
from .dictmbx import Oid  # noqa: E402
NameR = RefS('MailboxName')
SFlags = SessS
SEL = RecS('SelectedMailbox', pyclass=(F, 'SelectedMailbox'), _hide_expunged=BOOL, _messages=SM,
           _session_flags=SessS, _silenced_flags=SetS(FK), _silenced_sflags=SetS(FK),
           _readonly=BOOL, _mailbox_id=Oid, _lookup=NameR, _permanent_flags=PermS, _is_deleted=BOOL,
           _mod_sequence=OptS(INT))


def frozen_ri(f):
    g, U, Q = f.g_sorted, f.uids, f.seqs_cache
    return [
        ('F1_sorted', forall(lambda i, j: implies((i >= 0) & (i < j) & (j < g.len), g[i] < g[j]), n=2)),
        ('F2_enumerates', forall(lambda i: implies((i >= 0) & (i < g.len), U.has(g[i]) & Q.has(g[i]) &
                                                   (Q[g[i]] == i + 1)))),
        ('F3_ranks', forall(lambda u: implies(U.has(u), Q.has(u) & (Q[u] >= 1) & (Q[u] <= g.len) &
                                              (g[Q[u] - 1] == u)))),
        ('F4_count', card_is(U, g.len)),
        ('F5_recent_in_view', forall(lambda u: implies(f.recent.has(u), U.has(u)))),
        ('F6_flags_in_view', forall(lambda t: implies(f.flags.has(t), U.has(t[0])), sort=FK)),
    ]


F_LABELS = ['F1_sorted', 'F2_enumerates', 'F3_ranks', 'F4_count', 'F5_recent_in_view', 'F6_flags_in_view']


def frozen_clauses(sel, tag):
    return [(f'{l}.{tag}', (lambda s, l=l: dict(frozen_ri(sel(s)))[l])) for l in F_LABELS]


def _resp(kind):
    def model(ex, frame, e):
        args, kw = ex.eval_args(e, frame)
        n = args[0] if args and isinstance(args[0], VInt) else VInt(0)
        uid = VInt(0)
        if kind == 4:
            u = frame.env.get('uid')
            uid = u if isinstance(u, VInt) else VInt(0)
        return VTuple([VInt(kind), n, uid], RESP)
    return model


def _opaque_any(name):
    S = RefS(name)

    def model(ex, frame, e, base=None):
        ex.eval_args(e, frame)
        return S.fresh(name.lower())
    return model


def _proj_first(ex, s: VSet):
    """{t[0] for t in s} for a set of (uid, x) tuples"""
    res = SetS(INT).fresh('proj')
    w = z3.Function(fresh_name('pw'), z3.IntSort(), FSet.z3())
    t = z3.Const(fresh_name('t'), FK.z3())
    u = z3.Int(fresh_name('u'))
    dt = FK._dt()
    ex.assume(z3.ForAll([t], z3.Implies(s.arr[t], res.arr[dt.accessor(0, 0)(t)])))
    ex.assume(z3.ForAll([u], z3.Implies(res.arr[u], s.arr[dt.mk(u, w(u))])))
    return res


def _chain_model(ex, frame, e):
    """chain(new_recent, (uid for uid, _ in new_flags), (uid for uid, _ in new_sflags)) as the SET of
    uids it produces (it is only ever sorted and de-duplicated by groupby)"""
    out = None
    for a in e.args:
        if isinstance(a, ast.GeneratorExp):
            src = ex.eval(a.generators[0].iter, frame)
            v = _proj_first(ex, src)
        else:
            v = ex.eval(a, frame)
        out = v if out is None else (out | v)
    return out


def _groupby_model(ex, frame, e):
    lst = ex.eval(e.args[0], frame)
    return SeqView(lst.n, lambda k, lst=lst: VTuple([lst.at(k), VNone()]), None)


import ast  # noqa: E402


def _ghost_init(st, sc):
    b = sc.before
    st.ghost['cv'] = b.g_sorted
    x = z3.Int(fresh_name('gx'))
    st.ghost['cvpos'] = z3.Lambda([x], b.seqs_cache.val[x] - 1)
    st.ghost['exists_sent'] = False


def _kept(s, k, seq):
    """uids of `before` not yet expunged after k iterations of the EXPUNGE loop (seq enumerates the expunged
    set in decreasing order; its ghost position function tells which were processed)"""
    X = seq.of_set
    epos = lambda u: VInt(seq.pos(_t(u)))
    return lambda u: s.before.uids.has(u) & ~(X.has(u) & (epos(u) < k))


def _expunge_loop():
    def inv(s):
        cv = s.ghost('cv')
        cvpos = lambda u: VInt(z3.Select(s.ghost('cvpos'), _t(u)))
        k, seq = s.k, s.seq
        kept = _kept(s, k, seq)
        b = s.before
        lastpos = b.seqs_cache[seq.elem(_t(k - 1))] - 1      # position (in before) of the last expunged uid
        return [
            ('cv_increasing', forall(lambda i, j: implies((i >= 0) & (i < j) & (j < cv.len), cv[i] < cv[j]), n=2)),
            ('cv_elements_kept', forall(lambda i: implies((i >= 0) & (i < cv.len), kept(cv[i]) & (cvpos(cv[i]) == i)))),
            ('kept_in_cv', forall(lambda u: implies(kept(u), (cvpos(u) >= 0) & (cvpos(u) < cv.len) & (cv[cvpos(u)] == u)))),
            ('prefix_unrenumbered', implies(k > 0, (lastpos <= cv.len) & forall(
                lambda i: implies((i >= 0) & (i < lastpos), cv[i] == b.g_sorted[i])))),
            ('untouched_before_first', implies(k == 0, cv == b.g_sorted)),
            ('not_hidden', ~s.self._hide_expunged),
        ]
    labels = ['cv_increasing', 'cv_elements_kept', 'kept_in_cv', 'prefix_unrenumbered', 'untouched_before_first',
              'not_hidden']
    return Loop(invariant=[(l, (lambda s, l=l: dict(inv(s))[l])) for l in labels], ghost=['cv', 'cvpos'])


def _on_yield(ex, frame, v):
    """the ghost client applies the response, and every step it would choke on is an obligation"""
    st = ex.st
    base = ex.c.name + '/client'
    kind = z3.simplify(v.items[0].t).as_long()
    n = v.items[1].t
    cv = st.ghost['cv']
    cvpos = st.ghost['cvpos']
    sc = ex.scope(frame)
    if kind == 1:
        ex.oblige(f'{base}/expunge_number_in_range', z3.And(n >= 1, n <= cv.n))
        ex.oblige(f'{base}/no_expunge_while_hidden', z3.Not(_b(sc.self._hide_expunged)))
        j = z3.Int(fresh_name('j'))
        x = z3.Int(fresh_name('x'))
        st.ghost['cv'] = VList(cv.n - 1, z3.Lambda([j], z3.If(j < n - 1, cv.arr[j], cv.arr[j + 1])), INT)
        st.ghost['cvpos'] = z3.Lambda([x], z3.If(cvpos[x] > n - 1, cvpos[x] - 1, cvpos[x]))
    elif kind == 2:
        after = sc.after
        ex.oblige(f'{base}/exists_is_server_count', n == after.g_sorted.n)
        _prove_prefix(ex, frame, base + '/exists')
        ex.oblige(f'{base}/exists_never_shrinks', n >= cv.n)
        st.ghost['cv'] = after.g_sorted
        x = z3.Int(fresh_name('gx'))
        st.ghost['cvpos'] = z3.Lambda([x], after.seqs_cache.val[x] - 1)
        st.ghost['exists_sent'] = True
    elif kind == 4:
        uid = v.items[2].t
        ex.oblige(f'{base}/fetch_labels_the_right_message',
                  z3.And(n >= 1, n <= cv.n, cv.arr[n - 1] == uid))


def _prove_prefix(ex, frame, base):
    """induction over positions: the client's list is a prefix of the server's new list.  The step is proved
    through explicit proof steps (each an obligation of its own, then available); its conclusion for all i is
    then assumed (induction principle over naturals)."""
    sc = ex.scope(frame)
    cv = ex.st.ghost['cv']
    cvpos = ex.st.ghost['cvpos']
    ag = sc.after.g_sorted
    aq = sc.after.seqs_cache
    P = lambda i: z3.Implies(z3.And(i >= 0, i < cv.n), z3.And(i < ag.n, cv.arr[i] == ag.arr[i]))
    i, j = z3.Int(fresh_name('ind_i')), z3.Int(fresh_name('ind_j'))
    hyp = z3.And(i >= 0, i < cv.n, z3.ForAll([j], z3.Implies(z3.And(j >= 0, j < i), P(j))))
    H = lambda f: z3.Implies(hyp, f)
    m = aq.val[cv.arr[i]] - 1           # rank of the client's i-th uid in the server's new list
    p = cvpos[ag.arr[i]]                # position of the server's i-th uid in the client's list
    ex.lemma(f'{base}_prefix_induction/step1_client_uid_still_exists', H(sc.after.uids.arr[cv.arr[i]]))
    ex.lemma(f'{base}_prefix_induction/step2_its_rank', H(z3.And(m >= 0, m < ag.n, ag.arr[m] == cv.arr[i])))
    ex.lemma(f'{base}_prefix_induction/step3_rank_not_below_i', H(m >= i))
    ex.lemma(f'{base}_prefix_induction/step4_server_has_position_i', H(z3.And(i < ag.n, ag.arr[i] <= cv.arr[i])))
    ex.lemma(f'{base}_prefix_induction/step5_server_uid_is_old', H(sc.before.uids.arr[ag.arr[i]]))
    ex.lemma(f'{base}_prefix_induction/step6_client_holds_it', H(z3.And(p >= 0, p < cv.n, cv.arr[p] == ag.arr[i])))
    ex.lemma(f'{base}_prefix_induction/step7_not_below_i', H(p >= i))
    ex.oblige(f'{base}_prefix_induction/step', H(z3.And(i < ag.n, cv.arr[i] == ag.arr[i])))
    q = z3.Int(fresh_name('q'))
    ex.assume(z3.ForAll([q], P(q)))
    ex.assume(P(cv.n - 1))          # an instance of the line above (helps the solver's instantiation)


def _fetch_loop_entry(ex, frame):
    """before the FETCH responses: the client's list IS the server's new list (if EXISTS was sent it was
    set there; otherwise nothing was added and the same induction gives equality)"""
    if not ex.st.ghost['exists_sent']:
        _prove_prefix(ex, frame, ex.c.name + '/client/final')
        sc = ex.scope(frame)
        cv = ex.st.ghost['cv']
        cvpos = ex.st.ghost['cvpos']
        ag = sc.after.g_sorted
        base = ex.c.name + '/client/final_same_length'
        longer = ag.n > cv.n
        u = ag.arr[cv.n]
        # proof steps (each an obligation, then available): if the server had more messages than the client,
        # the first extra one is an old, un-expunged uid, so the client already holds it -- contradiction
        ex.lemma(f'{base}/step1_extra_in_after', z3.Implies(longer, sc.after.uids.arr[u]))
        ex.lemma(f'{base}/step2_extra_is_old', z3.Implies(longer, sc.before.uids.arr[u]))
        ex.lemma(f'{base}/step3_client_holds_it', z3.Implies(longer, z3.And(
            cvpos[u] >= 0, cvpos[u] < cv.n, cv.arr[cvpos[u]] == u)))
        ex.lemma(f'{base}/step4_server_lists_it_twice', z3.Implies(longer, ag.arr[cvpos[u]] == u))
        ex.lemma(f'{base}/step5_but_server_list_is_strictly_increasing',
                 z3.Implies(longer, ag.arr[cvpos[u]] < ag.arr[cv.n]))
        ex.lemma(f'{base}/step6_client_not_longer', cv.n <= ag.n)
        ex.oblige(f'{base}/conclusion', cv.n == ag.n)
        ex.st.ghost['cv'] = sc.after.g_sorted


def _fetch_loop():
    return Loop(invariant=[
        ('client_view_is_server_view', lambda s: s.ghost('cv') == s.after.g_sorted),
        ('fetch_uids_in_view', lambda s: forall(lambda i: implies(
            (i >= 0) & (i < s.n), s.after.uids.has(s.seq.elem(_t(i))[0])))),
    ])


compare = Contract(
    'C01', F, 'SelectedMailbox._compare',
    params=dict(self=SEL, before=Frozen, after=Frozen, with_uid=BOOL),
    requires=frozen_clauses(lambda s: s.before, 'before') + frozen_clauses(lambda s: s.after, 'after') + [
        ('hidden_expunges_stay_in_view', lambda s: implies(s.self._hide_expunged, s.before.uids.subset(s.after.uids))),
        ('new_uids_above_old', lambda s: forall(lambda a, b: implies(
            s.after.uids.has(a) & ~s.before.uids.has(a) & s.before.uids.has(b), a > b), n=2)),
        ('cache_covers_view', lambda s: forall(lambda u: implies(s.after.uids.has(u), s.self._messages._cache.has(u)))),
        ('new_sflags_in_view', lambda s: forall(lambda t: implies(
            s.after.sflags.has(t) & ~s.before.sflags.has(t), s.after.uids.has(t[0])), sort=FK)),
    ],
    ensures=[('client_ends_with_server_view', lambda s: implies(
        ~s.after.is_deleted, s.ghost('cv') == s.after.g_sorted))],
    calls={'ResponseBye': _resp(5), 'ExpungeResponse': _resp(1), 'ExistsResponse': _resp(2),
           'RecentResponse': _resp(3), 'FetchResponse': _resp(4), 'FetchValue.of': _opaque_any('FetchValue'),
           'List': _opaque_any('PList'), 'Number': _opaque_any('PNumber'), 'chain': _chain_model,
           'groupby': _groupby_model},
    loops={0: _expunge_loop(), 1: _fetch_loop()},
    yields=RESP, ghost_init=_ghost_init, modifies=[], raises_only=(), locals={})
compare.on_yield_value = _on_yield
compare.loop_entry_hooks = {1: _fetch_loop_entry}

REG = {('Msg', 'get_flags'): _opaque_any('FSetV')}


# ---- SynchronizedMessages.get_uids / get_all : sequence-set addressing (C10)

SeqSetS = RecS('SequenceSet', uid=BOOL)
_den = {}


def den(rid):
    """ghost: den_rid(max, x) <=> the sequence set object denotes x when `*` = max.  SequenceSet.flatten
    is used through this contract (proved element-wise for _get_range in contracts/seqset.py; the union over
    the elements is checked by the bounded run)."""
    if rid not in _den:
        _den[rid] = z3.Function(f'den_{rid}', z3.IntSort(), z3.IntSort(), z3.BoolSort())
    return _den[rid]


def _flatten_model(ex, frame, e, base):
    args, kw = ex.eval_args(e, frame)
    mx = args[0]
    r = SetS(INT).fresh('flat')
    x = z3.Int(fresh_name('x'))
    ex.assume(z3.ForAll([x], r.arr[x] == den(base.rid)(mx.t, x)))
    r.frozen = True
    return r


def _addr_post(with_msg):
    def selected(s, seq, uid):
        m = s.self
        d = den(unview_rid(s.seq_set))
        mx_uid = ite(m._sorted.len > 0, m._sorted[m._sorted.len - 1], VInt(0))
        return ite(s.seq_set.uid, VBool(d(_t(mx_uid), _t(uid))), VBool(d(_t(m._sorted.len), _t(seq))))

    def second(s, j):
        el = s.result[j]
        return el[1]

    def p1(s):
        m = s.self
        return forall(lambda j: implies(
            (j >= 0) & (j < s.result.len),
            (s.result[j][0] >= 1) & (s.result[j][0] <= m._sorted.len) &
            ((s.result[j][1] == m._cache[m._sorted[s.result[j][0] - 1]]) if with_msg else
             (s.result[j][1] == m._sorted[s.result[j][0] - 1])) &
            selected(s, s.result[j][0], m._sorted[s.result[j][0] - 1])))

    def p2(s):
        return forall(lambda i, j: implies((i >= 0) & (i < j) & (j < s.result.len),
                                           s.result[i][0] < s.result[j][0]), n=2)

    def p3(s):
        m = s.self
        comp = getattr(s.result, 'comp', None)
        if comp is not None:
            # symbolic run: the comprehension's ghost inverse-index function is the witness
            src, inv, seq = comp
            wit = lambda q: VInt(inv(_t(q) - 1))
            return forall(lambda q: implies(
                (q >= 1) & (q <= m._sorted.len) & selected(s, q, m._sorted[q - 1]),
                (wit(q) >= 0) & (wit(q) < s.result.len) & (s.result[wit(q)][0] == q)))
        return forall(lambda q: implies(
            (q >= 1) & (q <= m._sorted.len) & selected(s, q, m._sorted[q - 1]),
            exists(lambda j: (j >= 0) & (j < s.result.len) & (s.result[j][0] == q))))
    return [('every_result_is_addressed_and_labelled_with_its_rank', p1),
            ('ascending_sequence_numbers', p2), ('every_addressed_message_is_returned', p3)]


def unview_rid(v):
    return v._rec.rid


_addr_requires = sm_clauses(lambda s: s.self) + [
    ('S8_count', lambda s: card_is(s.self._uids, s.self._sorted.len))]

get_uids = Contract(
    'C10', F, 'SynchronizedMessages.get_uids', params=dict(self=SM, seq_set=SeqSetS),
    requires=_addr_requires, ensures=_addr_post(False),
    calls={}, modifies=[], raises_only=(), returns=ListS(TupleS(INT, INT)), pure=True)

get_all = Contract(
    'C10', F, 'SynchronizedMessages.get_all', params=dict(self=SM, seq_set=SeqSetS),
    requires=_addr_requires, ensures=_addr_post(True),
    calls={}, modifies=[], raises_only=(), returns=ListS(TupleS(INT, Msg)), pure=True)

REG[('SequenceSet', 'flatten')] = _flatten_model


# ---- SelectedSet.any_selected (C17/C12): never hands out a read-only selection

SelR = RefS('Selection', readonly=BOOL)
SelSetRec = RecS('SelectedSet', pyclass=(F, 'SelectedSet'), _set=SetS(SelR))

any_selected = Contract(
    'C17', F, 'SelectedSet.any_selected', params=dict(self=SelSetRec),
    ensures=[
        ('never_a_readonly_selection', lambda s: when_some(s.result, lambda r: s.self._set.has(r) & ~s.wrap(r).readonly)),
        ('none_only_if_no_read_write_selection', lambda s: implies(
            is_none(s.result), forall(lambda x: implies(s.self._set.has(x), s.wrap(x).readonly), sort=SelR))),
    ],
    loops={0: Loop(invariant=[('all_before_are_readonly', lambda s: forall(lambda i: implies(
        (i >= 0) & (i < s.k), s.wrap(s.seq.elem(_t(i))).readonly)))])},
    modifies=[], raises_only=(), pure=True)


# ---- SelectedMailbox.add_updates / set_messages: what they establish for the next _compare (C01 composition)
from .flags import sess_remove  # noqa: E402


def _in_msgs(s, u):
    return exists(lambda i: (i >= 0) & (i < s.messages.len) & (s.wrap(s.messages[i]).uid == u))


def _sm(s):
    return s.self._messages


_ADD_REQ = sm_clauses(_sm) + [
    ('S7_flag_set_sound', lambda s: flag_set_sound(_sm(s))),
    ('msg_flags_key_has_uid', lambda s: forall(lambda i: implies(
        (i >= 0) & (i < s.messages.len), s.messages[i].flags_key[0] == s.messages[i].uid)))]

add_updates = Contract(
    'C01', F, 'SelectedMailbox.add_updates', params=dict(self=SEL, messages=ListS(MsgC), expunged=ListS(INT)),
    requires=_ADD_REQ,
    ensures=sm_clauses(_sm) + [
        ('S7_flag_set_sound', lambda s: flag_set_sound(_sm(s))),
        ('hidden_expunges_stay_in_view', lambda s: implies(
            s.self._hide_expunged, forall(lambda u: _sm(s)._uids.has(u) == (s.old.self._messages._uids.has(u) | _in_msgs(s, u))))),
        ('visible_expunges_leave_the_view', lambda s: implies(
            ~s.self._hide_expunged, forall(lambda u: _sm(s)._uids.has(u) == (
                (s.old.self._messages._uids.has(u) | _in_msgs(s, u)) & ~_in_list(s.expunged, u) &
                ~s.old.self._messages._pending_remove.has(u))))),
        ('hide_flag_untouched', lambda s: s.self._hide_expunged == s.old.self._hide_expunged),
        ('hidden_expunges_are_deferred', lambda s: implies(s.self._hide_expunged, forall(
            lambda u: _sm(s)._pending_remove.has(u) == (s.old.self._messages._pending_remove.has(u) | _in_list(s.expunged, u))))),
        ('nothing_stays_deferred_when_expunges_are_visible', lambda s: implies(
            ~s.self._hide_expunged, _sm(s)._pending_remove.is_empty())),
    ],
    calls={'self._messages._update': sm_update, 'self._messages._remove': sm_remove, 'self._session_flags.remove': sess_remove},
    modifies=['self._messages', 'self._session_flags'], raises_only=(), returns=NoneS())
CONTRACTS_LINK = [add_updates]


# ---- _Frozen.__init__: the frozen view of a SelectedMailbox whose SynchronizedMessages satisfies its invariant is a
#      frozen view in the sense of _compare's precondition (ghost g_sorted := the messages' _sorted at that moment)

def _uids_copy(ex, frame, e, base=None):
    m = ex.eval(e.func.value.value, frame)          # messages (record view)
    rec = unview(m) if not isinstance(m, VRec) else m
    ex.st.ghost['frozen.src_sorted'] = ex.st.store[rec.rid]['_sorted']
    u = ex.st.store[rec.rid]['_uids']
    return VSet(u.arr, u.elem)


def _frozen_uids_hook(st, rec, old, new):
    src = st.ghost.get('frozen.src_sorted')
    if src is not None:
        st.store[rec.rid]['g_sorted'] = VList(src.n, src.arr, INT)


Frozen.hooks['uids'] = _frozen_uids_hook


def _sflags_items(ex, frame, e, base=None):
    """ASSUMED model of frozenset(session_flags.flags.items()): a set of (uid, flags) pairs whose uids are keys of the map"""
    sess = frame.env['session_flags']
    rec = unview(sess) if not isinstance(sess, VRec) else sess
    fl = ex.st.store[rec.rid]['_flags']
    r = SetS(FK).fresh('sflags')
    t = z3.Const(fresh_name('t'), FK.z3())
    ex.assume(z3.ForAll([t], z3.Implies(r.arr[t], fl.dom[FK.z3().accessor(0, 0)(t)])))
    return r


from pyvc.engine import unview  # noqa: E402

frozen_init = Contract(
    'C01', F, '_Frozen.__init__', params=dict(self=Frozen, selected=SEL),
    requires=sm_clauses(lambda s: s.selected._messages) + [('S7_flag_set_sound', lambda s: flag_set_sound(s.selected._messages))],
    ensures=frozen_clauses(lambda s: s.self, 'new') + [
        ('copies_the_view', lambda s: (s.self.uids == s.selected._messages._uids) &
         (s.self.seqs_cache == s.selected._messages._seqs_cache) & (s.self.flags == s.selected._messages._flags_key_set) &
         (s.self.is_deleted == s.selected._is_deleted)),
        ('selection_untouched', lambda s: s.selected._messages._uids == s.old.selected._messages._uids)],
    calls={'super().__init__': lambda ex, frame, e, base=None: VNone(), 'messages._uids.copy': _uids_copy, 'frozenset': _sflags_items},
    inline={'SelectedMailbox.messages', 'SelectedMailbox.session_flags', 'SessionFlags.recent_uids', 'SessionFlags.flags'},
    modifies=['self'], raises_only=(), returns=NoneS())
CONTRACTS_LINK = [add_updates, frozen_init]


# ---- SelectedMailbox.fork: the preconditions of _compare follow from the invariant that links _prev to the current state

SELP = RecS('SelectedMailbox', pyclass=(F, 'SelectedMailbox'), _hide_expunged=BOOL, _messages=SM,
            _session_flags=SessS, _silenced_flags=SetS(FK), _silenced_sflags=SetS(FK),
            _readonly=BOOL, _mailbox_id=Oid, _lookup=NameR, _permanent_flags=PermS, _is_deleted=BOOL,
            _mod_sequence=OptS(INT), _prev=Frozen, _selected_set=RefS('SelSetObj'))

from pyvc.engine import Scope, Alias, CONTAINERS  # noqa: E402


def _frozen_ctor(ex, frame, e, base=None):
    """callee contract of _Frozen.__init__ (frozen_init, proved above), applied: a new frozen record that copies the view;
    its requires are obliged at this call site, its ensures assumed"""
    args, kw = ex.eval_args(e, frame)
    sel = args[0]
    rec = unview(sel) if not isinstance(sel, VRec) else sel
    name = ex.c.name
    sm = ex.st.store[rec.rid]['_messages']
    sc = Scope(ex.st, {'selected': rec})
    for label, cl in frozen_init.requires:
        ex.oblige(f'{name}/call:_Frozen/requires/{label}', _b(cl(sc)))
    smf = ex.st.store[sm.rid]
    fr = ex.st.new_record(Frozen, 'frozen', values=dict(
        uids=VSet(smf['_uids'].arr, INT), seqs_cache=VMap(smf['_seqs_cache'].dom, smf['_seqs_cache'].val, INT, INT),
        flags=VSet(smf['_flags_key_set'].arr, FK), is_deleted=ex.st.store[rec.rid]['_is_deleted'],
        g_sorted=VList(smf['_sorted'].n, smf['_sorted'].arr, INT)))
    sc2 = Scope(ex.st, {'self': fr, 'selected': rec}, Scope(ex.st.snapshot(), {'self': fr, 'selected': rec}))
    for label, cl in frozen_init.ensures:
        if label.startswith(('F5', 'F6')) or label.endswith('.new') and label[:2] in ('F5', 'F6'):
            ex.assume(cl(sc2))
    # the session-flag pairs of the frozen view: keys of the session flag map (frozen_init's ASSUMED items model)
    sess = ex.st.store[rec.rid]['_session_flags']
    fl = ex.st.store[sess.rid]['_flags']
    t = z3.Const(fresh_name('t'), FK.z3())
    ex.assume(z3.ForAll([t], z3.Implies(ex.st.store[fr.rid]['sflags'].arr[t], fl.dom[FK.z3().accessor(0, 0)(t)])))
    ex.st.ghost['fork.frozen'] = fr
    return fr


def _compare_call(ex, frame, e, base=None):
    """modular call of _compare: its preconditions are obligations of this call site (its result is the response list)"""
    args, kw = ex.eval_args(e, frame)
    name = ex.c.name
    me = ex.eval(e.func.value, frame)
    names = {'self': me, 'before': args[0], 'after': args[1], 'with_uid': args[2]}
    sc = Scope(ex.st, names)
    for label, cl in compare.requires:
        ex.oblige(f'{name}/call:_compare/requires/{label}', _b(cl(sc)))
    ex.st.events.append('compare')
    return RefS('UntaggedList').fresh('untagged')


def _sview(s):
    return s.self._messages


FORK_INV = frozen_clauses(lambda s: s.self._prev, 'prev') + sm_clauses(_sview) + [
    ('S7_flag_set_sound', lambda s: flag_set_sound(_sview(s))),
    ('hidden_expunges_stay_in_view', lambda s: implies(s.self._hide_expunged, s.self._prev.uids.subset(_sview(s)._uids))),
    ('new_uids_above_old', lambda s: forall(lambda a, b: implies(
        _sview(s)._uids.has(a) & ~s.self._prev.uids.has(a) & s.self._prev.uids.has(b), a > b), n=2)),
    ('session_flags_only_for_messages_in_view', lambda s: forall(lambda u: implies(
        s.self._session_flags._flags.has(u), _sview(s)._uids.has(u)))),
]

def _set_add_replacing(ex, frame, e):
    """selected_set.add(copy, replace=self): the forked-from object leaves the weak set at once (C17: an object that is only
    waiting to be collected would still be handed out by any_selected)"""
    args, kw = ex.eval_args(e, frame)
    rep = kw.get('replace')
    me = ex.frames[0].env['self']
    ex.st.ghost['replaced_self'] = isinstance(rep, VRec) and rep.rid == me.rid
    return VNone()


fork = Contract(
    'C01', F, 'SelectedMailbox.fork', variant='after-a-previous-fork', params=dict(self=SELP, command=RefS('Cmd')),
    requires=FORK_INV,
    ensures=[('compared_against_the_previous_frozen_view', lambda s: VBool('compare' in s._st.events)),
             ('selection_untouched', lambda s: (_sview(s)._uids == s.old.self._messages._uids) &
              (s.self._hide_expunged == s.old.self._hide_expunged))],
    calls={'_Frozen': _frozen_ctor, 'self._compare': _compare_call, 'type': lambda ex, frame, e, base=None: VConst('cls'),
           'cls': lambda ex, frame, e, base=None: (ex.eval_args(e, frame), RefS('SelectedCopy').fresh('copy'))[1],
           'getattr': lambda ex, frame, e, base=None: VBool(z3.Bool(fresh_name('with_uid'))),
           'self._selected_set.add': lambda ex, frame, e, base=None: _set_add_replacing(ex, frame, e)},
    modifies=[], raises_only=())
fork.ensures = fork.ensures + [('the_copy_takes_this_objects_place_in_the_selected_set',
                                lambda s: VBool(s._st.ghost.get('replaced_self', False)))]
CONTRACTS_LINK = [add_updates, frozen_init, fork]


# ---- add_updates preserves the fork invariant (so it holds at the next fork, however many updates arrive in between),
#      given what the backend guarantees about the updates it delivers (C04: a uid it has not delivered before lies above
#      every uid it delivered earlier; C02/C17: session flags are only set for messages in view)
add_updates_inv = Contract(
    'C01', F, 'SelectedMailbox.add_updates', variant='keeps-the-fork-invariant',
    params=dict(self=SELP, messages=ListS(MsgC), expunged=ListS(INT)),
    requires=FORK_INV + [
        ('msg_flags_key_has_uid', lambda s: forall(lambda i: implies(
            (i >= 0) & (i < s.messages.len), s.messages[i].flags_key[0] == s.messages[i].uid))),
        ('ASSUMED_backend_delivers_new_uids_above_everything_delivered_before', lambda s: forall(lambda a, b: implies(
            _in_msgs(s, a) & ~_sview(s)._uids.has(a) & (s.self._prev.uids.has(b) | _sview(s)._uids.has(b)), a > b), n=2)),
        # a uid whose expunge was deferred (hidden) leaves the view at the next visible update, but only the uids listed
        # in THIS update lose their session flags: sound only if such a uid carries none or is listed again (maildir's
        # set_messages re-lists it; the dict backend keeps no session flags but \Recent) -- see DESIGN.md C01
        ('ASSUMED_deferred_expunges_carry_no_session_flags_or_are_listed_again', lambda s: implies(
            ~s.self._hide_expunged, forall(lambda u: implies(
                _sview(s)._pending_remove.has(u) & s.self._session_flags._flags.has(u), _in_list(s.expunged, u)))))],
    ensures=FORK_INV,
    calls={'self._messages._update': sm_update, 'self._messages._remove': sm_remove, 'self._session_flags.remove': sess_remove},
    modifies=['self._messages', 'self._session_flags'], raises_only=(), returns=NoneS())
CONTRACTS_LINK = [add_updates, frozen_init, fork, add_updates_inv]


# ---- SelectedMailbox.silence (C02): what a STORE ... .SILENT suppresses
#
# _compare() suppresses the FETCH of a flags key that is in _silenced_flags.  For the suppression to hide only this
# session's OWN change, every key put there must be "the flags this session has synchronized (its _flags_key_map
# entry), with the operation applied" -- computed from the backend's live message object instead, the key would also
# contain a change another session made meanwhile, and that change would never be reported (C02).  Flag sets are
# opaque here: apply / & / get are uninterpreted functions, so only the DATA FLOW is decided.
import ast as _ast  # noqa: E402

APPLY = z3.Function('FlagOp.apply', RefS('FlagOp').z3(), FSet.z3(), FSet.z3(), FSet.z3())
PERM_AND = z3.Function('PermanentFlags.&', FSet.z3(), FSet.z3())
SESS_AND = z3.Function('SessionFlags.&', FSet.z3(), FSet.z3())
SESS_GET = z3.Function('SessionFlags.get', z3.IntSort(), FSet.z3())
LIVE_FLAGS = z3.Function('Message.permanent_flags(live)', Msg.z3(), FSet.z3())
_FK0 = FK._dt().accessor(0, 0)
_FK1 = FK._dt().accessor(0, 1)


def _sil_binop(ex, op, a, b):
    if isinstance(op, _ast.BitAnd) and isinstance(b, VRef) and b.sort.name == 'FSet' and isinstance(a, VRec):
        return FSet.wrap((PERM_AND if a.sort.name == PermS.name else SESS_AND)(b.t))
    return None


def _sil_get_all(ex, frame, e, base=None):
    """SynchronizedMessages.get_all through its proved contract: every element is (seq, the cached message of a uid
    of the view)"""
    ex.eval_args(e, frame)
    me = ex.entry_names['self']
    sm = ex.st.store[me.rid]['_messages']
    uids, cache = ex.st.store[sm.rid]['_uids'], ex.st.store[sm.rid]['_cache']
    lst = ListS(TupleS(INT, Msg)).fresh('addressed')
    wit = z3.Function(fresh_name('uid_of'), z3.IntSort(), z3.IntSort())
    j = z3.Int(fresh_name('j'))
    acc = TupleS(INT, Msg)._dt().accessor(0, 1)
    ex.assume(lst.n >= 0)
    ex.assume(z3.ForAll([j], z3.Implies(z3.And(0 <= j, j < lst.n), z3.And(
        _b(uids.has(VInt(wit(j)))), acc(lst.arr[j]) == _t(cache.at(VInt(wit(j))))))))
    return lst


def _sil_apply(ex, frame, e, base=None):
    args, kw = ex.eval_args(e, frame)
    base = base if base is not None else ex.eval(e.func.value, frame)
    return FSet.wrap(APPLY(_t(base), _t(args[0]), _t(args[1])))


def _sil_sget(ex, frame, e, base=None):
    args, kw = ex.eval_args(e, frame)
    return FSet.wrap(SESS_GET(_t(args[0])))


def _silenced_keys_come_from_the_synchronized_flags(s):
    m = s.self._messages
    new, old = s.self._silenced_flags, s.old.self._silenced_flags
    k = z3.Const(fresh_name('fk'), FK.z3())
    km = unview(m._flags_key_map) if hasattr(m._flags_key_map, '_v') else m._flags_key_map
    synced = _FK1(_t(km.at(VInt(_FK0(k)))))
    return VBool(z3.ForAll([k], z3.Implies(
        _b(new.has(FK.wrap(k))),
        z3.Or(_b(old.has(FK.wrap(k))),
              z3.And(_b(m._uids.has(VInt(_FK0(k)))),
                     _FK1(k) == APPLY(_t(s.flag_op), synced, PERM_AND(_t(s.flag_set))))))))


from pyvc.engine import unview  # noqa: E402


def _silenced_add_hook(st, rec, old, new):
    """write hook on SelectedMailbox._silenced_flags (active in the silence contract only): the key being added is
    checked where it is added, quantifier-free"""
    ex = getattr(st, 'executor', None)
    if ex is None or ex.c is not silence or old is None:
        return
    arr = new.arr if hasattr(new, 'arr') else new.t
    if not (z3.is_app(arr) and arr.decl().kind() == z3.Z3_OP_STORE and z3.is_true(arr.arg(2))):
        return
    k = arr.arg(1)
    sm = st.store[rec.rid]['_messages']
    km, uids = st.store[sm.rid]['_flags_key_map'], st.store[sm.rid]['_uids']
    env = ex.frames[0].env
    synced = _FK1(_t(km.at(VInt(_FK0(k)))))
    base = f'{ex.c.name}/silenced_key_added'
    ex.oblige(f'{base}/for_a_uid_of_the_view', _b(uids.has(VInt(_FK0(k)))))
    ex.oblige(f'{base}/is_the_synchronized_flags_with_the_operation_applied',
              _FK1(k) == APPLY(_t(env['flag_op']), synced, PERM_AND(_t(env['flag_set']))))


SEL.hooks['_silenced_flags'] = _silenced_add_hook

silence = Contract(
    'C02', F, 'SelectedMailbox.silence', params=dict(self=SEL, seq_set=SeqSetS, flag_set=FSet, flag_op=RefS('FlagOp')),
    requires=sm_clauses(lambda s: s.self._messages),
    ensures=[('silenced_keys_are_the_synchronized_flags_with_the_operation_applied',
              _silenced_keys_come_from_the_synchronized_flags),
             ('view_untouched', lambda s: (s.self._messages._uids == s.old.self._messages._uids) &
              (s.self._messages._flags_key_set == s.old.self._messages._flags_key_set))],
    loops={0: Loop(invariant=[('silenced_keys_are_the_synchronized_flags_with_the_operation_applied',
                               _silenced_keys_come_from_the_synchronized_flags)])},
    calls={'self._messages.get_all': _sil_get_all, 'flag_op.apply': _sil_apply, 'session_flags.get': _sil_sget},
    modifies=['self._silenced_flags', 'self._silenced_sflags'], raises_only=())
silence.binop_model = _sil_binop
silence.attr_models = {('Msg', 'permanent_flags'): lambda ex, frame, ref: FSet.wrap(LIVE_FLAGS(ref.t))}
