"""Contracts of pymap/backend/maildir/io.py: the lock discipline behind `UidList.with_write(path)`.

contracts/maildir.py models `async with UidList.with_write(path) as uidl` as "the list as read under the exclusive lock
... written back before the lock is given up".  That model is discharged here on the real code:

  FileReadable.write_lock(cls, path)   when the class names a lock file (get_lock(path) is not None) the result is
                                        FileLock(that file).write_lock() -- the EXCLUSIVE context manager whose own
                                        contract is C20's (critical section entered only while the lock file is held);
                                        otherwise the no-op lock
  FileReadable.read_lock(cls, path)    FileLock(that file).read_lock() (waits for the absence of a writer) / no-op
  UidList.get_lock                     never None: the UID list always names a lock file
  _FileWriteWith._acquire_lock         enters exactly cls.write_lock(self._path)
  _FileWriteWith.__aenter__            file_exists / file_read happen after the lock is entered, while it is held; when reading
                                        fails the lock is left again (__aexit__ will not run)
  _FileWriteWith.__aexit__             file_write / file_delete happen while it is held; it is left on every exit
                                        (normal, RuntimeError, failing write) and only after the write
  _FileInitWith.__aenter__             the first write of a missing file happens under cls.write_lock(path)
"""
import z3

from pyvc.values import *
from pyvc.values import _t, _b
from pyvc.engine import Contract, PyRaise

F = 'pymap/backend/maildir/io.py'
FU = 'pymap/backend/maildir/uidlist.py'

PathS = RefS('PathStr')
FileClass = RefS('FileClass')
FileLockObj = RefS('FileLockObj')
LockCM = RefS('LockCM')
FileObj = RefS('FileObj', _watched=BOOL, _touched=BOOL)

NOOP, WRITE, READ = 0, 1, 2
KIND = z3.Function('LockCM.kind', LockCM.z3(), z3.IntSort())
CM_PATH = z3.Function('LockCM.lock_file', LockCM.z3(), PathS.z3())
FL_PATH = z3.Function('FileLock.path', FileLockObj.z3(), PathS.z3())
GET_LOCK = z3.Function('FileClass.get_lock', FileClass.z3(), PathS.z3(), OptS(PathS).z3())
WRITE_LOCK_OF = z3.Function('FileClass.write_lock', FileClass.z3(), PathS.z3(), LockCM.z3())
READ_LOCK_OF = z3.Function('FileClass.read_lock', FileClass.z3(), PathS.z3(), LockCM.z3())


# ---- FileReadable.write_lock / read_lock

def _get_lock(ex, frame, e, base=None):
    args, kw = ex.eval_args(e, frame)
    cls = base if base is not None else ex.eval(e.func.value, frame)
    return OptS(PathS).wrap(GET_LOCK(_t(cls), _t(args[0])))


def _file_lock_ctor(ex, frame, e, base=None):
    args, kw = ex.eval_args(e, frame)
    a = args[0]
    if isinstance(a, VOpt):
        ex.oblige(f'{ex.c.name}/FileLock/constructed_from_a_lock_file_name', z3.Not(_b(a.is_none())))
        a = a.val()
    fl = FileLockObj.fresh('filelock')
    ex.assume(FL_PATH(fl.t) == _t(a))
    return fl


def _cm(kind):
    def model(ex, frame, e, base=None):
        base = base if base is not None else ex.eval(e.func.value, frame)
        cm = LockCM.fresh('lockcm')
        ex.assume(KIND(cm.t) == kind)
        if kind != NOOP:
            ex.assume(CM_PATH(cm.t) == FL_PATH(_t(base)))
        return cm
    return model


_LOCK_REG = {('FileLockObj', 'write_lock'): _cm(WRITE), ('FileLockObj', 'read_lock'): _cm(READ),
             ('FileClass', '_noop_lock'): _cm(NOOP), ('FileClass', 'get_lock'): _get_lock}


def _lock_post(kind):
    def cl(s):
        gl = OptS(PathS).wrap(GET_LOCK(_t(s.cls), _t(s.path)))
        r = _t(s.result)
        return VBool(z3.If(_b(gl.is_none()), KIND(r) == NOOP, z3.And(KIND(r) == kind, CM_PATH(r) == _t(gl.val()))))
    return cl


write_lock = Contract(
    'C04', F, 'FileReadable.write_lock', params=dict(cls=FileClass, path=PathS), returns=LockCM,
    calls={'FileLock': _file_lock_ctor},
    ensures=[('a_class_with_a_lock_file_gets_the_exclusive_lock_on_that_file', _lock_post(WRITE))], raises_only=())
read_lock = Contract(
    'C04', F, 'FileReadable.read_lock', params=dict(cls=FileClass, path=PathS), returns=LockCM,
    calls={'FileLock': _file_lock_ctor},
    ensures=[('a_class_with_a_lock_file_gets_the_shared_lock_on_that_file', _lock_post(READ))], raises_only=())

# ---- UidList.get_lock: a lock file is always named
get_lock = Contract(
    'C04', FU, 'UidList.get_lock', params=dict(cls=FileClass, path=PathS), returns=OptS(PathS),
    calls={'os.path.join': lambda ex, frame, e, base=None: (ex.eval_args(e, frame), PathS.fresh('joined'))[1]},
    ensures=[('the_uid_list_always_names_a_lock_file', lambda s: ~is_none(s.result))], raises_only=())
get_lock.attr_models = {('FileClass', 'LOCK_FILE'): lambda ex, frame, ref: PathS.fresh('LOCK_FILE')}

# ---- _FileWriteWith
FWW = RecS('_FileWriteWith', pyclass=(F, '_FileWriteWith'), _path=PathS, _cls=FileClass, _exists=BOOL,
           _lock=OptS(LockCM), _obj=OptS(FileObj))


def _ghost0(st, sc=None):
    st.ghost['held'] = VBool(False)            # a lock context is entered
    st.ghost['held_cm'] = LockCM.fresh('none')
    st.ghost['wrote_after_release'] = VBool(False)


def _cls_write_lock(ex, frame, e, base=None):
    """FileReadable.write_lock through its contract: the result is a function of (cls, path)"""
    args, kw = ex.eval_args(e, frame)
    cls = base if base is not None else ex.eval(e.func.value, frame)
    return LockCM.wrap(WRITE_LOCK_OF(_t(cls), _t(args[0])))


def _cls_read_lock(ex, frame, e, base=None):
    args, kw = ex.eval_args(e, frame)
    cls = base if base is not None else ex.eval(e.func.value, frame)
    return LockCM.wrap(READ_LOCK_OF(_t(cls), _t(args[0])))


def _unopt(v):
    return v.val() if isinstance(v, VOpt) else v


def _cm_enter(ex, frame, e, base=None):
    base = _unopt(base if base is not None else ex.eval(e.func.value, frame))
    ex.oblige(f'{ex.c.name}/lock.__aenter__/not_entered_twice', z3.Not(_b(ex.st.ghost['held'])))
    ex.st.ghost['held'] = VBool(True)
    ex.st.ghost['held_cm'] = base
    ex.st.events.append('lock.enter')
    return VNone()


def _cm_exit(ex, frame, e, base=None):
    base = _unopt(base if base is not None else ex.eval(e.func.value, frame))
    ex.eval_args(e, frame)
    ex.oblige(f'{ex.c.name}/lock.__aexit__/leaves_the_lock_that_was_entered',
              z3.And(_b(ex.st.ghost['held']), _t(ex.st.ghost['held_cm']) == _t(base)))
    ex.st.ghost['held'] = VBool(False)
    ex.st.events.append('lock.exit')
    return VBool(False)


def _under_the_write_lock(ex, what):
    """obligation of every access to the file: the context entered is cls.write_lock(self._path) and is still held"""
    me = ex.entry_names['self']
    rec = ex.st.store[me.rid]
    ex.oblige(f'{ex.c.name}/{what}/only_while_the_exclusive_lock_of_this_file_is_held',
              z3.And(_b(ex.st.ghost['held']),
                     _t(ex.st.ghost['held_cm']) == WRITE_LOCK_OF(_t(rec['_cls']), _t(rec['_path']))))


def _file_access(what, sort, may_fail=False):
    def model(ex, frame, e, base=None):
        ex.eval_args(e, frame)
        _under_the_write_lock(ex, what)
        ex.st.events.append(what)
        if may_fail and ex.choose(2) == 1:
            raise PyRaise(OSError)
        return sort.fresh(what) if sort is not None else VNone()
    return model


_FWW_CALLS = {
    'self._cls.write_lock': _cls_write_lock, 'self._cls.read_lock': _cls_read_lock,
    'self._lock.__aenter__': _cm_enter, 'lock.__aexit__': _cm_exit,
    'cls.file_exists': _file_access('file_exists', BOOL), 'cls.file_read': _file_access('file_read', FileObj, may_fail=True),
    'obj.file_write': _file_access('file_write', None, may_fail=True),
    'obj.file_delete': _file_access('file_delete', None, may_fail=True),
}
_FWW_ATTRS = {('FileObj', 'touched'): lambda ex, frame, ref: BOOL.fresh('touched'),
              ('FileObj', 'empty'): lambda ex, frame, ref: BOOL.fresh('empty')}
_entered_the_write_lock = ('the_context_entered_is_the_write_lock_of_this_file', lambda s: VBool(z3.And(
    _b(s.ghost('held')), _t(s.ghost('held_cm')) == WRITE_LOCK_OF(_t(s.self._cls), _t(s.self._path)))))
_not_held = ('the_lock_is_not_held', lambda s: ~s.ghost('held'))

acquire_lock = Contract(
    'C04', F, '_FileWriteWith._acquire_lock', params=dict(self=FWW), ghost_init=_ghost0, calls=_FWW_CALLS,
    ensures=[_entered_the_write_lock,
             ('and_remembered_for_the_release', lambda s: VBool(z3.And(
                 z3.Not(_b(is_none(s.self._lock))), _t(_unopt_view(s.self._lock)) == _t(s.ghost('held_cm')))))],
    raises_only=())


def _unopt_view(v):
    from pyvc.engine import unview
    u = unview(v) if hasattr(v, '_ref') else v
    return u.val() if isinstance(u, VOpt) else u


def _held_on_entry(st, sc=None):
    """__aexit__ runs after __aenter__: the lock entered then is held and remembered in self._lock"""
    st.ghost['held'] = VBool(True)
    st.ghost['wrote_after_release'] = VBool(False)
    me = sc.self
    st.ghost['held_cm'] = LockCM.wrap(WRITE_LOCK_OF(_t(me._cls), _t(me._path)))


aenter = Contract(
    'C04', F, '_FileWriteWith.__aenter__', params=dict(self=FWW), ghost_init=_ghost0, calls=_FWW_CALLS,
    inline={'_FileWriteWith._acquire_lock', '_FileWriteWith._release_lock'}, returns=FileObj,
    raises={OSError: [('a_lock_that_was_entered_is_left_when_reading_the_file_fails', lambda s: ~s.ghost('held'))]},
    ensures=[_entered_the_write_lock,
             ('the_file_was_read_after_the_lock_was_entered', lambda s: VBool(
                 s._st.events.index('lock.enter') < s._st.events.index('file_read')
                 if 'lock.enter' in s._st.events and 'file_read' in s._st.events else False))],
    raises_only=(OSError,))
aenter.attr_models = _FWW_ATTRS

aexit = Contract(
    'C04', F, '_FileWriteWith.__aexit__', params=dict(self=FWW, exc_type=OptS(RefS('ExcType')),
                                                       exc_val=OptS(RefS('Exc')), exc_tb=OptS(RefS('Tb'))),
    ghost_init=_held_on_entry, calls=_FWW_CALLS, inline={'_FileWriteWith._release_lock'},
    requires=[('entered_before', lambda s: VBool(z3.And(
        z3.Not(_b(is_none(s.self._lock))),
        _t(_unopt_view(s.self._lock)) == WRITE_LOCK_OF(_t(s.self._cls), _t(s.self._path)))))],
    ensures=[_not_held,
             ('nothing_is_written_after_the_lock_is_left', lambda s: VBool(
                 'lock.exit' in s._st.events and
                 all(i < s._st.events.index('lock.exit') for i, ev in enumerate(s._st.events)
                     if ev in ('file_write', 'file_delete'))))],
    raises={RuntimeError: [_not_held], OSError: [_not_held]}, raises_only=(RuntimeError, OSError))
aexit.attr_models = _FWW_ATTRS

CONTRACTS = [write_lock, read_lock, get_lock, acquire_lock, aenter, aexit]
REG = dict(_LOCK_REG)
