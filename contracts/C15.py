"""C15 -- maildir state survives restart and crashes without UID damage.

Deductive (pyvc + z3, real source of pymap/backend/maildir/mailbox.py): for append / copy / move / reset, whenever the UID
list is written back it satisfies the file invariant (every recorded uid is positive, below next_uid and stored under its
own uid), no record that was in the file has been dropped or replaced (no UID passes to a different message), next_uid
has not gone down; append/copy/move hand out exactly the old next_uid and advance it by one, the message file enters the
maildir before the list is written; reset (recovery) continues from the written next_uid.  contracts/mdio.py: the
`UidList.with_write` these rely on is the exclusive lock of the list's lock file, held from before the read until after
the write.
Bounded, fault enumeration (decides the statement on its scope): harness/e2e_crash.py."""
from pyvc.prop import Property, Bounded
from . import maildir as MD, mdio as IO
from harness.e2e_crash import bounded_crash

PROPERTY = Property(
    'C15', 'Maildir state survives restart and crashes without UID damage',
    contracts=MD.CONTRACTS + IO.CONTRACTS, registry=IO.REG,
    bounded=[Bounded('every traced filesystem operation of short histories as the kill point, then restart (real MaildirBackend)',
                     '8 histories (thorough 11) of 4-9 commands over APPEND / UID STORE / UID COPY / UID MOVE / EXPUNGE / CREATE (incl. '
                     'nested) / RENAME / SUBSCRIBE / CHECK / CLOSE / STATUS; layouts ++ and fs; store on the temporary directory\'s '
                     'filesystem and on /dev/shm; a copy of the store is taken before every os.rename/replace/remove/unlink/mkdir/'
                     'rmdir/utime/link, os.open(O_CREAT..) and open(..w/x/a) inside the store, after every file creation and after '
                     'every rename/link; each copy (about 1500-2000) is restarted and compared with the acknowledged effects; plus '
                     'the clean stop', bounded_crash('C15'), decisive=True)],
    level='other', design_ref='6 C15',
    explanation='deductive: the UID-assignment discipline around every write of the UID list (z3); the crash statement '
                'itself is decided by exhaustive fault enumeration per history on the real backend',
    trusted_base=['UidList.with_write reads the file under the write lock and writes it back when the block is left: the '
                  'lock half is proved (contracts/mdio.py: the exclusive FileLock of the list\'s lock file, entered before '
                  'the read, left after the write on every exit); FileLock itself is C20; file parsing/printing is not verified',
                  'what is read from the file satisfies UidListInv (established by the verified writers; file parsing/printing '
                  'not verified)', 'a kill loses user-space buffers only: os._exit-like crash, not power loss (no fsync is modelled)',
                  'leftover lock files are aged past FileLock\'s 600 s expiration before the restart',
                  'content is compared modulo CRLF/LF (the maildir backend stores LF line ends)'],
)
