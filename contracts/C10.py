"""C10 -- message commands behave as the IMAP reference model says.

Deductive kernel (each operation's postcondition is the reference model's transition):
  FlagOp.apply                    FLAGS / +FLAGS / -FLAGS = replace / union / difference
  PermanentFlags.intersect, SessionFlags.intersect/update   exactly the permitted named flags
  SequenceSet._get_range          RFC 3501 meaning of one sequence-set element, `*`, reversed and out-of-range
  SynchronizedMessages.get_uids/get_all   exactly the addressed messages, each labelled with its rank
  dict MailboxData.copy/move/delete/update   the abstract map uid -> (flags, content) changes as COPY / MOVE /
                                  EXPUNGE / STORE say, every other entry unchanged (sequential view; the
                                  interleaved view is C02/C04/C14)
Bounded stand-in: the real server against an independently written reference model (harness/refmodel.py):
  all single commands and pairs over the stated alphabet of STORE/EXPUNGE/UID EXPUNGE/COPY/MOVE/FETCH/APPEND
  with every sequence-set shape, plus seeded longer programs; carries the composition (BaseSession glue,
  SequenceSet.flatten as a union over elements, maildir is not run).
"""
import z3

from pyvc.values import *
from pyvc.engine import Contract, Loop
from pyvc.prop import Property, Bounded
from . import dictmbx as D, flags as FL, seqset as SS, selected as SEL, modseq as MS
from .dictmbx import MBX, Msg, F, Flag
from .C04 import weak_update, weak_expunge
from harness.refmodel import bounded_refmodel

REG = dict(D.BASE_REGISTRY)
REG[('ModSeq', 'update')] = weak_update
REG[('ModSeq', 'expunge')] = weak_expunge
REG.update(SEL.REG)

CALLS = dict(D.BASE_CALLS)
CALLS['mode.apply'] = FL._flagop_apply_call


def key_uid(m):
    return forall(lambda u: implies(m._messages.has(u), m._messages[u].uid == u))


def alloc_ok(s, p):
    return D.alloc_inv(s, p)


def others_same(new, old, except_uid=None):
    """every other entry: same object, same flags, same content"""
    def cl(u):
        same = (new._messages.has(u) == old._messages.has(u)) & implies(
            new._messages.has(u),
            (new._messages[u] == old._messages[u]) &
            (new._messages[u].permanent_flags == old._messages[u].permanent_flags) &
            (new._messages[u].content == old._messages[u].content))
        return same if except_uid is None else implies(u != except_uid, same)
    return forall(cl)


def _copy_post(move):
    def post(s):
        src_old, dst_old, dst = s.old.self, s.old.destination, s.destination
        aliased = s.self.same(s.destination)

        def done(r):
            newm = dst._messages[r]
            oldm = src_old._messages[s.uid]
            c = dst._messages.has(r) & ~dst_old._messages.has(r) & \
                (newm.permanent_flags == oldm.permanent_flags) & (newm.content == oldm.content) & \
                (newm.recent == s.recent) & (newm.uid == r)
            # every other destination entry is untouched (the moved source entry excepted when aliased)
            c = c & forall(lambda u: implies(
                (u != r) & ((u != s.uid) if (move and aliased) else VBool(True)),
                (dst._messages.has(u) == dst_old._messages.has(u)) & implies(
                    dst._messages.has(u), (dst._messages[u] == dst_old._messages[u]) &
                    (dst._messages[u].permanent_flags == dst_old._messages[u].permanent_flags))))
            if move:
                c = c & ~s.self._messages.has(s.uid) if not aliased else c & ~s.self._messages.has(s.uid)
            return c
        return ite(src_old._messages.has(s.uid), when_some(s.result, done, none=False),
                   is_none(s.result) & others_same(dst, dst_old))
    return post


def _src_post(move):
    def post(s):
        if s.self.same(s.destination):
            return VBool(True)
        if move:
            return others_same(s.self, s.old.self, except_uid=s.uid)
        return others_same(s.self, s.old.self)
    return post


_req = [('KeyUid.self', lambda s: key_uid(s.self)), ('Alloc.self', lambda s: alloc_ok(s, 'self')),
        ('UidInv.self', lambda s: forall(lambda u: implies(s.self._messages.has(u), u <= s.self._max_uid)))]
_req2 = _req + [('KeyUid.destination', lambda s: key_uid(s.destination)),
                ('Alloc.destination', lambda s: alloc_ok(s, 'destination')),
                ('UidInv.destination', lambda s: forall(lambda u: implies(
                    s.destination._messages.has(u), u <= s.destination._max_uid)))]

copy = Contract('C10', F, 'MailboxData.copy', variant='reference-model',
                params=dict(self=MBX, uid=INT, destination=MBX, recent=BOOL), alias=[('self', 'destination')],
                requires=_req2, calls=CALLS, ghost_init=D.ghost_init,
                ensures=[('copy_duplicates_flags_and_content', _copy_post(False)),
                         ('source_untouched', _src_post(False))],
                raises_only=())
move = Contract('C10', F, 'MailboxData.move', variant='reference-model',
                params=dict(self=MBX, uid=INT, destination=MBX, recent=BOOL), alias=[('self', 'destination')],
                requires=_req2, calls=CALLS, ghost_init=D.ghost_init,
                ensures=[('move_is_copy_then_removal', _copy_post(True)),
                         ('rest_of_source_untouched', _src_post(True))],
                raises_only=())
delete = Contract('C10', F, 'MailboxData.delete', variant='reference-model',
                  params=dict(self=MBX, uids=ListS(INT)), requires=_req, calls=CALLS, ghost_init=D.ghost_init,
                  ensures=[('removes_exactly_the_given_uids', lambda s: forall(lambda u: (
                      s.self._messages.has(u) == (s.old.self._messages.has(u) & ~MS.in_list(s.uids, u))) &
                      implies(s.self._messages.has(u), (s.self._messages[u] == s.old.self._messages[u]) &
                              (s.self._messages[u].permanent_flags == s.old.self._messages[u].permanent_flags))))],
                  loops={0: Loop(invariant=[
                      ('removed_prefix', lambda s: forall(lambda u: s.self._messages.has(u) == (
                          s.pre.self._messages.has(u) & ~MS.in_list(s.uids, u, 0, s.k)))),
                      ('same_objects', lambda s: forall(lambda u: implies(
                          s.self._messages.has(u), s.self._messages[u] == s.pre.self._messages[u])))])},
                  raises_only=())
update = Contract('C10', F, 'MailboxData.update', variant='reference-model',
                  params=dict(self=MBX, uid=INT, cached_msg=Msg, flag_set=SetS(Flag), mode=FL.FlagOpS),
                  requires=_req + FL.CONSTS + [('cached_allocated', lambda s: s.ghost('alloc.Msg').has(s.cached_msg))],
                  calls=CALLS, inline={'MailboxData.get'}, ghost_init=D.ghost_init, returns=Msg,
                  ensures=[
                      ('addressed_message_gets_model_flags', lambda s: implies(
                          s.old.self._messages.has(s.uid),
                          (s.wrap(s.result) == s.self._messages[s.uid]) &
                          (s.self._messages[s.uid].permanent_flags == FL.apply_spec(
                              s.mode, s.old.self._messages[s.uid].permanent_flags, s.flag_set)))),
                      ('no_other_message_changes', lambda s: others_same(s.self, s.old.self, except_uid=s.uid) &
                       (s.self._messages.has(s.uid) == s.old.self._messages.has(s.uid))),
                      ('expunged_copy_when_absent', lambda s: implies(
                          ~s.old.self._messages.has(s.uid), s.wrap(s.result).expunged)),
                  ],
                  raises_only=(IndexError, TypeError))

# ---- MailboxDataInterface.find_deleted: EXPUNGE decides on the mailbox's messages, not on what the session saw last
#
# find() re-reads every addressed message from the backend; the \\Deleted decision must be taken on THOSE objects (their
# flags as of now), in order, nothing else -- the selection's cached snapshots may predate another session's STORE.
from pyvc.values import _t, _b  # noqa: E402
import z3 as _z3  # noqa: E402
_MbxI = RefS('MbxIface')
FLAG_DELETED = VRef(_z3.Const('Flag.Deleted', D.Flag.z3()), D.Flag)
_FLAGS_NOW = _z3.Function('Message.get_flags(now)', Msg.z3(), SetS(D.Flag).z3())
_UID_OF = _z3.Function('Message.uid', Msg.z3(), _z3.IntSort())
_FoundS = ListS(TupleS(INT, Msg))
_f1 = TupleS(INT, Msg)._dt().accessor(0, 1)


def _fd_find(ex, frame, e, base=None):
    ex.eval_args(e, frame)
    lst = _FoundS.fresh('found')
    ex.assume(lst.n >= 0)
    ex.st.ghost['found'] = lst
    return lst


def _fd_cached(ex, frame, e, base=None):
    """selected.messages.get_all(...): the cached snapshots -- other objects than the ones find() yields"""
    ex.eval_args(e, frame)
    lst = _FoundS.fresh('cached')
    ex.assume(lst.n >= 0)
    return lst


def _fd_sound(s):
    found = s._st.ghost.get('found')
    if found is None:
        return VBool(False)             # find() was never asked
    res = s.result
    comp = getattr(unview(res) if hasattr(res, '_v') else res, 'comp', None)
    j, i = _z3.Int(fresh_name('j')), _z3.Int(fresh_name('i'))
    r = unview(res) if hasattr(res, '_v') else res
    in_found = lambda t: _z3.Exists([i], _z3.And(i >= 0, i < found.n, _UID_OF(_f1(found.arr[i])) == t,
                                                _z3.Select(_FLAGS_NOW(_f1(found.arr[i])), FLAG_DELETED.t)))
    return VBool(_z3.ForAll([j], _z3.Implies(_z3.And(j >= 0, j < r.n), in_found(r.arr[j]))))


def _fd_complete(s):
    found = s._st.ghost.get('found')
    if found is None:
        return VBool(False)
    r = unview(s.result) if hasattr(s.result, '_v') else s.result
    comp = getattr(r, 'comp', None)
    i, j = _z3.Int(fresh_name('i')), _z3.Int(fresh_name('j'))
    if comp is not None:
        src, inv, seq = comp
        wit = inv(i)
        hit = _z3.And(wit >= 0, wit < r.n, r.arr[wit] == _UID_OF(_f1(found.arr[i])))
    else:
        hit = _z3.Exists([j], _z3.And(j >= 0, j < r.n, r.arr[j] == _UID_OF(_f1(found.arr[i]))))
    return VBool(_z3.ForAll([i], _z3.Implies(_z3.And(i >= 0, i < found.n,
                                                     _z3.Select(_FLAGS_NOW(_f1(found.arr[i])), FLAG_DELETED.t)), hit)))


from pyvc.engine import unview  # noqa: E402

find_deleted = Contract(
    'C10', 'pymap/backend/mailbox.py', 'MailboxDataInterface.find_deleted',
    params=dict(self=_MbxI, seq_set=SEL.SeqSetS, selected=SEL.SEL), returns=ListS(INT), raises_only=(),
    globals={'Deleted': FLAG_DELETED},
    calls={'self.find': _fd_find, 'selected.messages.get_all': _fd_cached,
           'msg.get_flags': lambda ex, frame, e, base=None: (ex.eval_args(e, frame), SetS(D.Flag).wrap(
               _FLAGS_NOW(_t(base if base is not None else ex.eval(e.func.value, frame)))))[1]},
    ensures=[('only_messages_find_yields_whose_flags_now_hold_deleted', _fd_sound),
             ('every_such_message_is_returned', _fd_complete)],
    modifies=[])
find_deleted.attr_models = {('Msg', 'uid'): lambda ex, frame, ref: VInt(_UID_OF(ref.t))}

from . import session as SES  # noqa: E402
_session_c01 = [c for c in SES.make('C01') if c.qualname.split('.')[-1] in ('move_messages', 'copy_messages', 'update_flags',
                                                                             'fetch_messages', 'expunge_mailbox')]
CONTRACTS = _session_c01 + [find_deleted, FL.flagop_apply, FL.perm_intersect, FL.sess_intersect, FL.sess_update, SS.get_range,
             SEL.get_uids, SEL.get_all, copy, move, delete, update]

PROPERTY = Property(
    'C10', 'Message commands behave as the IMAP reference model says',
    contracts=CONTRACTS, registry=dict(list(SES.REG.items()) + list(REG.items())),
    bounded=[Bounded('real server vs. reference model (dict backend)',
                     'every single command and (quick: a reduced, thorough: the full) set of command pairs over STORE '
                     '(5 modes x 6 flag lists x 10 sequence-set shapes incl. reversed, *, N:* beyond the end, '
                     'duplicates), UID STORE, EXPUNGE, UID EXPUNGE, COPY/MOVE/UID COPY/UID MOVE (existing and missing '
                     'destination), FETCH BODY[] / BODY.PEEK[], APPEND; plus seeded programs of length 3-4; after every '
                     'command the session listing, and at the end the stored contents of both mailboxes, are compared '
                     'with an independent model',
                     bounded_refmodel('C10'), decisive=True),
             Bounded('real server vs. reference model (maildir backend, ++ layout, on a temporary directory)',
                     'the same command alphabet: every single command and 400 (thorough 6000) seeded pairs and triples; the store '
                     'starts like the dict demo data (INBOX uids 101..104, set through the UID list\'s next-uid field); listing after '
                     'every command, final contents of both mailboxes through a second connection; bodies compared modulo CRLF/LF '
                     '(known finding of C03)', bounded_refmodel('C10', backend='++'), decisive=True)],
    level='other', design_ref='6 C10',
    explanation='deductive: per-operation postconditions equal to the reference model transition (z3, unbounded); '
                'bounded: composition through BaseSession/ConnectionState against an independent reference model',
    trusted_base=['SequenceSet.flatten used through the ghost denotation den(); its definition as the union of '
                  '_get_range over the elements is covered by the bounded run only',
                  'model of Message construction; refinement composes over programs (paper lemma)'],
)
