"""Contracts for C16 (dict backend): MailboxData.update_selected never goes to sleep while work is pending.

Liveness is restated as a safety obligation at the blocking point: when the coroutine suspends in
`either_event.wait()`, the session is up to date with the change log (selected.mod_sequence == highest); the or-event is
created before, and nothing suspends between, the check and the wait.  Every mutator ends its atomic segment with
self._updated.set() (structural obligation), and _AsyncioEvent.set() sets every registered listener (contract)."""
import ast

import z3

from pyvc.values import *
from pyvc.values import _t, _b
from pyvc.engine import Contract, Loop, load_module_ast, Unsupported
from . import dictmbx as D, selected as SELM
from .dictmbx import MBX, Msg, F
from .modseq import ModSeq

EventR = RecS('Event')


def _or_event(ex, frame, e, base):
    ex.eval_args(e, frame)
    ev = ex.st.new_record(EventR, 'either_event')
    ex.st.ghost['or_event_created'] = True
    return ev


def _wait(ex, frame, e, base):
    """the blocking point"""
    mbx = ex.frames[0].env['self']
    sel = ex.frames[0].env['selected']
    ms = ex.st.store[mbx.rid]['_mod_sequences']
    highest = ex.st.store[ms.rid]['_highest']
    cur = ex.st.store[sel.rid]['_mod_sequence']
    ex.oblige(f'{ex.c.name}/wait/never_sleeps_with_work_pending',
              z3.And(z3.Not(cur.is_none().t), cur.val().t == highest.t))
    ex.oblige(f'{ex.c.name}/wait/listener_registered_before_sleeping', z3.BoolVal(ex.st.ghost.get('or_event_created', False)))
    # other tasks run while this one sleeps: the mailbox may change arbitrarily
    ex.havoc_record_deep(mbx)
    return VNone()


def _add_updates(ex, frame, e, base):
    ex.eval_args(e, frame)
    return VNone()


def _find_updated(ex, frame, e, base):
    ex.eval_args(e, frame)
    a, b = SetS(INT).fresh('updated'), SetS(INT).fresh('expunged')
    a.frozen = b.frozen = True
    return VTuple([a, b])


REG = dict(D.BASE_REGISTRY)
REG.update({('Event', 'or_event'): _or_event, ('Event', 'wait'): _wait,
            ('SelectedMailbox', 'add_updates'): _add_updates, ('ModSeq', 'find_updated'): _find_updated})


def _mk(wait_sort, variant):
    return Contract(
        'C16', F, 'MailboxData.update_selected', variant=variant,
        params=dict(self=MBX, selected=SELM.SEL, wait_on=wait_sort),
        ensures=[('session_is_brought_up_to_the_highest_mod_sequence',
                  lambda s: s.selected._mod_sequence.eq(s.self._mod_sequences._highest)),
                 ('returns_the_same_selection', lambda s: VBool(s.result._rec.rid == s.selected._rec.rid)
                  if hasattr(s.result, '_rec') else VBool(True))],
        calls=D.BASE_CALLS, raises_only=())


update_selected_idle = _mk(EventR, 'idle')
update_selected_poll = _mk(NoneS(), 'poll')


def mutators_signal():
    """every method of dict MailboxData that logs to the change log ends with self._updated.set() in the same
    block (so the signal is in the same atomic segment as the change)"""
    src, tree = load_module_ast(F)
    out = []
    for cls in ast.walk(tree):
        if isinstance(cls, ast.ClassDef) and cls.name == 'MailboxData':
            for fn in cls.body:
                if not isinstance(fn, (ast.AsyncFunctionDef, ast.FunctionDef)):
                    continue
                for node in ast.walk(fn):
                    body = getattr(node, 'body', None)
                    if not isinstance(body, list):
                        continue
                    for blk in [body] + [getattr(node, 'orelse', []) or []]:
                        for i, st in enumerate(blk):
                            if isinstance(st, ast.Expr) and isinstance(st.value, ast.Call) and \
                                    isinstance(st.value.func, ast.Attribute) and st.value.func.attr in ('update', 'expunge') \
                                    and isinstance(st.value.func.value, ast.Attribute) and \
                                    st.value.func.value.attr == '_mod_sequences':
                                rest = blk[i + 1:]
                                ok = any(isinstance(r, ast.Expr) and isinstance(r.value, ast.Call) and
                                         isinstance(r.value.func, ast.Attribute) and r.value.func.attr == 'set' and
                                         isinstance(r.value.func.value, ast.Attribute) and
                                         r.value.func.value.attr == '_updated' for r in rest) and not any(
                                    isinstance(x, (ast.Await, ast.If)) for r in rest[:1] for x in ast.walk(r))
                                out.append((f'pymap.backend.dict.mailbox.MailboxData.{fn.name}/change_is_signalled_in_the_same_segment@{st.lineno - fn.lineno}',
                                            ok, f'{fn.name}: a change-log entry (line {st.lineno}) is not followed by self._updated.set() in the same block'))
    if not out:
        raise Unsupported('no change-log writers found')
    return out


CONTRACTS = [update_selected_idle, update_selected_poll]


# ---- _AsyncioEvent.set / or_event

FC = 'pymap/concurrent.py'
EvRef = RefS('EventObj')
AEvent = RecS('asyncio.Event')
AEV = RecS('_AsyncioEvent', pyclass=(FC, '_AsyncioEvent'), _event=AEvent, _listeners=SetS(EvRef))


def _aev_set(ex, frame, e, base):
    ex.st.ghost['own_event_set'] = True
    return VNone()


def _listener_set(ex, frame, e, base):
    g = ex.st.ghost
    g['signalled'] = g['signalled'].add(base)
    return VNone()


EV_REG = {('asyncio.Event', 'set'): _aev_set, ('EventObj', 'set'): _listener_set}

event_set = Contract(
    'C16', FC, '_AsyncioEvent.set', params=dict(self=AEV),
    ghost_init=lambda st, sc: st.ghost.__setitem__('signalled', SetS(EvRef).empty()),
    ensures=[('sets_its_own_event', lambda s: VBool(bool(s._st.ghost.get('own_event_set')))),
             ('sets_every_registered_listener', lambda s: forall(lambda l: implies(
                 s.self._listeners.has(l), s.ghost('signalled').has(l)), sort=EvRef))],
    loops={0: Loop(ghost=['signalled'], invariant=[('prefix_signalled', lambda s: forall(lambda i: implies(
        (i >= 0) & (i < s.k), s.ghost('signalled').has(s.seq.elem(_t(i)))))),
        ('monotone', lambda s: forall(lambda l: implies(s.pre.ghost('signalled').has(l), s.ghost('signalled').has(l)),
                                      sort=EvRef))])},
    modifies=[], raises_only=())
CONTRACTS.append(event_set)
REG.update(EV_REG)
