"""C12 -- a read-only selection never changes the mailbox.

Deductive (real BaseSession / ConnectionState source against an abstract backend, contracts/session.py and
contracts/state.py): every call into the backend is an effect checked where it happens --
  * no flag change / removal / \\Recent claim reaches the selected mailbox while `selected.readonly`
    (update_flags, expunge_mailbox and move_messages raise MailboxReadOnly first; select_mailbox claims \\Recent
    only for read-write selections; fetch_messages may set \\Seen only under its precondition, which do_fetch is
    proved to establish: set_seen => not readonly),
  * nothing is inserted into a mailbox whose `readonly` is true (append/copy/move),
  * add_recent only ever reaches a read-write selection (_pick_selected, SelectedSet.any_selected),
  * do_close answers OK, deselects, and raises nothing -- for read-only selections too.
Bounded: every message command and UID variant inside EXAMINE (and inside a read-only mailbox) on the real server,
stored state of all mailboxes dumped before/after.
"""
from pyvc.prop import Property, Bounded
from . import session as SES, state as ST, selected as SELM, dictmbx as D
from pyvc.engine import Contract
from pyvc.values import *
from harness.e2e_readonly import bounded_readonly

REG = dict(SES.REG)
REG.update({k: v for k, v in ST.REG.items() if k not in REG})

_session = [c for c in SES.make('C12') if c.qualname.split('.')[-1] in (
    'update_flags', 'expunge_mailbox', 'copy_messages', 'move_messages', 'fetch_messages', 'append_messages',
    'select_mailbox', 'check_mailbox')]

# ---- the dict backend's read path changes nothing (discharges, for this backend, the assumption that get() is an
#      effect-free call of the abstract backend)
dict_get = Contract(
    'C12', D.F, 'MailboxData.get', variant='pure', params=dict(self=D.MBX, uid=INT, cached_msg=D.Msg),
    calls=dict(D.BASE_CALLS), ghost_init=D.ghost_init, returns=D.Msg, modifies=[],
    requires=[('cached_allocated', lambda s: s.ghost('alloc.Msg').has(s.cached_msg))],
    ensures=[('mailbox_contents_and_log_untouched', lambda s: (s.self._messages == s.old.self._messages) &
              (s.self._max_uid == s.old.self._max_uid) &
              (s.self._mod_sequences._highest == s.old.self._mod_sequences._highest)),
             ('a_stored_message_is_handed_out_as_it_is', lambda s: implies(
                 s.old.self._messages.has(s.uid), s.result == s.old.self._messages[s.uid])),
             ('an_absent_one_is_answered_by_a_fresh_expunged_copy', lambda s: implies(
                 ~s.old.self._messages.has(s.uid), s.wrap(s.result).expunged & ~s.old.ghost('alloc.Msg').has(s.result)))],
    raises_only=(IndexError, TypeError))
_dict_reg = dict(D.BASE_REGISTRY)

PROPERTY = Property(
    'C12', 'A read-only selection never changes the mailbox',
    contracts=_session + [ST.do_fetch, ST.do_close, SELM.any_selected, dict_get, SES.sel_init],
    registry=dict(list(_dict_reg.items()) + list(REG.items())),
    bounded=[Bounded('every message command inside a read-only selection (real server)',
                     '25 commands (FETCH incl. BODY[] and RFC822, STORE x5 incl. FLAGS () and non-permitted flags, '
                     'EXPUNGE, UID EXPUNGE, COPY/MOVE out, into itself and into a read-only mailbox, SEARCH, APPEND '
                     'into itself and into a read-only mailbox, CLOSE): all single commands and all pairs inside '
                     'EXAMINE INBOX, all single commands inside the read-only mailbox Trash, with a second read-only '
                     'observer; thorough adds 3000 seeded triples',
                     bounded_readonly('C12'), decisive=False)],
    level='proof', design_ref='6 C12',
    trusted_base=['the backend is abstract: its calls are effects with no behaviour of their own (a backend that '
                  'mutates inside get()/find() would not be seen); for the dict backend MailboxData.get is proved to change '
                  'nothing (find() is a loop over get())',
                  'mailbox ids identify mailboxes; the name a selection was made under finds its mailbox'],
)
