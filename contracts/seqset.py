"""Contracts of pymap/parsing/specials/sequenceset.py -- SequenceSet._get_range against the RFC 3501 meaning
of one sequence-set element (C10), with the element's union type (int | MaxValue | (idx, idx)) modelled by
tagged symbolic values."""
import z3

from pyvc.values import *
from pyvc.values import _t, _b
from pyvc.engine import Contract, Loop, SeqView

F = 'pymap/parsing/specials/sequenceset.py'


def _max_cls():
    from pymap.parsing.specials.sequenceset import MaxValue
    return MaxValue


class VSeqIdx(VInt):
    """int | MaxValue"""

    def __init__(self, t, ismax):
        super().__init__(t)
        self.ismax = ismax

    def isinstance_model(self, ex, classes):
        r = z3.BoolVal(False)
        if _max_cls() in classes:
            r = z3.Or(r, self.ismax)
        if int in classes:
            r = z3.Or(r, z3.Not(self.ismax))
        return VBool(r)


class VSeqElem(VInt):
    """int | MaxValue | tuple[idx, idx]   (tag 0 / 1 / 2)"""

    def __init__(self, tag, n, l, lmax, r, rmax):
        super().__init__(n)
        self.tag, self.l, self.lmax, self.r, self.rmax = tag, l, lmax, r, rmax

    def isinstance_model(self, ex, classes):
        r = z3.BoolVal(False)
        if int in classes:
            r = z3.Or(r, self.tag == 0)
        if _max_cls() in classes:
            r = z3.Or(r, self.tag == 1)
        if tuple in classes:
            r = z3.Or(r, self.tag == 2)
        return VBool(r)

    def unpack_model(self, ex, n):
        return [VSeqIdx(self.l, self.lmax), VSeqIdx(self.r, self.rmax)]

    def concretize_model(self, ev):
        g = lambda t: ev(t).as_long()
        tag = g(self.tag)
        if tag == 0:
            return g(self.t)
        if tag == 1:
            return '*'
        idx = lambda v, m: '*' if z3.is_true(ev(m)) else g(v)
        return [idx(self.l, self.lmax), idx(self.r, self.rmax)]


class SeqElemS(Sort):
    def fresh(self, name):
        I = lambda s: z3.Int(fresh_name(f'{name}.{s}'))
        B = lambda s: z3.Bool(fresh_name(f'{name}.{s}'))
        return VSeqElem(I('tag'), I('n'), I('l'), B('lmax'), I('r'), B('rmax'))

    # plain data: int | '*' | [idx, idx]
    def build_model(self, data, ctx):
        mx = _max_cls()()
        conv = lambda d: mx if d == '*' else d
        if isinstance(data, (list, tuple)):
            return (conv(data[0]), conv(data[1]))
        return conv(data)

    def abstract_model(self, obj, ctx):
        conv = lambda d: '*' if isinstance(d, _max_cls()) else d
        if isinstance(obj, tuple):
            return [conv(obj[0]), conv(obj[1])]
        return conv(obj)

    def lift_model(self, data, lifter):
        iv, bv = z3.IntVal, z3.BoolVal
        if isinstance(data, (list, tuple)):
            l, r = data
            return VSeqElem(iv(2), iv(0), iv(0 if l == '*' else l), bv(l == '*'),
                            iv(0 if r == '*' else r), bv(r == '*'))
        if data == '*':
            return VSeqElem(iv(1), iv(0), iv(0), bv(False), iv(0), bv(False))
        return VSeqElem(iv(0), iv(data), iv(0), bv(False), iv(0), bv(False))


def elem_wf(e):
    return VBool(z3.And(e.tag >= 0, e.tag <= 2, z3.Implies(e.tag == 0, e.t >= 1),
                        z3.Implies(z3.And(e.tag == 2, z3.Not(e.lmax)), e.l >= 1),
                        z3.Implies(z3.And(e.tag == 2, z3.Not(e.rmax)), e.r >= 1)))


def range_sem(e, mx, x):
    """RFC 3501 seq-number / seq-range with `*` = mx: does the element denote x (within 1..mx)?
    n -> {n} if n <= mx;  * -> {mx};  a:b -> [min(a,b), max(a,b)] cut at mx (so `N:*` with N > mx is {mx})"""
    mx, x = _t(mx), _t(x)
    L = z3.If(e.lmax, mx, e.l)
    R = z3.If(e.rmax, mx, e.r)
    lo = z3.If(L <= R, L, R)
    hi0 = z3.If(L >= R, L, R)
    hi = z3.If(hi0 <= mx, hi0, mx)
    return VBool(z3.If(e.tag == 0, z3.And(x == e.t, e.t <= mx),
                       z3.If(e.tag == 1, x == mx, z3.And(lo <= mx, lo <= x, x <= hi))))


def seq_contains(res, x):
    x = _t(x)
    if isinstance(res, SeqView) and hasattr(res, 'range'):
        lo, hi = res.range
        return VBool(z3.And(lo.t <= x, x < hi.t))
    if isinstance(res, VTuple) and not res.items:
        return VBool(False)
    raise Unsupported(f'unexpected result shape {type(res).__name__}')


get_range = Contract(
    'C10', F, 'SequenceSet._get_range', params=dict(elem=SeqElemS(), max_value=INT),
    requires=[('element_well_formed', lambda s: elem_wf(unview_elem(s.elem))),
              ('max_nonneg', lambda s: s.max_value >= 0)],
    ensures=[('denotes_rfc_range', lambda s: forall(lambda x: seq_contains(s.result, x) ==
                                                    range_sem(unview_elem(s.elem), s.max_value, x)))],
    modifies=[], raises_only=(), pure=True)


def unview_elem(e):
    return e


def _lift_range(result, lifter):
    if isinstance(result, range):
        lo, hi = VInt(result.start), VInt(result.stop)
        sv = SeqView(z3.IntVal(len(result)), lambda k: VInt(lo.t + k), INT)
        sv.range = (lo, hi)
        return sv
    if result == ():
        return VTuple([])
    raise Unsupported(f'unexpected result {result!r}')


get_range.lift_result = _lift_range
