"""C07 -- every response is well-formed IMAP.

Deductive kernel (pyvc + z3, from the real source of pymap/parsing/primitives.py):
  * String.build chooses the quoted form only for values without CR, LF, NUL, never for binary data, and keeps the value;
  * LiteralString.__init__ / write: the number announced in {n} is the number of bytes written after the prefix, the
    bytes are the string, the prefix ends in }CRLF and binary literals carry the ~ marker.
Bounded (decides the statement on its scope): hostile client data echoed through every response form on the real server,
the complete byte stream of every connection parsed by the independent strict grammar (harness/respgrammar.py).
QuotedString.__bytes__ / AString.__bytes__ (regex based) and the structure builders of parsing/response/fetch.py are
covered by the bounded run only."""
from pyvc.prop import Property, Bounded
from . import wire as W
from harness.e2e_wellformed import bounded_wellformed

PROPERTY = Property(
    'C07', 'Every response is well-formed IMAP',
    contracts=W.CONTRACTS,
    bounded=[Bounded('hostile data echoed through every response form, streams parsed by an independent strict grammar',
                     '58 hostile byte strings (quotes, backslashes, bare CR/LF, NUL, 8-bit, UTF-8, encoded words, parens, {n}, '
                     'wildcards, 63/64/70/1100 bytes, ...) used as: mailbox name in 18 commands; keyword in STORE/APPEND/SEARCH; '
                     'ID parameter; header field name in BODY[HEADER.FIELDS]; junk command/tag/charset/arguments; value of 19 '
                     'header fields; 15 structured MIME/address forms each; plus 33 message shapes (multipart with 0/1/12 parts, '
                     'depth 12, message/rfc822 nests, missing/empty boundary, bad base64/QP, bare CR/LF, NUL, 40 parameters); each '
                     'fetched with 9 FETCH/SEARCH command lines covering every fetch attribute',
                     bounded_wellformed('C07'), decisive=True)],
    level='other', design_ref='6 C07',
    explanation='deductive: the quoted-vs-literal decision and the literal length announcement (z3); the statement itself '
                '(every byte parses) is decided on the stated scope by an independent strict response parser',
    trusted_base=['the independent grammar in harness/respgrammar.py is the RFC 3501 response grammar (+ advertised extensions)',
                  'model of bytes %-formatting for the literal prefix; QuotedString/Nil/LiteralString constructors keep their '
                  'arguments (String.build contract)', 'Writeable payloads write len(payload) bytes (C03 bounded run)'],
)
