"""C01 -- sequence numbers: the client view never diverges from the server.

Deductive kernel (pymap/selected.py):
  SynchronizedMessages._update   representation invariant (sorted list / uid set / rank cache / flag-key maps)
                                 preserved, including the partial renumbering from the lowest insertion point
  SynchronizedMessages._remove   deferred when `pending` (no renumbering while expunges are hidden), otherwise
                                 uids removed, list re-sorted, ranks rebuilt; RI preserved
  SelectedMailbox._compare       the generated untagged list, applied by a ghost IMAP client to the view it held
                                 (before.g_sorted): every EXPUNGE number is in range and deletes exactly the
                                 expunged uid (descending order), no EXPUNGE while hidden, EXISTS equals the
                                 server's count and never shrinks, every FETCH number denotes the uid the server
                                 meant, and the client ends with exactly the server's new numbering.
Bounded stand-in (real IMAPServer + dict backend over in-memory streams; two sessions; client model):
  the glue the kernel does not reach -- BaseSession command methods, ConnectionState.do_* (hide_expunged,
  fork after every command), CommandResponse.add_untagged (FETCH merging).
"""
from pyvc.prop import Property, Bounded
from . import selected as S, state as ST, runstate as RS, session as SES
from harness.e2e_views import bounded_views
from harness.e2e_idle import bounded_idle_races

# BaseSession: sequence numbers are interpreted (get_all / get_uids / find) BEFORE the selection is synchronised in the same
# command -- otherwise they would be read in a numbering the client has not been told about yet (policy C01 of
# contracts/session.py; the policy existed but no property instantiated it until the fourth seeding round)
_session = [c for c in SES.make('C01') if c.qualname.split('.')[-1] in (
    'search_mailbox', 'move_messages', 'copy_messages', 'fetch_messages', 'update_flags', 'expunge_mailbox')]

PROPERTY = Property(
    'C01', 'Sequence numbers: the client view never diverges from the server',
    contracts=[S.sm_update, S.sm_remove, S.compare] + S.CONTRACTS_LINK + [ST.do_command_sel, ST.do_select, ST.do_fetch, ST.do_store, ST.do_search, RS.handle_updates, S.get_uids, S.get_all] + _session,
    registry=dict(list(SES.REG.items()) + list(ST.REG.items()) + list(S.REG.items())),
    bounded=[Bounded(
        'two sessions on one mailbox, client model',
        'quick: every victim program of 2 commands from 9 (NOOP, FETCH, UID FETCH x2, STORE, STORE.SILENT, UID '
        'STORE.SILENT, SEARCH, EXPUNGE) x every 2-step program of the other session from {nothing, expunge lowest, '
        'expunge middle, append, flag change, expunge+append}; thorough: 15 victim commands x 7 mutations, length 2, '
        'plus length 3 over 6 x 4; after every command the response stream is applied to a client model and the '
        'server numbering is probed with a non-UID FETCH 1:* (UID); at the end NOOP + comparison with the mailbox',
        bounded_views('C01'), decisive=True),
        Bounded('IDLE: a change and DONE close together (real server, client model)',
                'every change kind {append, two appends, expunge lowest / middle, flag change} x DONE before / after the change '
                'at 0..11 (thorough 0..23) event-loop turns distance; DONE sent while the transport is blocked on an earlier '
                'notification, bursts of 1-2 changes; afterwards NOOP and a non-UID FETCH 1:* probed against the client model',
                bounded_idle_races('C01'), decisive=False)],
    level='other', design_ref='6 C01',
    explanation='deductive: RI of the synchronized message list and the ghost-client stream condition of _compare '
                '(all obligations discharged by z3); bounded: the session/connection glue and FETCH merging, '
                'exhaustively on the stated scope with the real server',
    trusted_base=['models of the response constructors (kind, number) and of chain/groupby in _compare',
                  'induction principle over naturals (prefix lemma: steps proved, conclusion assumed)',
                  'the requires of _compare are proved at its call site in fork from the fork invariant, which add_updates '
                  'preserves and _Frozen.__init__ establishes, under two stated backend assumptions (new uids are delivered '
                  'above everything delivered before: C04; a deferred expunge carries no session flags or is listed again); '
                  'that hide_expunged only changes right after a fork (when _prev equals the view) is a protocol argument '
                  '(do_command / do_fetch / do_store / do_search), covered by the bounded run'],
)
