"""Contracts for the wire forms of strings (pymap/parsing/primitives.py), used by C07 and C18.

A wire string is abstracted as (kind, value, binary): kind 0 = NIL, 1 = quoted, 2 = literal.  String.build is proved
to choose the quoted form only for values a quoted string can carry (no CR, LF, NUL) and never for binary data, to keep
the value unchanged, and LiteralString to announce exactly the number of bytes it writes."""
import z3

from pyvc.values import *
from pyvc.values import _t, _b
from pyvc.engine import Contract, Loop, PyRaise, Unsupported
from .mime import BYTES

F = 'pymap/parsing/primitives.py'
WS = TupleS(INT, BYTES, BOOL)
NILK, QUOTED, LITERAL = 0, 1, 2


def _empty(ex):
    return ex.bytes_const(b'')


def _quoted(ex, frame, e, base=None):
    args, kw = ex.eval_args(e, frame)
    return VTuple([VInt(QUOTED), args[0], VBool(False)], WS)


def _literal(ex, frame, e, base=None):
    args, kw = ex.eval_args(e, frame)
    return VTuple([VInt(LITERAL), args[0], args[1] if len(args) > 1 else kw.get('binary', VBool(False))], WS)


def _nil(ex, frame, e, base=None):
    return VTuple([VInt(NILK), _empty(ex), VBool(False)], WS)


def _lift(result, lifter):
    from pymap.parsing.primitives import Nil, QuotedString, LiteralString
    if isinstance(result, Nil):
        data = (NILK, [], False)
    elif isinstance(result, QuotedString):
        data = (QUOTED, list(result.value), False)
    else:
        assert isinstance(result, LiteralString)
        data = (LITERAL, list(result.value), bool(result.binary))
    return lifter.lift(WS, data)


def clean(v):
    """no CR, LF or NUL: what a quoted string may carry (RFC 3501 QUOTED-CHAR; quote and backslash are escaped)"""
    return forall(lambda i: implies((i >= 0) & (i < v.len), (v[i] != 13) & (v[i] != 10) & (v[i] != 0)))


build_bytes = Contract(
    'C07', F, 'String.build', variant='bytes', params=dict(cls=NoneS(), value=BYTES, binary=BOOL),
    requires=[('bytes_are_bytes', lambda s: forall(lambda i: implies((i >= 0) & (i < s.value.len), (s.value[i] >= 0) & (s.value[i] <= 255))))],
    ensures=[('quoted_form_only_for_values_without_CR_LF_NUL', lambda s: implies(s.result[0] == QUOTED, clean(s.result[1]))),
             ('binary_data_is_never_quoted', lambda s: implies(s.binary & (s.value.len > 0), s.result[0] == LITERAL)),
             ('the_value_is_kept', lambda s: (s.result[0] != NILK) & (s.result[1] == s.value)),
             ('binary_marker_is_kept', lambda s: implies(s.result[0] == LITERAL, s.result[2] == s.binary))],
    calls={'QuotedString': _quoted, 'LiteralString': _literal, 'Nil': _nil},
    raises_only=(), modifies=[], returns=WS, pure=True,
    note='value given as bytes; the str / SupportsBytes branches convert and then share the same decision')
build_bytes.lift_result = _lift
CONTRACTS = [build_bytes]


# ---------------------------------------------------------------- QuotedString.parse (C18: consumes exactly its own bytes)
# ASSUMED model of re.finditer for the fixed pattern (?:\r|\n|\\.|") -- cross-checked against the re module by
# harness/e2e_spelling.regex_model_check (exhaustive over a small alphabet): the matches are (start, end) pairs in
# increasing, non-overlapping order from `pos`; each is CR, LF or a quote (one byte) or a backslash followed by any byte
# but LF (two bytes); no position between two matches (or before the first / after the last) starts a match.
MATCH = TupleS(INT, INT)
CR, LF, QUOTE, BSL, SPACE = 13, 10, 34, 92, 32


def _starts_match(buf, p):
    c = z3.Select(buf.arr, p)
    return z3.And(p >= 0, p < buf.n, z3.Or(c == CR, c == LF, c == QUOTE,
                                          z3.And(c == BSL, p + 1 < buf.n, z3.Select(buf.arr, p + 1) != LF)))


def _finditer(ex, frame, e, base=None):
    args, kw = ex.eval_args(e, frame)
    buf, pos = args[0], _t(args[1])
    ms = ListS(MATCH).fresh('matches')
    dt = MATCH.z3()
    S = lambda k: dt.accessor(0, 0)(z3.Select(ms.arr, k))
    En = lambda k: dt.accessor(0, 1)(z3.Select(ms.arr, k))
    k, p = z3.Int(fresh_name('mk')), z3.Int(fresh_name('mp'))
    ex.assume(ms.n >= 0)
    ex.assume(z3.ForAll([k], z3.Implies(z3.And(k >= 0, k < ms.n), z3.And(
        _starts_match(buf, S(k)),
        En(k) == S(k) + z3.If(z3.Select(buf.arr, S(k)) == BSL, 2, 1),
        S(k) >= z3.If(k == 0, pos, En(k - 1))))))
    # leftmost: nothing matches in the gaps
    ex.assume(z3.ForAll([k, p], z3.Implies(z3.And(k >= 0, k < ms.n, p >= z3.If(k == 0, pos, En(k - 1)), p < S(k)),
                                           z3.Not(_starts_match(buf, p)))))
    ex.assume(z3.ForAll([p], z3.Implies(z3.And(p >= z3.If(ms.n == 0, pos, En(ms.n - 1)), p < buf.n),
                                        z3.Not(_starts_match(buf, p)))))
    ex.st.ghost['matches'] = ms
    ex.st.ghost['buf0'] = buf
    return ms


def _m_start(ex, frame, e, base=None):
    return ex.eval(e.func.value, frame)[0]


def _m_end(ex, frame, e, base=None):
    return ex.eval(e.func.value, frame)[1]


def _m_group(ex, frame, e, base=None):
    m = ex.eval(e.func.value, frame)
    buf = ex.st.ghost['buf0']
    j = z3.Int(fresh_name('j'))
    lo, hi = _t(m[0]), _t(m[1])
    r = VList(hi - lo, z3.Lambda([j], buf.arr[j + lo]), INT)
    r.is_bytes = True
    return r


def _ws_len(ex, frame, e, base=None):
    """ASSUMED model of Parseable._whitespace_length (regex ' *'): the number of leading spaces"""
    args, kw = ex.eval_args(e, frame)
    buf = args[0]
    n = z3.Int(fresh_name('ws'))
    i = z3.Int(fresh_name('i'))
    ex.assume(z3.And(n >= 0, n <= buf.n, z3.ForAll([i], z3.Implies(z3.And(i >= 0, i < n), z3.Select(buf.arr, i) == SPACE)),
                     z3.Or(n == buf.n, z3.Select(buf.arr, n) != SPACE)))
    ex.st.ghost['start'] = VInt(n)
    return VInt(n)


def _qs_ctor(ex, frame, e, base=None):
    args, kw = ex.eval_args(e, frame)
    return VTuple([args[0], args[1]])


def _consumed(s):
    return s.buf.len - s.result[1].len


from pymap.parsing.exceptions import NotParseable  # noqa: E402


qs_parse = Contract(
    'C18', F, 'QuotedString.parse', params=dict(cls=NoneS(), buf=BYTES, params=NoneS()),
    requires=[('bytes_are_bytes', lambda s: forall(lambda i: implies((i >= 0) & (i < s.buf.len), (s.buf[i] >= 0) & (s.buf[i] <= 255))))],
    ensures=[('the_rest_is_the_unconsumed_suffix', lambda s: forall(lambda i: implies(
        (i >= 0) & (i < s.result[1].len), s.result[1][i] == s.buf[_consumed(s) + i])) & (_consumed(s) >= 2)),
        ('raw_form_is_exactly_the_consumed_bytes', lambda s: (s.result[0][1].len == _consumed(s) - s.ghost('start')) & forall(
            lambda i: implies((i >= 0) & (i < s.result[0][1].len), s.result[0][1][i] == s.buf[s.ghost('start') + i]))),
        ('raw_form_is_delimited_by_quotes', lambda s: (s.result[0][1][0] == QUOTE) & (s.result[0][1][s.result[0][1].len - 1] == QUOTE)),
        ('value_has_no_line_break', lambda s: forall(lambda i: implies((i >= 0) & (i < s.result[0][0].len),
                                                                        (s.result[0][0][i] != CR) & (s.result[0][0][i] != LF))))],
    raises={NotParseable: []}, raises_only=(NotParseable,),
    calls={'cls._whitespace_length': _ws_len, 'cls._quoted_pattern.finditer': _finditer, 'match.start': _m_start,
           'match.end': _m_end, 'match.group': _m_group, 'cls': _qs_ctor},
    loops={0: Loop(invariant=[
        ('value_so_far_has_no_line_break', lambda s: forall(lambda i: implies((i >= 0) & (i < s.unquoted.len),
                                                                              (s.unquoted[i] != CR) & (s.unquoted[i] != LF)))),
        ('marker_follows_the_previous_match', lambda s: s.marker == ite(s.k == 0, s.ghost('start') + 1, s.seq.elem(_t(s.k) - 1)[1])),
    ])},
    modifies=[], pure=False)
CONTRACTS_C18 = [qs_parse]


# ---------------------------------------------------------------- LiteralString: announced length = bytes written
LIT = RecS('LiteralString', pyclass=(F, 'LiteralString'), _string=BYTES, _length=INT, _binary=BOOL, _raw=OptS(INT))
DEC_LEN = z3.Function('decimal_len', z3.IntSort(), z3.IntSort())
DEC_AT = z3.Function('decimal_digit', z3.IntSort(), z3.IntSort(), z3.IntSort())


def _format_model(ex, op, a, b):
    """ASSUMED model of bytes %-formatting for the one format used by LiteralString._prefix, b'%b{%d}\\r\\n' % (p, n):
    p ++ '{' ++ DEC(n) ++ '}' CR LF with DEC an uninterpreted decimal rendering (length >= 1); the number formatted is
    recorded in the ghost `announced`."""
    import ast as _ast
    if not (isinstance(op, _ast.Mod) and isinstance(a, VList) and getattr(a, 'frozen', False) and isinstance(b, VTuple)):
        return None
    fmt = bytes(z3.simplify(z3.Select(a.arr, i)).as_long() for i in range(z3.simplify(a.n).as_long()))
    if fmt != b'%b{%d}\r\n':
        raise Unsupported(f'bytes formatting {fmt!r}')
    pfx, n = b.items[0], _t(b.items[1])
    ex.st.ghost['announced'] = VInt(n)
    j = z3.Int(fresh_name('j'))
    dl = DEC_LEN(n)
    ex.assume(dl >= 1)
    p = pfx.n
    arr = z3.Lambda([j], z3.If(j < p, z3.Select(pfx.arr, j),
                               z3.If(j == p, 123,
                                     z3.If(j < p + 1 + dl, DEC_AT(n, j - p - 1),
                                           z3.If(j == p + 1 + dl, 125, z3.If(j == p + 2 + dl, 13, 10))))))
    r = VList(p + dl + 4, arr, INT)
    r.is_bytes = True
    ex.st.ghost['prefix_len'] = VInt(p + dl + 4)
    return r


def _writer_write(ex, frame, e, base=None):
    args, kw = ex.eval_args(e, frame)
    out = ex.st.ghost['out']
    data = args[0]
    j = z3.Int(fresh_name('j'))
    ex.st.ghost['out'] = VList(out.n + data.n, z3.Lambda([j], z3.If(j < out.n, z3.Select(out.arr, j),
                                                                       z3.Select(data.arr, j - out.n))), INT)
    return VNone()


def _lit_ghost(st, scope=None):
    st.ghost['out'] = VList(0, z3.K(z3.IntSort(), z3.IntVal(0)), INT)
    st.ghost['announced'] = VInt(-1)
    st.ghost['prefix_len'] = VInt(0)


lit_init = Contract(
    'C07', F, 'LiteralString.__init__', variant='bytes', params=dict(self=LIT, string=BYTES, binary=BOOL),
    ensures=[('remembers_the_length_of_what_it_will_write', lambda s: (s.self._length == s.string.len) & (s.self._string == s.string)),
             ('keeps_the_binary_marker', lambda s: s.self._binary == s.binary)],
    calls={'super().__init__': lambda ex, frame, e: VNone()}, raises_only=(), modifies=['self'])

lit_write = Contract(
    'C07', F, 'LiteralString.write', variant='bytes', params=dict(self=LIT, writer=NoneS()),
    requires=[('as_constructed', lambda s: s.self._length == s.self._string.len)],
    ensures=[('announces_exactly_the_number_of_bytes_that_follow',
              lambda s: (s.ghost('announced') == s.ghost('out').len - s.ghost('prefix_len')) & (s.ghost('announced') >= 0)),
             ('the_bytes_that_follow_are_the_string',
              lambda s: forall(lambda i: implies((i >= 0) & (i < s.self._string.len),
                                                 s.ghost('out')[s.ghost('prefix_len') + i] == s.self._string[i]))),
             ('the_prefix_ends_with_CRLF', lambda s: (s.ghost('out')[s.ghost('prefix_len') - 2] == 13) &
              (s.ghost('out')[s.ghost('prefix_len') - 1] == 10) & (s.ghost('out')[s.ghost('prefix_len') - 3] == 125)),
             ('binary_literals_are_marked', lambda s: s.self._binary == (s.ghost('out')[0] == 126))],
    calls={'writer.write': _writer_write}, ghost_init=_lit_ghost, raises_only=(), modifies=[])
lit_write.binop_model = _format_model
CONTRACTS = [build_bytes, lit_init, lit_write]


# ---------------------------------------------------------------- LiteralString.parse (C18: {n} and {n+} mean the same)
# ASSUMED model of re.match for the fixed pattern (~?){(\d+)(\+?)}\r?\n at `start`: when it matches, group 1 is b'~' or
# b'', group 2 is a digit string whose int() value is the ghost number m.n >= 0, group 3 is b'+' or b'', and end(0) is
# a position with start + 4 <= end <= len(buf) whose last byte is LF.  Cross-checked against re by the bounded run.
ParamsS = RefS('Params', allow_continuations=BOOL)


def _lit_match(ex, frame, e, base=None):
    args, kw = ex.eval_args(e, frame)
    buf, start = args[0], _t(args[1])
    if not ex.decide(VBool(z3.Bool(fresh_name('literal_header_matches')))):
        return VNone()
    end = z3.Int(fresh_name('m.end'))
    n = z3.Int(fresh_name('m.n'))
    ex.assume(z3.And(end >= start + 4, end <= buf.n, n >= 0, z3.Select(buf.arr, end - 1) == LF))
    ex.st.ghost['m.end'] = VInt(end)
    ex.st.ghost['m.n'] = VInt(n)
    ex.st.ghost['m.bin'] = VBool(z3.Bool(fresh_name('m.bin')))
    ex.st.ghost['m.plus'] = VBool(z3.Bool(fresh_name('m.plus')))
    ex.st.ghost['matched'] = VBool(True)
    return VConst('literal-match')


def _lit_group(ex, frame, e, base=None):
    args, kw = ex.eval_args(e, frame)
    g = z3.simplify(_t(args[0])).as_long()
    if g in (1, 2, 3):
        return VConst(f'group{g}')
    raise Unsupported('group')


def _lit_end(ex, frame, e, base=None):
    return ex.st.ghost['m.end']


def _lit_equal_hook(ex, a, b):
    """match.group(1) == b'~' and match.group(3) == b'+' (the groups are opaque markers)"""
    if isinstance(a, VConst):
        if a.py == 'group1':
            return ex.st.ghost['m.bin']
        if a.py == 'group3':
            return ex.st.ghost['m.plus']
    return None


def _int_of_group(ex, frame, e, base=None):
    return ex.st.ghost['m.n']


def _expect(ex, frame, e, base=None):
    """ExpectContinuation.expect(state): the continuation data the client sent after '+ ' (any bytes), or
    ParsingInterrupt when none is buffered yet (the connection then asks for it and parses the line again)"""
    from pymap.parsing.state import ParsingInterrupt
    if ex.decide(VBool(z3.Bool(fresh_name('continuation_buffered')))):
        cont = BYTES.fresh('continuation')
        ex.assume(cont.n >= 0)
        ex.st.ghost['cont'] = cont
        ex.st.ghost['used_cont'] = VBool(True)
        return cont
    raise PyRaise(ParsingInterrupt)


def _lit_ctor(ex, frame, e, base=None):
    args, kw = ex.eval_args(e, frame)
    return VTuple([args[0], args[1]])


def _lp_ghost(st, scope=None):
    st.ghost['matched'] = VBool(False)
    st.ghost['used_cont'] = VBool(False)
    st.ghost['cont'] = VList(0, z3.K(z3.IntSort(), z3.IntVal(0)), INT)
    for k in ('m.end', 'm.n'):
        st.ghost[k] = VInt(0)
    for k in ('m.bin', 'm.plus'):
        st.ghost[k] = VBool(False)


def _src(s):
    """the buffer the literal bytes come from and the offset where they start"""
    return s


from pymap.parsing.state import ParsingInterrupt  # noqa: E402

lit_parse = Contract(
    'C18', F, 'LiteralString.parse', params=dict(cls=NoneS(), buf=BYTES, params=ParamsS),
    requires=[('bytes_are_bytes', lambda s: forall(lambda i: implies((i >= 0) & (i < s.buf.len), (s.buf[i] >= 0) & (s.buf[i] <= 255))))],
    ensures=[
        ('the_value_has_the_announced_length', lambda s: s.result[0][0].len == s.ghost('m.n')),
        ('non_synchronizing_form_takes_the_n_bytes_after_the_header', lambda s: implies(
            s.ghost('m.plus'), forall(lambda i: implies((i >= 0) & (i < s.ghost('m.n')),
                                                        s.result[0][0][i] == s.buf[s.ghost('m.end') + i])) &
            (s.result[1].len == s.buf.len - s.ghost('m.end') - s.ghost('m.n')) &
            forall(lambda i: implies((i >= 0) & (i < s.result[1].len),
                                     s.result[1][i] == s.buf[s.ghost('m.end') + s.ghost('m.n') + i])))),
        ('synchronizing_form_takes_the_first_n_bytes_of_the_continuation', lambda s: implies(
            ~s.ghost('m.plus'), s.ghost('used_cont') & forall(lambda i: implies(
                (i >= 0) & (i < s.ghost('m.n')), s.result[0][0][i] == s.ghost('cont')[i])) &
            (s.result[1].len == s.ghost('cont').len - s.ghost('m.n')) &
            forall(lambda i: implies((i >= 0) & (i < s.result[1].len), s.result[1][i] == s.ghost('cont')[s.ghost('m.n') + i])))),
        ('binary_marker_is_the_tilde', lambda s: s.result[0][1] == s.ghost('m.bin')),
        ('synchronizing_form_has_nothing_after_the_header_on_its_line', lambda s: implies(~s.ghost('m.plus'),
                                                                                          s.ghost('m.end') == s.buf.len))],
    raises={NotParseable: [], ParsingInterrupt: [('only_when_the_continuation_is_still_missing', lambda s: s.ghost('matched') & ~s.ghost('m.plus'))]},
    raises_only=(NotParseable, ParsingInterrupt),
    calls={'cls._whitespace_length': _ws_len, 'cls._literal_pattern.match': _lit_match, 'match.group': _lit_group,
           'match.end': _lit_end, 'int': _int_of_group, 'cls._check_too_big': lambda ex, frame, e, base=None: VBool(z3.Bool(fresh_name('too_big'))),
           'ExpectContinuation': lambda ex, frame, e, base=None: VConst('expectation'), 'expected.expect': _expect,
           'cls': _lit_ctor},
    ghost_init=_lp_ghost, modifies=[])
lit_parse.equal_model = _lit_equal_hook


def _qs_lift(result, lifter):
    obj, rest = result
    return VTuple([VTuple([lifter.lift(BYTES, list(obj.value)), lifter.lift(BYTES, list(bytes(obj)))]),
                   lifter.lift(BYTES, list(bytes(rest)))])


def _qs_ghost(st, lifter, data):
    buf = bytes(data['buf'])
    st.ghost['start'] = VInt(len(buf) - len(buf.lstrip(b' ')))


def _qs_candidates():
    import itertools
    for n in range(0, 6):
        for t in itertools.product((34, 32, 97, 92, 13), repeat=n):
            yield dict(cls=None, buf=list(t), params=None)


qs_parse.lift_result = _qs_lift
qs_parse.concrete_ghost = _qs_ghost
qs_parse.replay_candidates = _qs_candidates
CONTRACTS_C18 = [qs_parse, lit_parse]
