"""Concrete side of the dict-backend contracts: factories that turn plain data into REAL pymap objects,
abstracters that read them back, and the bounded scenario enumeration (scc) that runs the real
MailboxData coroutines on every reachable state of a small scope and evaluates the same contract clauses
the verifier proves.  Bounded -- never counted as proved."""
from __future__ import annotations

import asyncio
import itertools
from datetime import datetime

from pyvc.values import *
from pyvc.bridge import Ctx, build, abstract, run_concrete, Lifter
from pyvc.prop import BoundedResult
from . import dictmbx as D
from .modseq import ModSeq

from pymap.backend.dict.mailbox import Message, MailboxData, _ContentCache, _ThreadCache
from pymap.concurrent import Event as PEvent, ReadWriteLock
from pymap.flags import FlagOp
from pymap.mime import MessageContent
from pymap.parsing.message import AppendMessage
from pymap.parsing.specials.flag import Flag as PFlag, Seen, Deleted, Recent, Wildcard, Flagged
from pymap.parsing.specials import ObjectId

_FLAGS = {'Flag.Seen': Seen, 'Flag.Deleted': Deleted, 'Flag.Recent': Recent, 'Flag.Wildcard': Wildcard,
          'Flag.Flagged': Flagged, 'Flag.kw': PFlag(b'$kw')}
_FLAG_NAMES = {v: k for k, v in _FLAGS.items()}
_OPS = {'FlagOp.ADD': FlagOp.ADD, 'FlagOp.DELETE': FlagOp.DELETE, 'FlagOp.REPLACE': FlagOp.REPLACE}
_CONTENT = {}


def content_for(name):
    if name not in _CONTENT:
        _CONTENT[name] = MessageContent.parse(b'Subject: ' + name.encode() + b'\n\nbody\n')
    return _CONTENT[name]


def f_flag(name, attrs, ctx):
    if name not in _FLAGS:
        _FLAGS[name] = PFlag(b'$x' + str(len(_FLAGS)).encode())
        _FLAG_NAMES[_FLAGS[name]] = name
    return _FLAGS[name]


def f_msg(name, attrs, ctx):
    m = Message(attrs.get('uid', 0), datetime(2020, 1, 1), attrs.get('permanent_flags', frozenset()),
                expunged=attrs.get('expunged', False), recent=attrs.get('recent', False),
                content=attrs.get('content'))
    return m


def f_append(name, attrs, ctx):
    return AppendMessage(b'Subject: x\n\nhello\n', attrs.get('when'), frozenset(attrs.get('flag_set', ())))


FACTORIES = {
    'Flag': f_flag,
    'Msg': f_msg,
    'Content': lambda name, attrs, ctx: content_for(name),
    'Date': lambda name, attrs, ctx: datetime(2021, 1, 1),
    'Oid': lambda name, attrs, ctx: ObjectId(None),
    'FlagOp': lambda name, attrs, ctx: _OPS[name],
    'AppendMsg': f_append,
    # Msg.flags_key = (uid, frozenset) is declared by contracts/selected.py when that module is loaded too (C01/C02 link)
    'FSet': lambda name, attrs, ctx: frozenset(),
}


def a_msg(obj, attr):
    if attr == 'content':
        return obj._content
    return getattr(obj, attr)


ABSTRACTERS = {'Msg': a_msg}

D.Event.factory = lambda data, ctx: PEvent.for_asyncio()
D.Event.abstracter = lambda obj, ctx: {}
D.Lock.factory = lambda data, ctx: ReadWriteLock.for_asyncio()
D.Lock.abstracter = lambda obj, ctx: {}
D.Cache.factory = lambda data, ctx: _ContentCache() if data.get('kind') != 't' else _ThreadCache()
D.Cache.abstracter = lambda obj, ctx: {'kind': 't' if isinstance(obj, _ThreadCache) else 'c'}
SetS_frozen = SetS(D.Flag)
SetS_frozen.frozen = True
D.Msg.attrs['permanent_flags'] = SetS_frozen
D.AppendMsg.attrs['flag_set'] = SetS_frozen


def _name_flags(ctx):
    for n, f in _FLAGS.items():
        ctx.refs[n] = f
        ctx.names[id(f)] = n
    for n, o in _OPS.items():
        ctx.refs[n] = o
        ctx.names[id(o)] = n


def concrete_ghost(st, lifter, data_by_param):
    """alloc.Msg := every message object mentioned in the state"""
    s = SetS(D.Msg).empty()
    for (sort, name), c in lifter.ref_consts.items():
        if sort == 'Msg':
            s = s.add(VRef(c, D.Msg))
    st.ghost['alloc.Msg'] = s


# ---------------------------------------------------------------- scenarios

def new_mailbox():
    return MailboxData(_ContentCache(), _ThreadCache())


async def _apply(mbx, op):
    k = op[0]
    if k == 'append':
        return await mbx.append(AppendMessage(b'Subject: a\n\nx\n', None, frozenset(op[1])), recent=op[2])
    if k == 'delete':
        return await mbx.delete(list(op[1]))
    if k == 'update':
        cached = mbx._messages.get(op[1]) or Message(op[1], datetime(2020, 1, 1), frozenset())
        return await mbx.update(op[1], cached, frozenset(op[2]), op[3])
    if k == 'copy':
        return await mbx.copy(op[1], mbx)
    if k == 'move':
        return await mbx.move(op[1], mbx)
    raise ValueError(op)


def prefix_ops(tier):
    ops = [('append', (), False), ('append', (Seen,), True), ('delete', (101,)), ('delete', (101, 102)),
           ('update', 101, (Deleted,), FlagOp.ADD), ('copy', 101), ('move', 101)]
    if tier == 'thorough':
        ops += [('update', 102, (Seen,), FlagOp.REPLACE), ('delete', (102,)), ('move', 102)]
    return ops


def reachable_states(tier, maxlen):
    """real MailboxData objects reached by every op sequence of length <= maxlen (as factories, since a
    state must be rebuilt for every final operation)"""
    ops = prefix_ops(tier)
    for n in range(maxlen + 1):
        for seq in itertools.product(ops, repeat=n):
            yield seq


def build_state(seq):
    mbx = new_mailbox()

    async def go():
        for op in seq:
            try:
                await _apply(mbx, op)
            except (IndexError, TypeError, KeyError):
                pass
    asyncio.run(go())
    return mbx


def final_calls(contract_name, mbx_data, ctx_names):
    """concrete argument sets for the function of `contract_name` (uids 100..103, both flag ops)"""
    uids = [101, 102, 103]
    cm = lambda u: {'@ref': f'Msg!cached{u}', 'uid': u, 'recent': False, 'permanent_flags': [],
                    'expunged': False}
    if contract_name.endswith('.append'):
        for fl in ([], ['Flag.Seen']):
            for r in (False, True):
                yield dict(append_msg={'@ref': 'AppendMsg!a', 'when': None, 'flag_set': fl}, recent=r)
    elif contract_name.endswith('.delete'):
        for us in ([], [101], [102, 101], [103]):
            yield dict(uids=us)
    elif contract_name.endswith('.update'):
        for u in uids:
            for op in _OPS:
                yield dict(uid=u, cached_msg=cm(u), flag_set=['Flag.Deleted'], mode=op)
    elif contract_name.endswith('.copy') or contract_name.endswith('.move'):
        for u in uids:
            for r in (False, True):
                yield dict(uid=u, recent=r, destination='@self')
                yield dict(uid=u, recent=r, destination='@other')
    elif contract_name.endswith('.claim_recent') or contract_name.endswith('.snapshot'):
        yield dict()


def bounded_mailbox(contracts, scope_note=''):
    """BoundedResult factory for a list of MailboxData contracts"""
    def fn(tier, seed):
        res = BoundedResult()
        maxlen = 2 if tier == 'quick' else 3
        import multiprocessing as mp
        seqs = list(reachable_states(tier, maxlen))
        _W['contracts'] = contracts
        with mp.get_context('fork').Pool(16) as pool:
            for ev, distinct, failures, sample in pool.imap_unordered(_bounded_worker, seqs, chunksize=4):
                res.evaluations += ev
                res.distinct |= distinct
                for f in failures:
                    res.fail(*f)
                if sample and len(res.samples) < 3:
                    res.samples.append(sample)
        return res
    return fn


_W = {}


def _bounded_worker(seq):
    ev = 0
    distinct = set()
    failures = []
    sample = None
    for c in _W['contracts']:
        mbx = build_state(seq)
        ctx = Ctx(FACTORIES, ABSTRACTERS)
        _name_flags(ctx)
        base = abstract(D.MBX, mbx, ctx)
        for call in final_calls(c.qualname, base, ctx):
            data = {'self': base}
            for k, v in call.items():
                if v == '@self':
                    data[k] = base
                elif v == '@other':
                    data[k] = abstract(D.MBX, new_mailbox(), Ctx(FACTORIES, ABSTRACTERS))
                else:
                    data[k] = v
            same = call.get('destination') == '@self'
            try:
                cr = run_concrete_dict(c, data, alias_self_dest=same)
            except Exception as exc:    # noqa
                failures.append((f'{c.name}/bounded-harness-error', repr((seq_repr(seq), call)), repr(exc)))
                continue
            if cr.pre_ok is False:
                continue
            ev += 1
            distinct.add((c.qualname, repr(cr.outcome), repr(sorted(cr.post['self']['_messages']))
                          if cr.post else ''))
            for lab in cr.failed:
                failures.append((lab, dict(prefix=seq_repr(seq), call=repr(call)),
                                 dict(outcome=repr(cr.outcome))))
            if sample is None:
                sample = dict(function=c.qualname, prefix=seq_repr(seq), call=repr(call),
                              outcome=repr(cr.outcome), clauses_checked=cr.checked)
    return ev, distinct, failures, sample


def seq_repr(seq):
    return [repr(op) for op in seq]


def run_concrete_dict(contract, data, alias_self_dest=False):
    """run_concrete with the dict factories; `destination` may be the same object as `self`"""
    from pyvc import bridge
    if alias_self_dest:
        # build once and share: the bridge builds each parameter separately, so patch the sort factory
        shared = {}
        orig = getattr(D.MBX, 'factory', None)

        def fac(d, ctx):
            if 'obj' not in shared:
                D.MBX.factory = None
                try:
                    shared['obj'] = build(D.MBX, d, ctx)
                finally:
                    D.MBX.factory = fac
            return shared['obj']
        D.MBX.factory = fac
        try:
            return bridge.run_concrete(contract, data, FACTORIES, ABSTRACTERS, preset=_name_flags,
                                       concrete_ghost=concrete_ghost)
        finally:
            D.MBX.factory = orig
    return bridge.run_concrete(contract, data, FACTORIES, ABSTRACTERS, preset=_name_flags,
                               concrete_ghost=concrete_ghost)
