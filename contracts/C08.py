"""C08 -- mailbox names cannot reach outside the user's own mail store.

Deductive: _BaseLayout._split (the only producer of name parts) returns only parts that are safe path components
(not '', '.', '..', no NUL, no path separator), the empty list only for INBOX, or raises FileNotFoundError; structural:
every path construction in layout.py consumes parts that come from _split in the same function (or a slice of them).
Assumed path lemma: root joined with safe components (fs layout), or with the single component '.' + 'p1.p2...pn' (++
layout, never '.' or '..' because p1 is non-empty), normalises strictly inside root.
Bounded (decisive for the statement): real MaildirBackend, both layouts, two users: for hostile names in 15 commands every
filesystem path the process touches (sys.audit hook) lies strictly inside the user's directory, the directory itself is
never removed/renamed, the tree outside is byte-identical, another user's marker message never appears; dict backend:
what another user observes is unchanged.
"""
import ast

from pyvc.engine import load_module_ast, Unsupported
from pyvc.prop import Property, Bounded, Structural
from . import paths as P
from harness.e2e_paths import bounded_paths, bounded_isolation_dict


def parts_come_from_split():
    src, tree = load_module_ast(P.F)
    out = []
    for cls in ast.walk(tree):
        if not (isinstance(cls, ast.ClassDef) and cls.name == '_BaseLayout'):
            continue
        for fn in cls.body:
            if not isinstance(fn, ast.FunctionDef) or fn.name.startswith('_'):
                continue
            from_split = set()
            for n in ast.walk(fn):
                if isinstance(n, ast.Assign) and isinstance(n.value, ast.Call) and isinstance(n.value.func, ast.Attribute) \
                        and n.value.func.attr == '_split':
                    from_split |= {t.id for t in n.targets if isinstance(t, ast.Name)}
                if isinstance(n, ast.Assign) and isinstance(n.value, ast.Subscript) and isinstance(n.value.value, ast.Name) \
                        and n.value.value.id in from_split:
                    from_split |= {t.id for t in n.targets if isinstance(t, ast.Name)}
            for n in ast.walk(fn):
                if isinstance(n, ast.Call) and isinstance(n.func, ast.Attribute) and n.func.attr in (
                        '_get_path', '_rename_folder', '_list_folders', '_can_remove'):
                    for a in n.args:
                        root = a.value if isinstance(a, ast.Subscript) else a
                        ok = isinstance(root, ast.Name) and root.id in from_split
                        out.append((f'pymap.backend.maildir.layout._BaseLayout.{fn.name}/{n.func.attr}_consumes_parts_from_split',
                                    ok, f'{fn.name}: {ast.unparse(n)} is not fed by _split'))
    if not out:
        raise Unsupported('no path constructions found')
    return out


PROPERTY = Property(
    'C08', 'Mailbox names cannot reach outside the user\'s own mail store',
    contracts=P.CONTRACTS,
    structural=[Structural('parts_come_from_split', parts_come_from_split)],
    bounded=[Bounded('audited filesystem paths for hostile names (real MaildirBackend, layouts ++ and fs, two users)',
                     'names: every 1- and 2-part (thorough: 3-part) combination over {a, "", ., .., NUL, x<LF>y, e-acute, *, :, new, cur, '
                     'bob, ..., .a, a.b, ~} joined by "/", plus 16 targeted names (../bob, ../bob/cur, /, //, /etc, ./, a/../../bob, '
                     '../pymap-etc-passwd, INBOX/.., 300 characters); commands CREATE SELECT EXAMINE STATUS APPEND SUBSCRIBE UNSUBSCRIBE '
                     'COPY MOVE RENAME (as source and target) DELETE LIST (as reference and pattern) LSUB',
                     bounded_paths('C08'), decisive=True),
             Bounded('the same names and commands on the dict backend with a second user', 'what the other user observes (LIST, '
                     'LSUB, STATUS of its mailboxes) before and after; its marker message never appears',
                     bounded_isolation_dict('C08'), decisive=True)],
    level='other', design_ref='6 C08',
    explanation='deductive: name parts that reach path construction are safe components (z3) and only _split feeds path '
                'construction (structural); the statement itself (paths actually touched) is decided by the audited bounded run',
    trusted_base=['path lemma: safe components normalise inside the root (os.path semantics; cross-checked by the bounded run)',
                  'sys.audit reports every filesystem access of the interpreter (C extensions that bypass it are not seen)',
                  'strings are opaque in the contract (part predicates are uninterpreted)'],
)
