"""C04 -- UIDs strictly increasing, never reused, truthfully reported.

Deductive kernel (dict backend):
  UidInv     forall u in _messages: u <= _max_uid                      (yield-point invariant)
  G/rely     per atomic segment: _max_uid never decreases; every key that appears is > the _max_uid at
             the start of the segment
  => a key inserted at any time exceeds every key that existed at any earlier yield point, for every
     interleaving of any number of tasks (yield-point argument, DESIGN.md 2.5).
  append/copy/move: the returned uid is the inserted key == new _max_uid
  snapshot: next_uid == _max_uid + 1 (given that lock acquisition does not suspend: NoYieldUnderLock,
            structural obligation), and next_uid <= _max_uid + 1 even if it does.
  BaseSession.append_messages/copy_messages/move_messages: the uid lists handed to AppendUid/CopyUid are
            the backend's return values in loop order (loop invariant).
            CopyUid gets the pairs (source uid, returned uid) with both columns strictly increasing (given that
            get_uids addresses uids in increasing order -- its contract is part of this check -- and that successive
            results of copy/move increase -- the kernel above), so its independent sorting keeps the pairs together.
  maildir:  contracts/maildir.py (UID list discipline) and contracts/mdio.py (UidList.with_write really is the
            exclusive lock of the list's lock file, held from before the read until after the write).
  SequenceSet.build / the bytes of the response codes: bounded (harness/e2e_uids.py, real server, both backends).
"""
import ast

import z3

from pyvc.values import *
from pyvc.engine import Contract, Atomic, Loop, find_function, load_module_ast, Unsupported, SeqView
from pyvc.prop import Property, Structural, Bounded, BoundedResult
from . import dictmbx as D
from .dictmbx import MBX, Msg, F, lock_ctx, LockCtx
from .modseq import ModSeq
from . import maildir as MD        # the maildir half: UID list discipline of append/copy/move/reset (shared with C15)
from . import mdio as IO           # ... and the lock discipline of UidList.with_write that MD's model relies on
from . import session as SES, selected as SELM     # reporting: what AppendUid / CopyUid are built from
from harness.e2e_uids import bounded_uids, bounded_uidvalidity
from harness.e2e_race import bounded_race

_ms_mod = ['self._highest', 'self._uids', 'self._updates', 'self._expunges', 'self._mod_seqs_order', 'self.g_pos']
weak_update = Contract('C04', F, '_ModSequenceMapping.update', params=dict(self=ModSeq, uids=ListS(INT)),
                       modifies=_ms_mod, returns=NoneS(), note='weak view: C04 needs no property of the log')
weak_expunge = Contract('C04', F, '_ModSequenceMapping.expunge', params=dict(self=ModSeq, uids=ListS(INT)),
                        modifies=_ms_mod, returns=NoneS())
REG = dict(D.BASE_REGISTRY)
REG[('ModSeq', 'update')] = weak_update
REG[('ModSeq', 'expunge')] = weak_expunge
for _k, _v in list(SES.REG.items()) + list(SELM.REG.items()) + list(IO.REG.items()):
    REG.setdefault(_k, _v)
_reporting = SES.make('C04') + [SELM.get_uids]


def uid_inv(m):
    return forall(lambda u: implies(m._messages.has(u), u <= m._max_uid))


def grows(new, old):
    return (new._max_uid >= old._max_uid) & forall(
        lambda u: implies(new._messages.has(u) & ~old._messages.has(u), u > old._max_uid))


def atomic(shared):
    inv = [(f'UidInv.{p}', (lambda s, p=p: uid_inv(getattr(s, p)))) for p in shared]
    g = [(f'uids_grow.{p}', (lambda s, p=p: grows(getattr(s, p), getattr(s.seg, p)))) for p in shared]
    return Atomic(shared=shared, invariant=inv, guarantee=g, rely=g)


def fresh_uid_post(mbx):
    def cl(s):
        m, seg = getattr(s, mbx), getattr(s.seg, mbx)
        return when_some(s.result, lambda r: m._messages.has(r) & ~seg._messages.has(r) &
                         (r > seg._max_uid) & (r == m._max_uid))
    return cl


copy = Contract('C04', F, 'MailboxData.copy',
                params=dict(self=MBX, uid=INT, destination=MBX, recent=BOOL),
                alias=[('self', 'destination')], calls=D.BASE_CALLS, atomic=atomic(['self', 'destination']),
                ensures=[('returned_uid_is_fresh_max', fresh_uid_post('destination'))],
                raises_only=())

move = Contract('C04', F, 'MailboxData.move',
                params=dict(self=MBX, uid=INT, destination=MBX, recent=BOOL),
                alias=[('self', 'destination')], calls=D.BASE_CALLS, atomic=atomic(['self', 'destination']),
                ensures=[('returned_uid_is_fresh_max', fresh_uid_post('destination'))],
                raises_only=())


def _append_post(s):
    m, seg = s.self, s.seg.self
    r = s.wrap(s.result)
    return m._messages.has(r.uid) & ~seg._messages.has(r.uid) & (r.uid > seg._max_uid) & \
        (r.uid == m._max_uid) & (m._messages[r.uid] == r)


append = Contract('C04', F, 'MailboxData.append', globals=D.GLOBALS,
                  params=dict(self=MBX, append_msg=D.AppendMsg, recent=BOOL),
                  calls=D.BASE_CALLS, atomic=atomic(['self']),
                  ensures=[('returned_msg_has_fresh_max_uid', _append_post)],
                  raises_only=(), returns=Msg)

delete = Contract('C04', F, 'MailboxData.delete',
                  params=dict(self=MBX, uids=ListS(INT)),
                  calls=D.BASE_CALLS, atomic=atomic(['self']),
                  loops={0: Loop(invariant=[
                      ('max_fixed', lambda s: s.self._max_uid == s.pre.self._max_uid),
                      ('only_removes', lambda s: forall(lambda u: implies(s.self._messages.has(u),
                                                                          s.pre.self._messages.has(u))))])},
                  raises_only=())


def messages_gen(yield_at_acquire=True):
    """model of `async for msg in self.messages()`: the generator takes the read lock (a yield point in
    the conservative model) and yields the dict's values in arbitrary order"""
    def model(ex, frame, e):
        base = ex.eval(e.func.value, frame)
        if yield_at_acquire:
            ex.yield_point('messages.acquire', frame)
        msgs = ex.st.store[base.rid]['_messages']
        sv = ex.enum_set(msgs.keys())
        r = SeqView(sv.n, lambda k, sv=sv, msgs=msgs: msgs.at(sv.elem(k)), msgs.vs, sv.facts)
        r.keys_enum = sv
        return r
    return model


def snapshot_ctor(ex, frame, e):
    """MailboxSnapshot(...): only the last positional argument (next_uid) is tracked"""
    return VTuple([ex.eval(e.args[-1], frame)])


_snap_calls = dict(D.BASE_CALLS)
_snap_calls['self.messages'] = messages_gen(True)
_snap_calls['MailboxSnapshot'] = snapshot_ctor
_snap_loop = Loop(invariant=[('next_uid_fixed', lambda s: s.next_uid == s.pre.next_uid),
                             ('state_fixed', lambda s: (s.self._max_uid == s.pre.self._max_uid) &
                              (s.self._messages == s.pre.self._messages))])

snapshot_weak = Contract('C04', F, 'MailboxData.snapshot', params=dict(self=MBX),
                         calls=_snap_calls, atomic=atomic(['self']), loops={0: _snap_loop},
                         ensures=[('uidnext_never_overreports',
                                   lambda s: s.result[0] <= s.self._max_uid + 1)],
                         globals=D.GLOBALS, raises_only=(),
                         variant='acquire-may-suspend',
                         note='conservative model: acquiring the read lock may suspend')

_snap_calls2 = dict(_snap_calls)
_snap_calls2['self.messages'] = messages_gen(False)
snapshot_exact = Contract('C04', F, 'MailboxData.snapshot', params=dict(self=MBX),
                          calls=_snap_calls2, atomic=atomic(['self']), loops={0: _snap_loop},
                          ensures=[('uidnext_exact', lambda s: (s.result[0] == s.self._max_uid + 1) &
                                    forall(lambda u: implies(s.self._messages.has(u), u < s.result[0])))],
                          globals=D.GLOBALS, raises_only=(),
                          variant='acquire-never-suspends',
                          note='lock acquisition does not suspend (NoYieldUnderLock, structural obligation)')


# ---- structural: NoYieldUnderLock + complete mutator coverage

def no_yield_under_lock():
    """every `async with ...read_lock()/write_lock()` body in dict/mailbox.py, and every consumer loop of
    the messages() generator (which yields while holding the read lock), is free of awaits / async-for /
    async-with -- hence no lock of the dict backend is held at a yield point and no acquisition suspends"""
    src, tree = load_module_ast(F)
    out = []
    n = 0
    for fn in ast.walk(tree):
        if not isinstance(fn, ast.AsyncFunctionDef):
            continue
        for node in ast.walk(fn):
            bodies = []
            if isinstance(node, ast.AsyncWith) and any(
                    isinstance(i.context_expr, ast.Call) and isinstance(i.context_expr.func, ast.Attribute)
                    and i.context_expr.func.attr in ('read_lock', 'write_lock') for i in node.items):
                bodies.append(('lock body', node.body))
            if isinstance(node, ast.AsyncFor) and isinstance(node.iter, ast.Call) and \
                    isinstance(node.iter.func, ast.Attribute) and node.iter.func.attr == 'messages':
                bodies.append(('messages() consumer', node.body))
            for kind, body in bodies:
                n += 1
                bad = [type(x).__name__ for st in body for x in ast.walk(st)
                       if isinstance(x, (ast.Await, ast.AsyncFor, ast.AsyncWith))]
                out.append((f'pymap.backend.dict.mailbox.{fn.name}/NoYieldUnderLock/{kind}@{n}', not bad,
                            f'{kind} in {fn.name} (line {node.lineno}) contains {bad}'))
    if n == 0:
        raise Unsupported('no lock bodies found (contract detached)')
    return out


MUTATOR_FUNCS = {'__init__', 'append', 'copy', 'move', 'delete'}


def mutators_covered():
    """the functions of dict/mailbox.py that write `_max_uid` or insert into / delete from a `_messages`
    dict are exactly the ones under contract (a new writer must get a contract before rely is sound)"""
    src, tree = load_module_ast(F)
    writers = set()
    for cls in ast.walk(tree):
        if isinstance(cls, ast.ClassDef) and cls.name == 'MailboxData':
            for fn in cls.body:
                if not isinstance(fn, (ast.FunctionDef, ast.AsyncFunctionDef)):
                    continue
                for n in ast.walk(fn):
                    tgt = None
                    if isinstance(n, ast.Attribute) and isinstance(n.ctx, (ast.Store, ast.Del)) and \
                            n.attr in ('_max_uid', '_messages'):
                        tgt = n.attr
                    if isinstance(n, ast.Subscript) and isinstance(n.ctx, (ast.Store, ast.Del)) and \
                            isinstance(n.value, ast.Attribute) and n.value.attr == '_messages':
                        tgt = '_messages[]'
                    if isinstance(n, ast.Call) and isinstance(n.func, ast.Attribute) and \
                            isinstance(n.func.value, ast.Attribute) and n.func.value.attr == '_messages' and \
                            n.func.attr in ('pop', 'popitem', 'clear', 'update', 'setdefault', '__setitem__',
                                            '__delitem__'):
                        tgt = '_messages.' + n.func.attr
                    if tgt:
                        writers.add(fn.name)
    extra = writers - MUTATOR_FUNCS
    return [('pymap.backend.dict.mailbox.MailboxData/writers_of_uid_state_under_contract', not extra,
             f'functions writing _max_uid/_messages without a contract: {sorted(extra)}')]


# ---- MailboxSnapshot.new_uid_validity: a UIDVALIDITY is never issued twice (by one process)
#
# A mailbox that is created again under a name it had before (DELETE + CREATE, RENAME INBOX, RENAME onto a freed name)
# starts its UIDs afresh; "(UIDVALIDITY, UID) never denotes two different messages" then rests on the new mailbox getting a
# UIDVALIDITY the name never had.  time.time() and random.randint are arbitrary here: the postcondition must hold whatever
# they return.
SnapCls = RecS('MailboxSnapshotClass', _last_uid_validity=INT)


def _nuv_ghost(st, sc):
    new_uid_validity.globals['MailboxSnapshot'] = sc._names['cls']


def _nuv_binop(ex, op, a, b):
    if isinstance(a, VInt) and isinstance(b, VInt):
        if isinstance(op, ast.Mod):
            ex.oblige(f'{ex.c.name}/modulus_positive', b.t > 0)
            return VInt(a.t % b.t)
        if isinstance(op, ast.LShift):
            k = z3.simplify(b.t)
            if z3.is_int_value(k) and 0 <= k.as_long() < 64:
                return VInt(a.t * (2 ** k.as_long()))
    return None


def _nuv_time(ex, frame, e, base=None):
    t = INT.fresh('now')                 # int(time.time()): any non-negative number
    ex.assume(t.t >= 0)
    return t


def _nuv_randint(ex, frame, e, base=None):
    args, kw = ex.eval_args(e, frame)
    r = INT.fresh('randint')
    ex.assume(z3.And(r.t >= _t(args[0]), r.t <= _t(args[1])))
    return r


new_uid_validity = Contract(
    'C04', 'pymap/mailbox.py', 'MailboxSnapshot.new_uid_validity', params=dict(cls=SnapCls), returns=INT,
    ghost_init=_nuv_ghost,
    requires=[('issued_so_far_are_recorded', lambda s: s.cls._last_uid_validity >= 0)],
    ensures=[('above_every_value_issued_before', lambda s: s.result > s.old.cls._last_uid_validity),
             ('remembered_as_the_last_value_issued', lambda s: s.cls._last_uid_validity == s.result),
             ('a_non_zero_number', lambda s: s.result >= 1)],
    calls={'time.time': _nuv_time, 'random.randint': _nuv_randint, 'int': lambda ex, frame, e, base=None: ex.eval(e.args[0], frame),
           'MailboxSnapshot._uid_validity_lock': lambda ex, frame, item, phase: None},
    modifies=['cls._last_uid_validity'], raises_only=(),
    note='every value this process issued before is <= _last_uid_validity (induction over the calls: each returns the new '
         '_last_uid_validity, which exceeds the old one); uniqueness across process restarts (maildir) stays probabilistic')
new_uid_validity.binop_model = _nuv_binop
from pyvc.values import _t  # noqa: E402


def _bounded():
    from . import dict_harness as H
    return [Bounded('dict MailboxData: UidInv / uids_grow / returned uid on reachable states',
                    'every sequence of <= 2 (quick) / 3 (thorough) operations from {append x2, delete x2, update, copy, '
                    'move} on a fresh real MailboxData, then every call of append/copy/move/delete with uids 101..103, '
                    'self/other destination; the contract clauses evaluated on the observed pre/post state',
                    H.bounded_mailbox([append, copy, move, delete]))] + [
        Bounded(f'reporting clauses on the real server ({bk})',
                'programs of APPEND / COPY / MOVE / EXPUNGE (sequence-number and UID forms; 12 set shapes incl. '
                'non-ascending, overlapping, `*`, out of range) by two sessions of one user on two mailboxes: every shape x '
                '{copy, move} x {UID, seq} x {other, same mailbox}, uid continuity after expunging the highest uid, and '
                '250 (quick) / 4000 (thorough) random programs of 2-5 commands [maildir: the first 140 / 1200]; an observer '
                'connection dumps every mailbox before and after every command; oracle = the statement of C04 '
                '(harness/e2e_uids.py)',
                bounded_uids('C04', bk), decisive=True) for bk in ('dict', 'maildir++', 'maildirfs')] + [
        Bounded('a name made anew never gets a UIDVALIDITY it had before (real server)',
                'INBOX renamed away 3000 times (thorough 20000) and a mailbox deleted and created again 3000 times on the dict '
                'backend, 250 (2500) times on each maildir layout, one APPEND into every generation: no two generations of a '
                'name may answer the same [APPENDUID v u] (16 random bits per second make a repeat likely within a few hundred '
                'generations unless the implementation prevents it)', bounded_uidvalidity('C04'), decisive=False),
        Bounded('STRESS (not exhaustive): concurrent sessions in real threads on the maildir backend',
                'the threading subsystem as `pymap ... maildir` sets it up; one session APPENDs 50 (thorough 300) messages to INBOX '
                'while a second repeats STATUS INBOX (get_mailbox -> reset) and, in half of the runs, a third repeats CHECK '
                '(cleanup); both layouts, 1 (thorough 6) repetitions each; afterwards every message must be present exactly once '
                'under the uid its APPENDUID announced (an APPEND answered NO [TIMEOUT] must have left nothing).  Finds a race '
                'with some probability only; the deductive obligations "a file appears / the directory is listed only while the '
                'UID list is locked" of contracts/maildir.py are what excludes it', bounded_race('C04'), decisive=False)]


PROPERTY = Property(
    'C04', 'UIDs strictly increasing, never reused, truthfully reported',
    contracts=[append, copy, move, delete, snapshot_weak, snapshot_exact, new_uid_validity] + MD.CONTRACTS + IO.CONTRACTS + _reporting,
    registry=REG, bounded=_bounded(),
    structural=[Structural('NoYieldUnderLock', no_yield_under_lock),
                Structural('mutators_covered', mutators_covered)],
    level='other', design_ref='6 C04',
    trusted_base=['asyncio cooperative scheduling (a coroutine is atomic between suspensions)',
                  'model of Message.__init__/Message.copy (fresh object with the given uid)',
                  'weak contracts of _ModSequenceMapping.update/expunge (frame only; proved in C02)'],
)
