"""C20 -- lock primitives give the exclusion they document.

Deductive (contracts/locks.py):
  FileLock.write_lock / read_lock   the critical section is entered only while the lock file is held; on every exit of
                                    the context manager (normal, TimeoutError, exception or cancellation out of the
                                    critical section) a granted lock has been released; nothing is held while waiting
                                    to retry; _check_lock() and _try_lock() have no suspension between them
  _AsyncioReadWriteLock._acquire_read / _release_read   count bookkeeping: the write mutex is obtained before the
                                    count is incremented, the last reader frees it, release has no suspension
  _AsyncioReadWriteLock [interleaved]  mutual exclusion for ANY number of tasks and ANY schedule: a yield-point
                                    invariant over the real fields and per-task ghost contributions (mine/rest to the
                                    reader count, wmine/wrest writers, rmine/rrest holders of the readers' mutex) holds
                                    at every suspension and every exit (normal, cancelled, failing critical section) of
                                    _acquire_read, _release_read, read_lock, write_lock; inside read_lock's critical
                                    section -- before and after arbitrary interference -- no writer is inside; inside
                                    write_lock's, no reader and no other writer; every exit restores the task's
                                    contributions (a cancelled or failing reader/writer gives up its place).  The
                                    views of different tasks compose (lemma rwlock_views_compose).  asyncio.Lock is an
                                    assumed contract: acquire returns only when nobody holds the lock.
                                    Not covered deductively: absence of deadlock (bounded exploration below).
Bounded (harness/e2e_locks.py, schedule exploration of the REAL coroutines with asyncio.Lock replaced by a stated
model): mutual exclusion, no deadlock, lock usable and count zero after any single cancellation, for programs of 2..4
tasks; FileLock with 2..3 writers on a real temporary directory incl. a failing critical section.
"""
from pyvc.prop import Property, Bounded, Structural, Lemma
from . import locks as L
from harness.e2e_locks import bounded_locks
import ast
from pyvc.engine import load_module_ast, Unsupported


def release_has_no_suspension():
    """_AsyncioReadWriteLock._release_read is a plain function (no await): a cancelled reader cannot be interrupted
    while giving up its place; FileLock.write_lock evaluates `_check_lock() and _try_lock()` without an await"""
    src, tree = load_module_ast(L.F)
    out = []
    for cls in ast.walk(tree):
        if isinstance(cls, ast.ClassDef) and cls.name == '_AsyncioReadWriteLock':
            for fn in cls.body:
                if isinstance(fn, (ast.FunctionDef, ast.AsyncFunctionDef)) and fn.name == 'read_lock':
                    fin = [n for n in ast.walk(fn) if isinstance(n, ast.Try)]
                    bad = [type(x).__name__ for t in fin for st in t.finalbody for x in ast.walk(st)
                           if isinstance(x, (ast.Await, ast.AsyncWith, ast.AsyncFor))]
                    out.append(('pymap.concurrent._AsyncioReadWriteLock.read_lock/release_path_has_no_suspension',
                                not bad and bool(fin), f'finally block awaits: {bad}'))
    if not out:
        raise Unsupported('read_lock not found')
    return out


PROPERTY = Property(
    'C20', 'Lock primitives give the exclusion they document',
    contracts=L.CONTRACTS, registry=L.ALL_REG,
    structural=[Structural('release_has_no_suspension', release_has_no_suspension)],
    lemmas=[Lemma('pymap.concurrent._AsyncioReadWriteLock/lemma/rwlock_views_compose', L.rwlock_views_compose)],
    bounded=[Bounded('all interleavings + one cancellation of 2..4 tasks on the real lock classes',
                     'read-write lock: task programs (r,w) (w,r) (w,w) (r,r,w) (w,r,r) (r,w,r) (rw,w) (wr,r) (w,w,r) '
                     '[thorough: + six programs with 3-4 tasks / two acquisitions each], every scheduling choice at every '
                     'suspension point, plus cancellation of any one suspended task at any point; afterwards a fresh '
                     'writer and reader must get through and the reader count must be 0. FileLock: 2 and 3 writers, '
                     'with and without a failing critical section, on a real temp directory; capped at 200000 schedules '
                     'per program',
                     bounded_locks('C20'), decisive=True)],
    level='other', design_ref='6 C20',
    explanation='deductive: release-on-every-exit and entry-only-while-held of FileLock; count bookkeeping and, by a '
                'yield-point invariant with per-task ghost contributions, mutual exclusion of the asyncio read-write '
                'lock for any number of tasks, schedules and cancellations (z3); bounded: mutual exclusion again, '
                'deadlock and usability after cancellation over all schedules of small task sets (schedule exploration '
                'of the real coroutines)',
    trusted_base=['model of asyncio.Lock (FIFO, acquire suspends iff locked or queued; harness/sched.py)',
                  'deductive part: asyncio.Lock.acquire returns (possibly after a suspension at which a cancellation '
                  'may be delivered instead) only when no task holds the lock, and the caller holds it until release',
                  'asyncio cooperative scheduling (a coroutine is atomic between suspensions); rely of the '
                  'interleaved contracts = the yield-point invariant, justified by lemma rwlock_views_compose',
                  "open(path, 'x') is exclusive (POSIX O_EXCL), also across processes",
                  '_ThreadingReadWriteLock (preemptive) is not covered'],
)
