"""C20 -- lock primitives give the exclusion they document.

Deductive (contracts/locks.py):
  FileLock.write_lock / read_lock   the critical section is entered only while the lock file is held; on every exit of
                                    the context manager (normal, TimeoutError, exception or cancellation out of the
                                    critical section) a granted lock has been released; nothing is held while waiting
                                    to retry; _check_lock() and _try_lock() have no suspension between them
  _AsyncioReadWriteLock._acquire_read / _release_read   count bookkeeping: the write mutex is obtained before the
                                    count is incremented, the last reader frees it, release has no suspension
Bounded (harness/e2e_locks.py, schedule exploration of the REAL coroutines with asyncio.Lock replaced by a stated
model): mutual exclusion, no deadlock, lock usable and count zero after any single cancellation, for programs of 2..4
tasks; FileLock with 2..3 writers on a real temporary directory incl. a failing critical section.
"""
from pyvc.prop import Property, Bounded, Structural
from . import locks as L
from harness.e2e_locks import bounded_locks
import ast
from pyvc.engine import load_module_ast, Unsupported


def release_has_no_suspension():
    """_AsyncioReadWriteLock._release_read is a plain function (no await): a cancelled reader cannot be interrupted
    while giving up its place; FileLock.write_lock evaluates `_check_lock() and _try_lock()` without an await"""
    src, tree = load_module_ast(L.F)
    out = []
    for cls in ast.walk(tree):
        if isinstance(cls, ast.ClassDef) and cls.name == '_AsyncioReadWriteLock':
            for fn in cls.body:
                if isinstance(fn, (ast.FunctionDef, ast.AsyncFunctionDef)) and fn.name == 'read_lock':
                    fin = [n for n in ast.walk(fn) if isinstance(n, ast.Try)]
                    bad = [type(x).__name__ for t in fin for st in t.finalbody for x in ast.walk(st)
                           if isinstance(x, (ast.Await, ast.AsyncWith, ast.AsyncFor))]
                    out.append(('pymap.concurrent._AsyncioReadWriteLock.read_lock/release_path_has_no_suspension',
                                not bad and bool(fin), f'finally block awaits: {bad}'))
    if not out:
        raise Unsupported('read_lock not found')
    return out


PROPERTY = Property(
    'C20', 'Lock primitives give the exclusion they document',
    contracts=L.CONTRACTS, registry=L.ALL_REG,
    structural=[Structural('release_has_no_suspension', release_has_no_suspension)],
    bounded=[Bounded('all interleavings + one cancellation of 2..4 tasks on the real lock classes',
                     'read-write lock: task programs (r,w) (w,r) (w,w) (r,r,w) (w,r,r) (r,w,r) (rw,w) (wr,r) (w,w,r) '
                     '[thorough: + six programs with 3-4 tasks / two acquisitions each], every scheduling choice at every '
                     'suspension point, plus cancellation of any one suspended task at any point; afterwards a fresh '
                     'writer and reader must get through and the reader count must be 0. FileLock: 2 and 3 writers, '
                     'with and without a failing critical section, on a real temp directory; capped at 200000 schedules '
                     'per program',
                     bounded_locks('C20'), decisive=True)],
    level='other', design_ref='6 C20',
    explanation='deductive: release-on-every-exit and entry-only-while-held of FileLock, count bookkeeping of the '
                'read-write lock (z3); bounded: mutual exclusion / deadlock / cancellation over all schedules of small '
                'task sets (schedule exploration of the real coroutines)',
    trusted_base=['model of asyncio.Lock (FIFO, acquire suspends iff locked or queued; harness/sched.py)',
                  "open(path, 'x') is exclusive (POSIX O_EXCL), also across processes",
                  '_ThreadingReadWriteLock (preemptive) is not covered'],
)
