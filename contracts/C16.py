"""C16 -- IDLE delivers every change without further stimulus.

Liveness is restated as safety at the blocking point plus assumed progress of asyncio (a set Event wakes its waiters;
ready tasks are eventually run).
Deductive:
  dict MailboxData.update_selected   when it suspends in either_event.wait() the session is up to date with the change
                          log (no sleep with work pending) and the or-event was registered before; afterwards the
                          session is brought up to the highest mod-sequence
  _AsyncioEvent.set       sets its own event and every registered listener (the or-events of idlers)
  ConnectionState.do_command   every dispatched command (IDLE included) starts with `hide_expunged` off, whatever the
                          previous command left behind (a refused non-UID command never reaches the fork that would reset it):
                          otherwise the first EXPUNGE during IDLE would be deferred instead of pushed
  IMAPConnection.handle_updates   every batch receive_updates returned (it forks the selection: the untagged responses
                          exist only in that return value) is handed to write_updates, shielded, before `done` is looked
                          at again -- no batch is dropped when DONE arrives in the same round
  IMAPConnection.idle     idling starts only after do_command answered OK and the continuation request was written;
                          `done.set()` happens on every path before the updates task is awaited, both tasks are awaited
                          before idle() returns or raises, the answer carries the IDLE command's tag
  structural              every change-log entry of dict MailboxData is followed by self._updated.set() in the same block
                          (same atomic segment), unconditionally
Bounded (real server): bursts of APPEND/STORE/EXPUNGE against 1-2 idlers, read-write or read-only, the changing session
with or without the mailbox selected, the idler's transport blocked (drain held) before each change of the burst in turn,
DONE racing with a change in both orders at 0..11 loop turns distance, DONE while blocked; endings DONE / other lines.
"""
from pyvc.prop import Property, Bounded, Structural
from . import idle as I, state as ST, runstate as RS
from harness.e2e_idle import bounded_idle

PROPERTY = Property(
    'C16', 'IDLE delivers every change without further stimulus',
    contracts=I.CONTRACTS + [ST.do_command_sel] + RS.CONTRACTS_IDLE, registry=dict(list(ST.REG.items()) + list(I.REG.items())),
    structural=[Structural('mutators_signal', I.mutators_signal)],
    bounded=[Bounded('IDLE bursts with blocked transport and DONE races (real server, dict backend)',
                     'changes {append, two appends back to back, expunge of the lowest / of a middle message, flag change}: all '
                     'bursts of length 1-2 (thorough 1-3) x transport of the first idler blocked before change k (each k, or '
                     'never) x SELECT/EXAMINE; two idlers; the changing session without the mailbox selected; DONE and a change '
                     'at 0..11 loop turns distance in both orders; DONE sent while blocked; 5 malformed endings; afterwards '
                     'NOOP + non-UID FETCH probe against the client model',
                     bounded_idle('C16'), decisive=True)],
    level='other', design_ref='6 C16',
    explanation='deductive: no-sleep-with-work at the blocking point of the dict backend, Event.set reaches every listener, '
                'every change is signalled in its own atomic segment; bounded: IMAPConnection.idle/handle_updates and the '
                'delivery itself, on the stated schedules',
    trusted_base=['asyncio progress: a set Event wakes its waiters and ready tasks run (assumed)',
                  'IMAPConnection.idle / handle_updates: control flow proved over abstract callees (create_task hands back the '
                  'task, awaiting it gives its result or exception); the actual scheduling of the two tasks, asyncio.shield '
                  'and cancellation of idle() itself are bounded only',
                  'maildir (1 s timeout + rescan) not covered'],
)
