"""C13 -- SEARCH returns exactly the matching messages.

Deductive (pymap/search.py, contracts/search.py): with den(c, seq, msg) the ghost denotation of a criteria object,
SearchCriteriaSet.matches is the conjunction, OrSearchCriteria the disjunction, InverseSearchCriteria the complement
of the denotations of their parts; ALL, the flag keys (incl. NEW), SMALLER/LARGER and the sequence-set / UID-set key
(`*` = highest number of the right kind) test what RFC 3501 6.4.4 says.
Bounded (real server, harness/e2e_search.py): every supported key and its negation, and seeded programs to depth 2,
against an independent evaluator on crafted messages; UID SEARCH vs SEARCH; equivalent programs; hidden expunges.
"""
from pyvc.prop import Property, Bounded
from . import search as S, session as SES
from harness.e2e_search import bounded_search

PROPERTY = Property(
    'C13', 'SEARCH returns exactly the matching messages',
    contracts=S.CONTRACTS + [c for c in SES.make('C01') if c.qualname.endswith('search_mailbox')],
    registry=dict(list(SES.REG.items()) + list(S.REG.items())),
    bounded=[Bounded('SEARCH programs vs. an independent RFC 3501 evaluator (real server)',
                     '7 crafted messages (flags, sizes, internal and sent dates incl. two within a zone offset of midnight, '
                     'From/To/Cc/Bcc/Subject/X-Test, bodies) and 6 (thorough 80) seeded randomly generated mailboxes of 3-8 '
                     'messages (random flags, sizes around the thresholds, dates around the searched days at any time of day in '
                     'seven zones, header/body text from pools): on each random mailbox every leaf key, its negation and 120 '
                     '(400) composite programs; on the crafted mailbox: '
                     'all 95 leaf keys (every flag key, NEW/OLD/RECENT, KEYWORD, BEFORE/ON/SINCE and SENT* x 3 dates, '
                     'FROM/TO/CC/BCC/SUBJECT/BODY/TEXT/HEADER x 5 strings, SMALLER/LARGER, 4 sequence sets, 3 UID sets) and '
                     'their negations; 1500 (quick) / 12000 (thorough) seeded composite programs (AND, OR, NOT OR, groups, K '
                     'NOT K, duplicates, NOT NOT, nested); each as SEARCH and UID SEARCH; single keys again with another '
                     'session\'s expunge hidden',
                     bounded_search('C13'), decisive=True)],
    level='other', design_ref='6 C13',
    explanation='deductive: the boolean structure and the pure keys (z3, unbounded); bounded: header/text/date keys '
                '(email + regex code), the parser, dispatch (SearchCriteria.of) and the composition through '
                'search_mailbox/do_search',
    trusted_base=['SearchCriteria.of dispatch table, SearchKey parsing and frozenset de-duplication of keys: bounded only',
                  'header/envelope/text keys go through email and re: bounded only'],
)
